//! Shared by the FRI properties C15 and C05 (included with `#[path]` from src/bin/c15.rs and c05.rs):
//! an independent reference field (integers mod p and the quadratic extension x^2 - x + 2 of the
//! 64-bit field, built on wf_harness::oracle), the mapping between reference elements and the
//! repository's element types, dispatch over (field, hasher), scripted channels/coins, byte-level
//! surgery on serialized `FriProof`s and the coefficient-domain reference of FRI folding.
#![allow(dead_code, unused_variables, unused_imports, unused_mut)]
use std::marker::PhantomData;

use wf_harness::core::*;
use wf_harness::fields::*;
use wf_harness::oracle::*;
use winter_crypto::{
    hashers::{Blake3_192, Blake3_256, Rp62_248, Rp64_256, RpJive64_256, Sha3_256},
    DefaultRandomCoin, ElementHasher, Hasher, RandomCoin, RandomCoinError,
};
use winter_fri::{
    DefaultProverChannel, DefaultVerifierChannel, FriOptions, FriProof, FriProver, FriVerifier, ProverChannel,
    VerifierChannel, VerifierError,
};
use winter_math::{
    fields::{f128, f62, f64, CubeExtension, QuadExtension},
    FieldElement, StarkField,
};
use winter_utils::{Deserializable, Serializable};

// ------------------------------------------------------------------------------------ reference field
/// reference element: `a` (base field) or `a + b·x` (quadratic extension)
#[derive(Clone, Copy, PartialEq, Eq, Debug, Hash)]
pub struct O(pub u128, pub u128);

/// reference field: integers modulo `m`, optionally extended by x^2 = x - 2
#[derive(Clone, Copy, Debug)]
pub struct OF {
    pub m: u128,
    pub ext: bool,
    pub two_adicity: u32,
    pub root: u128,
    pub gen: u128,
}

impl OF {
    pub fn of<B: Fld>(ext: bool) -> OF {
        OF {
            m: B::MOD,
            ext,
            two_adicity: B::TWO_ADICITY,
            root: B::TWO_ADIC_ROOT_OF_UNITY.canon(),
            gen: B::GENERATOR.canon(),
        }
    }
    pub fn zero(&self) -> O {
        O(0, 0)
    }
    pub fn one(&self) -> O {
        O(1, 0)
    }
    pub fn from_u(&self, n: u128) -> O {
        O(n % self.m, 0)
    }
    pub fn add(&self, x: O, y: O) -> O {
        O(addmod(x.0, y.0, self.m), addmod(x.1, y.1, self.m))
    }
    pub fn sub(&self, x: O, y: O) -> O {
        O(submod(x.0, y.0, self.m), submod(x.1, y.1, self.m))
    }
    pub fn mul(&self, x: O, y: O) -> O {
        let m = self.m;
        if !self.ext || (x.1 == 0 && y.1 == 0) {
            return O(mulmod(x.0, y.0, m), 0);
        }
        // (a0 + a1 x)(b0 + b1 x) with x^2 = x - 2
        let a0b0 = mulmod(x.0, y.0, m);
        let a1b1 = mulmod(x.1, y.1, m);
        let cross = addmod(mulmod(x.0, y.1, m), mulmod(x.1, y.0, m), m);
        O(submod(a0b0, addmod(a1b1, a1b1, m), m), addmod(cross, a1b1, m))
    }
    pub fn pow(&self, x: O, mut e: u128) -> O {
        let mut b = x;
        let mut r = self.one();
        while e > 0 {
            if e & 1 == 1 {
                r = self.mul(r, b);
            }
            b = self.mul(b, b);
            e >>= 1;
        }
        r
    }
    /// multiplicative inverse (0 for 0)
    pub fn inv(&self, x: O) -> O {
        let m = self.m;
        if !self.ext || x.1 == 0 {
            return O(invmod(x.0, m), 0);
        }
        // (a + b x)(a + b - b x) = a^2 + a b + 2 b^2 for x^2 = x - 2
        let (a, b) = (x.0, x.1);
        let norm = addmod(addmod(mulmod(a, a, m), mulmod(a, b, m), m), mulmod(2, mulmod(b, b, m), m), m);
        let ni = invmod(norm, m);
        O(mulmod(addmod(a, b, m), ni, m), mulmod(submod(0, b, m), ni, m))
    }
    /// value at `a` of the polynomial of degree < xs.len() through (xs[j], ys[j]) (Lagrange)
    pub fn lagrange_eval(&self, xs: &[O], ys: &[O], a: O) -> O {
        let mut acc = self.zero();
        for j in 0..xs.len() {
            let mut num = self.one();
            let mut den = self.one();
            for k in 0..xs.len() {
                if k != j {
                    num = self.mul(num, self.sub(a, xs[k]));
                    den = self.mul(den, self.sub(xs[j], xs[k]));
                }
            }
            acc = self.add(acc, self.mul(ys[j], self.mul(num, self.inv(den))));
        }
        acc
    }
    /// coefficients (xs.len() of them) of the polynomial through (xs[j], ys[j])
    pub fn interpolate(&self, xs: &[O], ys: &[O]) -> Vec<O> {
        let n = xs.len();
        let mut res = vec![self.zero(); n];
        // master polynomial Π (X - x_k)
        let mut master = vec![self.one()];
        for x in xs {
            let mut next = vec![self.zero(); master.len() + 1];
            for (i, c) in master.iter().enumerate() {
                next[i + 1] = self.add(next[i + 1], *c);
                next[i] = self.sub(next[i], self.mul(*c, *x));
            }
            master = next;
        }
        for j in 0..n {
            // q = master / (X - x_j) by synthetic division
            let mut q = vec![self.zero(); n];
            let mut carry = self.zero();
            for i in (0..n).rev() {
                carry = self.add(master[i + 1], self.mul(carry, xs[j]));
                q[i] = carry;
            }
            let d = self.horner(&q, xs[j]);
            let s = self.mul(ys[j], self.inv(d));
            for i in 0..n {
                res[i] = self.add(res[i], self.mul(q[i], s));
            }
        }
        res
    }
    /// a root of unity of order 2^k
    pub fn root_of_unity(&self, k: u32) -> O {
        O(powmod(self.root, 1u128 << (self.two_adicity - k), self.m), 0)
    }
    pub fn offset(&self) -> O {
        O(self.gen, 0)
    }
    pub fn horner(&self, p: &[O], x: O) -> O {
        let mut acc = self.zero();
        for c in p.iter().rev() {
            acc = self.add(self.mul(acc, x), *c);
        }
        acc
    }
    /// the points offset·g^i, i < n (n a power of two)
    pub fn domain(&self, n: usize) -> Vec<O> {
        let g = if n > 1 { self.root_of_unity(n.trailing_zeros()) } else { self.one() };
        let mut x = self.offset();
        let mut v = Vec::with_capacity(n);
        for _ in 0..n {
            v.push(x);
            x = self.mul(x, g);
        }
        v
    }
    pub fn rand(&self, rng: &mut Rng) -> O {
        O(rng.u128() % self.m, if self.ext { rng.u128() % self.m } else { 0 })
    }
    pub fn print(&self, x: O) -> String {
        if self.ext {
            format!("{}:{}", x.0, x.1)
        } else {
            format!("{}", x.0)
        }
    }
    pub fn parse(&self, s: &str) -> Option<O> {
        if self.ext {
            let mut it = s.split(':');
            let a = it.next()?.parse::<u128>().ok()?;
            let b = it.next()?.parse::<u128>().ok()?;
            if it.next().is_some() {
                return None;
            }
            Some(O(a % self.m, b % self.m))
        } else {
            Some(O(s.parse::<u128>().ok()? % self.m, 0))
        }
    }
    pub fn print_list(&self, xs: &[O]) -> String {
        if xs.is_empty() {
            "-".into()
        } else {
            xs.iter().map(|x| self.print(*x)).collect::<Vec<_>>().join(",")
        }
    }
    pub fn parse_list(&self, s: &str) -> Option<Vec<O>> {
        if s == "-" {
            return Some(vec![]);
        }
        s.split(',').map(|t| self.parse(t)).collect()
    }
    pub fn print_rows(&self, rows: &[Vec<O>]) -> String {
        if rows.is_empty() {
            "-".into()
        } else {
            rows.iter().map(|r| self.print_list(r)).collect::<Vec<_>>().join(";")
        }
    }
    pub fn parse_rows(&self, s: &str) -> Option<Vec<Vec<O>>> {
        if s == "-" {
            return Some(vec![]);
        }
        s.split(';').map(|t| self.parse_list(t)).collect()
    }

    // -------------------------------------------------------------------------------- FRI reference
    /// coefficient-domain folding: c'_m = Σ_k α^k c_{N·m+k}
    pub fn fold_coeffs(&self, c: &[O], alpha: O, n: usize) -> Vec<O> {
        let len = (c.len() + n - 1) / n;
        let mut out = vec![self.zero(); len];
        for (m, o) in out.iter_mut().enumerate() {
            let mut acc = self.zero();
            let mut ap = self.one();
            for k in 0..n {
                if let Some(ck) = c.get(n * m + k) {
                    acc = self.add(acc, self.mul(ap, *ck));
                }
                ap = self.mul(ap, alpha);
            }
            *o = acc;
        }
        out
    }
    /// the polynomial whose evaluations over offset·g'^i the *next layer* of the prover holds: the folded
    /// polynomial in the variable y·offset^(N-1) (every layer is interpreted over the same offset)
    pub fn fold_layer_coeffs(&self, c: &[O], alpha: O, n: usize) -> Vec<O> {
        let mut out = self.fold_coeffs(c, alpha, n);
        let s = self.pow(self.offset(), (n - 1) as u128);
        let mut sp = self.one();
        for o in out.iter_mut() {
            *o = self.mul(*o, sp);
            sp = self.mul(sp, s);
        }
        out
    }
}

pub fn parse_usizes(s: &str) -> Option<Vec<usize>> {
    if s == "-" {
        return Some(vec![]);
    }
    s.split(',').map(|t| t.parse::<usize>().ok()).collect()
}

pub fn print_usizes(xs: &[usize]) -> String {
    if xs.is_empty() {
        "-".into()
    } else {
        xs.iter().map(|x| x.to_string()).collect::<Vec<_>>().join(",")
    }
}

/// independent reference of `FriOptions::num_fri_layers`
pub fn ref_num_layers(blowup: usize, folding: usize, remdeg: usize, domain: usize) -> usize {
    let mut d = domain;
    let mut l = 0;
    while d > (remdeg + 1) * blowup {
        d /= folding;
        l += 1;
    }
    l
}

/// independent reference of `fold_positions`: order-preserving de-duplication of p mod m
pub fn ref_fold_positions(ps: &[usize], m: usize) -> Vec<usize> {
    let mut seen = std::collections::HashSet::new();
    let mut out = vec![];
    for p in ps {
        if seen.insert(p % m) {
            out.push(p % m);
        }
    }
    out
}

// ------------------------------------------------------------------------------------ element mapping
pub trait El<B: Fld>: FieldElement<BaseField = B> {
    const EXT: bool;
    fn from_o(o: O) -> Self;
    fn to_o(&self) -> O;
}

macro_rules! base_el {
    ($t:ty) => {
        impl El<$t> for $t {
            const EXT: bool = false;
            fn from_o(o: O) -> Self {
                <$t as Fld>::from_word(o.0)
            }
            fn to_o(&self) -> O {
                O(self.canon(), 0)
            }
        }
    };
}
base_el!(f64::BaseElement);
base_el!(f62::BaseElement);
base_el!(f128::BaseElement);

impl El<f64::BaseElement> for QuadExtension<f64::BaseElement> {
    const EXT: bool = true;
    fn from_o(o: O) -> Self {
        QuadExtension::new(f64::BaseElement::from_word(o.0), f64::BaseElement::from_word(o.1))
    }
    fn to_o(&self) -> O {
        O(self.base_element(0).canon(), self.base_element(1).canon())
    }
}

// the large-element fields below are used by the e2e lines only (reference elements carry two components; the
// reference multiplication is not that of these fields): quadratic extension of f128 (32-byte elements), cubic
// extensions of f64 / f62 (24-byte elements, third component filled from the first two)
impl El<f128::BaseElement> for QuadExtension<f128::BaseElement> {
    const EXT: bool = true;
    fn from_o(o: O) -> Self {
        QuadExtension::new(f128::BaseElement::from_word(o.0), f128::BaseElement::from_word(o.1))
    }
    fn to_o(&self) -> O {
        O(self.base_element(0).canon(), self.base_element(1).canon())
    }
}
impl El<f64::BaseElement> for CubeExtension<f64::BaseElement> {
    const EXT: bool = true;
    fn from_o(o: O) -> Self {
        let (a, b) = (f64::BaseElement::from_word(o.0), f64::BaseElement::from_word(o.1));
        CubeExtension::new(a, b, a * b + b)
    }
    fn to_o(&self) -> O {
        O(self.base_element(0).canon(), self.base_element(1).canon())
    }
}
impl El<f62::BaseElement> for CubeExtension<f62::BaseElement> {
    const EXT: bool = true;
    fn from_o(o: O) -> Self {
        let (a, b) = (f62::BaseElement::from_word(o.0), f62::BaseElement::from_word(o.1));
        CubeExtension::new(a, b, a * b + b)
    }
    fn to_o(&self) -> O {
        O(self.base_element(0).canon(), self.base_element(1).canon())
    }
}

pub fn to_els<B: Fld, E: El<B>>(xs: &[O]) -> Vec<E> {
    xs.iter().map(|x| E::from_o(*x)).collect()
}
pub fn to_os<B: Fld, E: El<B>>(xs: &[E]) -> Vec<O> {
    xs.iter().map(|x| x.to_o()).collect()
}

// ------------------------------------------------------------------------------------ dispatch
pub trait Job {
    fn run<B: Fld, E: El<B>, H: ElementHasher<BaseField = B> + 'static>(&self, of: OF) -> Outcome;
}

pub const FIELDS: [&str; 4] = ["f64", "f62", "f128", "q64"];

/// hashers available for a field name
pub fn hashers_for(fld: &str) -> Vec<&'static str> {
    match fld {
        "f64" | "q64" => vec!["b3", "sha3", "rp64", "b192", "rpj"],
        "f62" => vec!["b3", "sha3", "rp62", "b192"],
        _ => vec!["b3", "sha3", "b192"],
    }
}

pub fn dispatch(fld: &str, hasher: &str, job: &impl Job) -> Outcome {
    type B64 = f64::BaseElement;
    type B62 = f62::BaseElement;
    type B128 = f128::BaseElement;
    type Q64 = QuadExtension<f64::BaseElement>;
    match (fld, hasher) {
        ("f64", "b3") => job.run::<B64, B64, Blake3_256<B64>>(OF::of::<B64>(false)),
        ("f64", "b192") => job.run::<B64, B64, Blake3_192<B64>>(OF::of::<B64>(false)),
        ("f64", "sha3") => job.run::<B64, B64, Sha3_256<B64>>(OF::of::<B64>(false)),
        ("f64", "rp64") => job.run::<B64, B64, Rp64_256>(OF::of::<B64>(false)),
        ("f64", "rpj") => job.run::<B64, B64, RpJive64_256>(OF::of::<B64>(false)),
        ("q64", "b3") => job.run::<B64, Q64, Blake3_256<B64>>(OF::of::<B64>(true)),
        ("q64", "b192") => job.run::<B64, Q64, Blake3_192<B64>>(OF::of::<B64>(true)),
        ("q64", "sha3") => job.run::<B64, Q64, Sha3_256<B64>>(OF::of::<B64>(true)),
        ("q64", "rp64") => job.run::<B64, Q64, Rp64_256>(OF::of::<B64>(true)),
        ("q64", "rpj") => job.run::<B64, Q64, RpJive64_256>(OF::of::<B64>(true)),
        ("f62", "b3") => job.run::<B62, B62, Blake3_256<B62>>(OF::of::<B62>(false)),
        ("f62", "b192") => job.run::<B62, B62, Blake3_192<B62>>(OF::of::<B62>(false)),
        ("f62", "sha3") => job.run::<B62, B62, Sha3_256<B62>>(OF::of::<B62>(false)),
        ("f62", "rp62") => job.run::<B62, B62, Rp62_248>(OF::of::<B62>(false)),
        ("f128", "b3") => job.run::<B128, B128, Blake3_256<B128>>(OF::of::<B128>(false)),
        ("f128", "b192") => job.run::<B128, B128, Blake3_192<B128>>(OF::of::<B128>(false)),
        ("f128", "sha3") => job.run::<B128, B128, Sha3_256<B128>>(OF::of::<B128>(false)),
        // large elements (e2e lines only)
        ("q128", "b3") => job.run::<B128, QuadExtension<B128>, Blake3_256<B128>>(OF::of::<B128>(true)),
        ("q128", "sha3") => job.run::<B128, QuadExtension<B128>, Sha3_256<B128>>(OF::of::<B128>(true)),
        ("c64", "b3") => job.run::<B64, CubeExtension<B64>, Blake3_256<B64>>(OF::of::<B64>(true)),
        ("c64", "rp64") => job.run::<B64, CubeExtension<B64>, Rp64_256>(OF::of::<B64>(true)),
        ("c62", "b3") => job.run::<B62, CubeExtension<B62>, Blake3_256<B62>>(OF::of::<B62>(true)),
        ("c62", "sha3") => job.run::<B62, CubeExtension<B62>, Sha3_256<B62>>(OF::of::<B62>(true)),
        _ => Outcome::ok("bad-op"),
    }
}

pub fn of_for(fld: &str) -> Option<OF> {
    match fld {
        "f64" => Some(OF::of::<f64::BaseElement>(false)),
        "q64" => Some(OF::of::<f64::BaseElement>(true)),
        "f62" => Some(OF::of::<f62::BaseElement>(false)),
        "f128" => Some(OF::of::<f128::BaseElement>(false)),
        _ => None,
    }
}

// ------------------------------------------------------------------------------------ scripted channels
/// prover channel whose α's are given (commitments are recorded)
pub struct ScriptChannel<E: FieldElement, H: Hasher> {
    pub alphas: Vec<E>,
    pub next: usize,
    pub commitments: Vec<H::Digest>,
}

impl<E: FieldElement, H: Hasher> ScriptChannel<E, H> {
    pub fn new(alphas: Vec<E>) -> Self {
        ScriptChannel { alphas, next: 0, commitments: vec![] }
    }
}

impl<E: FieldElement, H: Hasher> ProverChannel<E> for ScriptChannel<E, H> {
    type Hasher = H;
    fn commit_fri_layer(&mut self, layer_root: H::Digest) {
        self.commitments.push(layer_root);
    }
    fn draw_fri_alpha(&mut self) -> E {
        let a = self.alphas[self.next];
        self.next += 1;
        a
    }
}

/// public coin whose draws are given (as base-field components)
pub struct ScriptCoin<B: StarkField, H: ElementHasher<BaseField = B>> {
    pub draws: Vec<Vec<B>>,
    pub next: usize,
    _h: PhantomData<fn() -> H>,
}

impl<B: StarkField, H: ElementHasher<BaseField = B>> ScriptCoin<B, H> {
    pub fn of<E: FieldElement<BaseField = B>>(alphas: &[E]) -> Self {
        ScriptCoin {
            draws: alphas.iter().map(|a| E::slice_as_base_elements(std::slice::from_ref(a)).to_vec()).collect(),
            next: 0,
            _h: PhantomData,
        }
    }
}

impl<B: StarkField, H: ElementHasher<BaseField = B>> RandomCoin for ScriptCoin<B, H> {
    type BaseField = B;
    type Hasher = H;
    fn new(_seed: &[B]) -> Self {
        ScriptCoin { draws: vec![], next: 0, _h: PhantomData }
    }
    fn reseed(&mut self, _data: H::Digest) {}
    fn check_leading_zeros(&self, _value: u64) -> u32 {
        0
    }
    fn draw<E: FieldElement<BaseField = B>>(&mut self) -> Result<E, RandomCoinError> {
        let d = self.draws.get(self.next).ok_or(RandomCoinError::FailedToDrawFieldElement(0))?;
        self.next += 1;
        if d.len() != E::EXTENSION_DEGREE {
            return Err(RandomCoinError::FailedToDrawFieldElement(1));
        }
        Ok(E::slice_from_base_elements(d)[0])
    }
    fn draw_integers(&mut self, _n: usize, _d: usize, _nonce: u64) -> Result<Vec<usize>, RandomCoinError> {
        Err(RandomCoinError::FailedToDrawIntegers(0, 0, 0))
    }
}

// ------------------------------------------------------------------------------------ proof surgery
/// the byte-level structure of a serialized `FriProof`
#[derive(Clone, Debug, PartialEq, Eq)]
pub struct RawProof {
    /// (values, paths) per layer
    pub layers: Vec<(Vec<u8>, Vec<u8>)>,
    pub remainder: Vec<u8>,
    pub parts: u8,
}

pub fn split_proof(bytes: &[u8]) -> Option<RawProof> {
    let mut p = 0usize;
    let take = |p: &mut usize, n: usize| -> Option<&[u8]> {
        if *p + n > bytes.len() {
            return None;
        }
        let s = &bytes[*p..*p + n];
        *p += n;
        Some(s)
    };
    let nl = take(&mut p, 1)?[0] as usize;
    let mut layers = vec![];
    for _ in 0..nl {
        let n = u32::from_le_bytes(take(&mut p, 4)?.try_into().ok()?) as usize;
        let v = take(&mut p, n)?.to_vec();
        let n = u32::from_le_bytes(take(&mut p, 4)?.try_into().ok()?) as usize;
        let q = take(&mut p, n)?.to_vec();
        layers.push((v, q));
    }
    let n = u16::from_le_bytes(take(&mut p, 2)?.try_into().ok()?) as usize;
    let remainder = take(&mut p, n)?.to_vec();
    let parts = take(&mut p, 1)?[0];
    if p != bytes.len() {
        return None;
    }
    Some(RawProof { layers, remainder, parts })
}

pub fn join_proof(r: &RawProof) -> Vec<u8> {
    let mut b = vec![r.layers.len() as u8];
    for (v, q) in &r.layers {
        b.extend_from_slice(&(v.len() as u32).to_le_bytes());
        b.extend_from_slice(v);
        b.extend_from_slice(&(q.len() as u32).to_le_bytes());
        b.extend_from_slice(q);
    }
    b.extend_from_slice(&(r.remainder.len() as u16).to_le_bytes());
    b.extend_from_slice(&r.remainder);
    b.push(r.parts);
    b
}

pub fn elements_to_bytes<E: FieldElement>(xs: &[E]) -> Vec<u8> {
    let mut b = vec![];
    for x in xs {
        x.write_into(&mut b);
    }
    b
}

pub fn verr_str(e: &VerifierError) -> String {
    match e {
        VerifierError::RandomCoinError(_) => "err:RandomCoinError".into(),
        VerifierError::UnsupportedFoldingFactor(_) => "err:UnsupportedFoldingFactor".into(),
        VerifierError::NumPositionEvaluationMismatch(_, _) => "err:NumPositionEvaluationMismatch".into(),
        VerifierError::LayerCommitmentMismatch => "err:LayerCommitmentMismatch".into(),
        VerifierError::InvalidLayerFolding(d) => format!("err:InvalidLayerFolding:{}", d),
        VerifierError::RemainderCommitmentMismatch => "err:RemainderCommitmentMismatch".into(),
        VerifierError::InvalidRemainderFolding => "err:InvalidRemainderFolding".into(),
        VerifierError::RemainderDegreeNotValid => "err:RemainderDegreeNotValid".into(),
        VerifierError::RemainderDegreeMismatch(_) => "err:RemainderDegreeMismatch".into(),
        VerifierError::DegreeTruncation(_, _, d) => format!("err:DegreeTruncation:{}", d),
    }
}

pub fn verdict_str(r: &Result<(), VerifierError>) -> String {
    match r {
        Ok(()) => "ok".into(),
        Err(e) => verr_str(e),
    }
}

/// verify a proof with the repository's verifier, the default channel (real Merkle verification) and the
/// given coin; a proof that does not deserialize / parse is `err:Deserialization`
pub fn verify_with<B, E, H, R>(
    proof: FriProof,
    commitments: Vec<H::Digest>,
    coin: &mut R,
    options: &FriOptions,
    max_degree: usize,
    domain_size: usize,
    positions: &[usize],
    evaluations: &[E],
) -> String
where
    B: Fld,
    E: El<B>,
    H: ElementHasher<BaseField = B>,
    R: RandomCoin<BaseField = B, Hasher = H>,
{
    let mut channel =
        match DefaultVerifierChannel::<E, H>::new(proof, commitments, domain_size, options.folding_factor()) {
            Ok(c) => c,
            Err(_) => return "err:Deserialization".into(),
        };
    let verifier = match FriVerifier::new(&mut channel, coin, options.clone(), max_degree) {
        Ok(v) => v,
        Err(e) => return verr_str(&e),
    };
    verdict_str(&verifier.verify(&mut channel, evaluations, positions))
}

/// merge groups of op lines so that every group is spread evenly over the whole run (the model driver is run on
/// equal-sized pieces of the op file in parallel; expensive lines must not sit in one piece)
pub fn emit_interleaved(groups: Vec<Vec<String>>, emit: &mut dyn FnMut(String)) {
    let mut keyed: Vec<(u64, usize, usize, String)> = vec![];
    for (g, lines) in groups.into_iter().enumerate() {
        let len = lines.len().max(1) as u64;
        for (i, l) in lines.into_iter().enumerate() {
            keyed.push((((i as u64) << 32) / len, g, i, l));
        }
    }
    keyed.sort();
    for (_, _, _, l) in keyed {
        emit(l);
    }
}

// ------------------------------------------------------------------------------------ schedule classes
/// one class of FRI schedule: folding `n`, remainder max degree `r`, blowup 2^logb, trace length 2^logt, with
/// `layers` layers and `t` remainder coefficients (all verified against the reference loop)
#[derive(Clone, Copy, Debug)]
pub struct Sched {
    pub n: usize,
    pub r: usize,
    pub logb: u32,
    pub logt: u32,
    pub layers: usize,
    pub t: usize,
}

/// Every class the code distinguishes, by construction (HARDENING.md 1/2): for each folding factor, 0..=3 layers
/// (3 = the maximum that fits), remainder lengths t shorter than / equal to / longer than the folding factor
/// (1, 2, N/2, N, 2N, 4N), the folded bound t equal to remainder_max_degree+1 and below it (r+1 = 2t, and r = 255
/// for zero layers), blowup 2 and 8 — restricted to domains of at most 2^max_logn points.
pub fn schedule_classes(max_logn: u32) -> Vec<Sched> {
    let mut out: Vec<Sched> = vec![];
    for n in [2usize, 4, 8, 16] {
        for layers in 0..=3usize {
            let mut ts = vec![1usize, 2, n / 2, n, 2 * n, 4 * n];
            ts.sort();
            ts.dedup();
            for t in ts {
                for logb in [1u32, 3] {
                    let trace = t * n.pow(layers as u32);
                    let logt = trace.trailing_zeros();
                    if logt + logb > max_logn {
                        continue;
                    }
                    // remainder_max_degree + 1 relative to the folded bound t
                    let mut rs = vec![t - 1, 2 * t - 1];
                    if layers == 0 {
                        rs.push(255);
                    }
                    for r in rs {
                        if r > 255 {
                            continue;
                        }
                        let blowup = 1usize << logb;
                        let size = trace * blowup;
                        if ref_num_layers(blowup, n, r, size) != layers {
                            continue;
                        }
                        let mut d = size;
                        for _ in 0..layers {
                            d /= n;
                        }
                        if d / blowup != t {
                            continue;
                        }
                        out.push(Sched { n, r, logb, logt, layers, t });
                    }
                }
            }
        }
    }
    out
}

pub const POLY_KINDS: [&str; 12] =
    ["zero", "const", "full", "xtop", "xn", "xn1", "x1", "half", "slice0", "maxval", "lowfold", "rand"];

/// structured / degenerate polynomials with at most `t` coefficients (HARDENING.md 3): zero, constant, degree
/// exactly the bound, monomials x^(t-1), x^N, x^(N-1), x, zero upper half (the remainder has zero high
/// coefficients), zero first interleaved slice, all coefficients p-1, and a polynomial whose first folding with
/// the given α cancels the top coefficient of the folded polynomial
pub fn structured_poly(of: &OF, kind: &str, t: usize, n: usize, alpha: O, rng: &mut Rng) -> Vec<O> {
    let mut c = vec![of.zero(); t];
    let mono = |c: &mut Vec<O>, k: usize| {
        if k < c.len() {
            c[k] = of.one();
        } else {
            let l = c.len();
            c[l - 1] = of.one();
        }
    };
    match kind {
        "zero" => {},
        "const" => c[0] = of.rand(rng),
        "xtop" => mono(&mut c, t - 1),
        "xn" => mono(&mut c, n),
        "xn1" => mono(&mut c, n - 1),
        "x1" => mono(&mut c, 1),
        "half" => {
            for x in c.iter_mut().take((t / 2).max(1)) {
                *x = of.rand(rng);
            }
        },
        "slice0" => {
            for (i, x) in c.iter_mut().enumerate() {
                if i % n != 0 {
                    *x = of.rand(rng);
                }
            }
        },
        "maxval" => {
            for x in c.iter_mut() {
                *x = O(of.m - 1, if of.ext { of.m - 1 } else { 0 });
            }
        },
        "lowfold" => {
            // top coefficient of the folded polynomial: Σ_k α^k c[t-n+k] = 0 by the choice of c[t-n]
            for x in c.iter_mut() {
                *x = of.rand(rng);
            }
            if t >= n {
                let mut acc = of.zero();
                let mut ap = alpha;
                for k in 1..n {
                    acc = of.add(acc, of.mul(ap, c[t - n + k]));
                    ap = of.mul(ap, alpha);
                }
                c[t - n] = of.sub(of.zero(), acc);
            }
        },
        "full" => {
            for x in c.iter_mut() {
                *x = of.rand(rng);
            }
            if c[t - 1] == of.zero() {
                c[t - 1] = of.one();
            }
        },
        _ => {
            for x in c.iter_mut() {
                *x = of.rand(rng);
            }
        },
    }
    c
}

pub const QUERY_KINDS: [&str; 8] = ["same", "allcollide", "all", "row", "edge", "dups", "rand", "one"];

/// structured query lists (HARDENING.md 3): all equal, all colliding after `layers` foldings (one coset of the
/// last domain), all positions (maximal distinct), one full row, the edges, duplicates, random, a single one
pub fn structured_positions(kind: &str, size: usize, n: usize, layers: usize, rng: &mut Rng) -> Vec<usize> {
    let p = rng.below(size as u64) as usize;
    match kind {
        "same" => vec![p; 5],
        "allcollide" => {
            let mut last = size;
            for _ in 0..layers {
                last /= n;
            }
            let last = last.max(1);
            let cnt = (size / last).min(64);
            (0..cnt).map(|j| (p % last) + j * last).collect()
        },
        "all" => (0..size.min(256)).collect(),
        "row" => {
            let m = (size / n).max(1);
            (0..n).map(|j| (p % m + j * m) % size).collect()
        },
        "edge" => vec![0, size - 1, size / 2, (size / 2).saturating_sub(1), 0, size - 1],
        "dups" => (0..8).map(|i| (p + (i % 3)) % size).collect(),
        "one" => vec![p],
        _ => (0..6).map(|_| rng.below(size as u64) as usize).collect(),
    }
}
