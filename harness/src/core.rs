//! Harness core: PRNG, property trait, worker/supervisor, report writer.
use std::{
    collections::{BTreeMap, HashSet},
    fs,
    io::{BufRead, BufReader, Write},
    panic::{self, AssertUnwindSafe},
    path::{Path, PathBuf},
    process::{Child, Command, Stdio},
    time::{Duration, Instant},
};

// ------------------------------------------------------------------------------------ PRNG
/// xoshiro256** seeded through splitmix64; the single source of every random choice.
#[derive(Clone)]
pub struct Rng {
    s: [u64; 4],
}

impl Rng {
    pub fn new(seed: u64) -> Self {
        let mut z = seed;
        let mut s = [0u64; 4];
        for x in s.iter_mut() {
            z = z.wrapping_add(0x9E3779B97F4A7C15);
            let mut t = z;
            t = (t ^ (t >> 30)).wrapping_mul(0xBF58476D1CE4E5B9);
            t = (t ^ (t >> 27)).wrapping_mul(0x94D049BB133111EB);
            *x = t ^ (t >> 31);
        }
        Rng { s }
    }
    pub fn u64(&mut self) -> u64 {
        let r = self.s[1].wrapping_mul(5).rotate_left(7).wrapping_mul(9);
        let t = self.s[1] << 17;
        self.s[2] ^= self.s[0];
        self.s[3] ^= self.s[1];
        self.s[1] ^= self.s[2];
        self.s[0] ^= self.s[3];
        self.s[2] ^= t;
        self.s[3] = self.s[3].rotate_left(45);
        r
    }
    pub fn u128(&mut self) -> u128 {
        ((self.u64() as u128) << 64) | self.u64() as u128
    }
    /// uniform in [0, n)
    pub fn below(&mut self, n: u64) -> u64 {
        if n == 0 {
            return 0;
        }
        self.u64() % n
    }
    pub fn range(&mut self, lo: u64, hi_incl: u64) -> u64 {
        lo + self.below(hi_incl - lo + 1)
    }
    pub fn chance(&mut self, num: u64, den: u64) -> bool {
        self.below(den) < num
    }
    pub fn pick<'a, T>(&mut self, xs: &'a [T]) -> &'a T {
        &xs[self.below(xs.len() as u64) as usize]
    }
    pub fn bytes(&mut self, n: usize) -> Vec<u8> {
        (0..n).map(|_| self.u64() as u8).collect()
    }
    pub fn fork(&mut self) -> Rng {
        Rng::new(self.u64())
    }
}

// ------------------------------------------------------------------------------------ Prop
#[derive(Copy, Clone, PartialEq, Eq, Debug)]
pub enum Tier {
    Quick,
    Thorough,
}

/// Result of executing one op line against the implementation.
#[derive(Default, Clone)]
pub struct Outcome {
    /// canonical output, compared with the model's output for the same line
    pub out: String,
    /// failures of the property itself as judged by the harness's independent oracle:
    /// (site, detail). `site` identifies the call site / input class (matched against
    /// known_findings.json), `detail` is free text.
    pub fails: Vec<(String, String)>,
}

impl Outcome {
    pub fn ok(out: impl Into<String>) -> Self {
        Outcome { out: out.into(), fails: vec![] }
    }
    pub fn fail(mut self, site: impl Into<String>, detail: impl Into<String>) -> Self {
        self.fails.push((site.into(), detail.into()));
        self
    }
}

pub trait Prop {
    fn id(&self) -> &'static str;
    /// emit op lines (without the property prefix)
    fn gen(&self, rng: &mut Rng, tier: Tier, n: usize, emit: &mut dyn FnMut(String));
    /// execute one op line against the real crates
    fn exec(&self, line: &str) -> Outcome;
    /// per-case timeout
    fn timeout_ms(&self) -> u64 {
        10_000
    }
    /// is the case non-trivial (counts towards distinct_nontrivial)
    fn nontrivial(&self, _line: &str, _out: &str) -> bool {
        true
    }
    /// histogram class of a case (input distribution in the evidence)
    fn class(&self, line: &str, out: &str) -> String {
        let op: Vec<&str> = line.split(' ').take(2).collect();
        let o = if out.starts_with("panic") || out.starts_with("err") || out == "hang" || out == "abort" {
            out.split(|c| c == ' ' || c == ':').next().unwrap_or("")
        } else {
            "ok"
        };
        format!("{}:{}", op.join("."), o)
    }
    fn rule(&self) -> &'static str;
    /// a panic in exec() is by default a property failure only where the property says so;
    /// `panic_is_failure` returns the site name to report, or None when a panic is an
    /// acceptable documented outcome for this op line.
    fn panic_site(&self, _line: &str) -> Option<String> {
        None
    }
    /// number of worker processes
    fn workers(&self) -> usize {
        16
    }
    /// address-space cap of a worker in bytes (0 = none)
    fn mem_cap(&self) -> u64 {
        0
    }
    /// number of automatically derived histories `A ;; B` (both orders) appended to the generated cases: pairs of
    /// generated lines that differ in exactly one token, executed back to back in one process, so that state
    /// surviving between calls (a cache keyed by too few parameters, a static, a thread-local) shows as a
    /// difference from the model, which evaluates every op on its own; 0 switches them off
    fn auto_histories(&self, tier: Tier) -> usize {
        if tier == Tier::Quick {
            300
        } else {
            1500
        }
    }
}

/// see `Prop::auto_histories`
fn add_auto_histories(prop: &dyn Prop, rng: &mut Rng, tier: Tier, lines: &mut Vec<String>) {
    let want = prop.auto_histories(tier);
    if want == 0 {
        return;
    }
    let mut buckets: std::collections::HashMap<u64, Vec<u32>> = std::collections::HashMap::new();
    let step = (lines.len() / 150_000).max(1);
    for i in (0..lines.len()).step_by(step) {
        let l = &lines[i];
        if l.len() > 1500 || l.contains(" ;; ") {
            continue;
        }
        let toks: Vec<&str> = l.split(' ').collect();
        if toks.len() < 2 || toks.len() > 40 {
            continue;
        }
        for k in 0..toks.len() {
            let mut h: u64 = 0xcbf29ce484222325 ^ (k as u64).wrapping_mul(0x9E3779B97F4A7C15);
            for (j, t) in toks.iter().enumerate() {
                let t = if j == k { "\u{1}" } else { t };
                for b in t.bytes().chain(std::iter::once(0u8)) {
                    h = (h ^ b as u64).wrapping_mul(0x100000001b3);
                }
            }
            buckets.entry(h).or_default().push(i as u32);
        }
    }
    let mut keys: Vec<u64> = buckets.iter().filter(|(_, v)| v.len() >= 2).map(|(k, _)| *k).collect();
    keys.sort_unstable();
    if keys.is_empty() {
        return;
    }
    let mut out = vec![];
    for _ in 0..want * 6 {
        if out.len() >= 2 * want {
            break;
        }
        let v = &buckets[&keys[rng.below(keys.len() as u64) as usize]];
        let a = v[rng.below(v.len() as u64) as usize] as usize;
        let b = v[rng.below(v.len() as u64) as usize] as usize;
        if lines[a] == lines[b] {
            continue;
        }
        out.push(format!("{} ;; {}", lines[a], lines[b]));
        out.push(format!("{} ;; {}", lines[b], lines[a]));
    }
    lines.extend(out);
}

pub fn default_n(tier: Tier, quick: usize, thorough: usize, n: usize) -> usize {
    if n != 0 {
        n
    } else if tier == Tier::Quick {
        quick
    } else {
        thorough
    }
}

// ------------------------------------------------------------------------------------ helpers
pub fn hex(bytes: &[u8]) -> String {
    let mut s = String::with_capacity(bytes.len() * 2);
    for b in bytes {
        s.push_str(&format!("{:02x}", b));
    }
    if s.is_empty() {
        s.push('-');
    }
    s
}

pub fn unhex(s: &str) -> Vec<u8> {
    if s == "-" {
        return vec![];
    }
    (0..s.len() / 2).map(|i| u8::from_str_radix(&s[2 * i..2 * i + 2], 16).unwrap()).collect()
}

pub fn json_str(s: &str) -> String {
    let mut o = String::from("\"");
    for c in s.chars() {
        match c {
            '"' => o.push_str("\\\""),
            '\\' => o.push_str("\\\\"),
            '\n' => o.push_str("\\n"),
            '\t' => o.push_str("\\t"),
            c if (c as u32) < 0x20 => o.push_str(&format!("\\u{:04x}", c as u32)),
            c => o.push(c),
        }
    }
    o.push('"');
    o
}

fn fnv(s: &str) -> u64 {
    let mut h = 0xcbf29ce484222325u64;
    for b in s.as_bytes() {
        h ^= *b as u64;
        h = h.wrapping_mul(0x100000001b3);
    }
    h
}

thread_local! {
    static LAST_PANIC: std::cell::RefCell<String> = std::cell::RefCell::new(String::new());
}

pub fn install_quiet_panic_hook() {
    panic::set_hook(Box::new(|info| {
        let loc = info.location().map(|l| format!("{}:{}", l.file(), l.line())).unwrap_or_default();
        let msg = if let Some(s) = info.payload().downcast_ref::<&str>() {
            s.to_string()
        } else if let Some(s) = info.payload().downcast_ref::<String>() {
            s.clone()
        } else {
            String::new()
        };
        LAST_PANIC.with(|p| *p.borrow_mut() = format!("{} {}", loc, msg.replace(['\n', '\t'], " ")));
    }));
}

/// run `f` under catch_unwind; a panic yields `Err(location + message)`
pub fn guarded<T>(f: impl FnOnce() -> T) -> Result<T, String> {
    match panic::catch_unwind(AssertUnwindSafe(f)) {
        Ok(v) => Ok(v),
        Err(_) => Err(LAST_PANIC.with(|p| p.borrow().clone())),
    }
}

/// `a ;; b ;; c` = a history: the op lines a, b, c are executed back to back in this process (the outputs
/// joined by ` ;; `), so that state surviving between calls (caches, statics, thread-locals) shows as a
/// difference from the model, which evaluates every op on its own
fn exec_guarded(prop: &dyn Prop, line: &str) -> Outcome {
    let line = strip_prefix(prop, line);
    if line.contains(" ;; ") {
        let mut outs = vec![];
        let mut all = Outcome::ok("");
        for part in line.split(" ;; ") {
            let o = exec_one(prop, part);
            outs.push(o.out.clone());
            all.fails.extend(o.fails);
        }
        all.out = if outs.iter().any(|o| o == "-") { "-".to_string() } else { outs.join(" ;; ") };
        return all;
    }
    exec_one(prop, line)
}

fn exec_one(prop: &dyn Prop, line: &str) -> Outcome {
    match guarded(|| prop.exec(line)) {
        Ok(o) => o,
        Err(info) => {
            let mut o = Outcome::ok("panic");
            if let Some(site) = prop.panic_site(line) {
                o.fails.push((site, format!("panic at {}", info)));
            }
            o.fails.push(("#info".into(), info));
            o
        },
    }
}

// ------------------------------------------------------------------------------------ worker
extern "C" {
    fn setrlimit(resource: i32, rlim: *const [u64; 2]) -> i32;
}

pub fn cmd_worker(prop: &dyn Prop, args: &[String]) {
    // lines start, start+step, start+2*step, ... below end (interleaved assignment balances
    // generators that emit their expensive cases last)
    let ops = &args[0];
    let start: usize = args[1].parse().unwrap();
    let end: usize = args[2].parse().unwrap();
    let out = &args[3];
    let step: usize = args.get(4).and_then(|s| s.parse().ok()).unwrap_or(1).max(1);
    if prop.mem_cap() > 0 {
        let lim = [prop.mem_cap(), prop.mem_cap()];
        unsafe {
            setrlimit(9 /* RLIMIT_AS */, &lim);
        }
    }
    install_quiet_panic_hook();
    let f = BufReader::new(fs::File::open(ops).expect("ops file"));
    let mut w = fs::OpenOptions::new().create(true).append(true).open(out).expect("out file");
    for (i, line) in f.lines().enumerate() {
        if i < start || (i - start) % step != 0 {
            continue;
        }
        if i >= end {
            break;
        }
        let line = line.unwrap();
        // progress marker first, so that the supervisor knows which case was running
        writeln!(w, "B\t{}", i).unwrap();
        w.flush().unwrap();
        let o = exec_guarded(prop, &line);
        let fails: Vec<String> = o.fails.iter().map(|(s, d)| format!("{}\x1f{}", s, d.replace(['\n', '\t'], " "))).collect();
        writeln!(w, "R\t{}\t{}\t{}", i, o.out.replace(['\n', '\t'], " "), fails.join("\x1e")).unwrap();
        w.flush().unwrap();
    }
    writeln!(w, "E").unwrap();
}

struct Slot {
    child: Child,
    file: PathBuf,
    next: usize, // next line index this slot will start at if restarted
    end: usize,
    last_progress: Instant,
    seen_bytes: u64,
    cur: Option<usize>,
    cur_since: Instant,
}

/// bytes of `path` from offset `from` to its current end
fn read_from(path: &Path, from: u64) -> Vec<u8> {
    use std::io::{Read, Seek, SeekFrom};
    let mut v = Vec::new();
    if let Ok(mut f) = fs::File::open(path) {
        if f.seek(SeekFrom::Start(from)).is_ok() {
            let _ = f.read_to_end(&mut v);
        }
    }
    v
}

fn spawn_worker(exe: &Path, pid: &str, ops: &Path, start: usize, end: usize, file: &Path, step: usize) -> Child {
    let _ = pid;
    Command::new(exe)
        .arg("worker")
        .arg(ops)
        .arg(start.to_string())
        .arg(end.to_string())
        .arg(file)
        .arg(step.to_string())
        .stdin(Stdio::null())
        .stdout(Stdio::null())
        .stderr(Stdio::null())
        .spawn()
        .expect("spawn worker")
}

/// Execute all lines of `ops` with worker processes; returns per-line (out, fails).
/// the per-case time limit is stretched when the machine is oversubscribed (several checks running side by
/// side): 1-minute load average over the number of CPUs, rounded up, at least 1
fn load_factor() -> u32 {
    let load = fs::read_to_string("/proc/loadavg")
        .ok()
        .and_then(|t| t.split(' ').next().and_then(|x| x.parse::<f64>().ok()))
        .unwrap_or(0.0);
    let cpus = std::thread::available_parallelism().map(|n| n.get()).unwrap_or(1) as f64;
    (load / cpus).ceil().max(1.0) as u32
}

pub fn supervise(prop: &dyn Prop, ops: &Path, nlines: usize, dir: &Path) -> Vec<(String, Vec<(String, String)>)> {
    let exe = std::env::current_exe().unwrap();
    // a history of k ops gets k times the per-case time limit
    let mults: Vec<u32> = fs::read_to_string(ops)
        .map(|t| t.lines().map(|l| 1 + l.matches(" ;; ").count() as u32).collect())
        .unwrap_or_default();
    let nw = prop.workers().max(1).min(nlines.max(1));
    let mut results: Vec<Option<(String, Vec<(String, String)>)>> = vec![None; nlines];
    let mut slots: Vec<Slot> = Vec::new();
    for k in 0..nw {
        let start = k;
        let end = nlines;
        if start >= end {
            continue;
        }
        let file = dir.join(format!("worker{}.out", k));
        let _ = fs::remove_file(&file);
        let child = spawn_worker(&exe, prop.id(), ops, start, end, &file, nw);
        slots.push(Slot {
            child,
            file,
            next: start,
            end,
            last_progress: Instant::now(),
            seen_bytes: 0,
            cur: None,
            cur_since: Instant::now(),
        });
    }
    let timeout = Duration::from_millis(prop.timeout_ms());
    let mut live = slots.len();
    let mut done = vec![false; slots.len()];
    while live > 0 {
        std::thread::sleep(Duration::from_millis(20));
        for (si, s) in slots.iter_mut().enumerate() {
            if done[si] {
                continue;
            }
            // read new complete lines
            let data = read_from(&s.file, s.seen_bytes);
            let mut finished = false;
            if !data.is_empty() {
                let new = &data[..];
                // only consume up to last newline
                if let Some(last_nl) = new.iter().rposition(|b| *b == b'\n') {
                    let text = String::from_utf8_lossy(&new[..=last_nl]).to_string();
                    s.seen_bytes += (last_nl + 1) as u64;
                    for l in text.lines() {
                        let parts: Vec<&str> = l.split('\t').collect();
                        match parts[0] {
                            "B" => {
                                s.cur = Some(parts[1].parse().unwrap());
                                s.cur_since = Instant::now();
                            },
                            "R" => {
                                let i: usize = parts[1].parse().unwrap();
                                let fails = if parts.len() > 3 && !parts[3].is_empty() {
                                    parts[3]
                                        .split('\x1e')
                                        .map(|f| {
                                            let mut it = f.splitn(2, '\x1f');
                                            (it.next().unwrap_or("").to_string(), it.next().unwrap_or("").to_string())
                                        })
                                        .collect()
                                } else {
                                    vec![]
                                };
                                results[i] = Some((parts.get(2).unwrap_or(&"").to_string(), fails));
                                s.next = i + nw;
                                s.cur = None;
                            },
                            "E" => finished = true,
                            _ => {},
                        }
                    }
                    s.last_progress = Instant::now();
                }
            }
            let exited = s.child.try_wait().ok().flatten();
            if finished {
                let _ = s.child.wait();
                done[si] = true;
                live -= 1;
                continue;
            }
            let mut restart_reason: Option<&str> = None;
            if let Some(st) = exited {
                // exited without "E": abort in the current case. Re-read the file once
                // more in the next iteration if there is unread data.
                let data2 = read_from(&s.file, s.seen_bytes);
                if data2.contains(&b'\n') {
                    continue;
                }
                let _ = st;
                restart_reason = Some("abort");
            } else if s.cur.is_some()
                && s.cur_since.elapsed() > timeout * mults.get(s.cur.unwrap_or(0)).copied().unwrap_or(1) * load_factor()
            {
                let _ = s.child.kill();
                let _ = s.child.wait();
                restart_reason = Some("hang");
            }
            if let Some(reason) = restart_reason {
                let i = s.cur.unwrap_or(s.next);
                if i < s.end && results[i].is_none() {
                    let mut fails = vec![];
                    fails.push((format!("#{}", reason), String::new()));
                    results[i] = Some((reason.to_string(), fails));
                }
                s.next = i + nw;
                s.cur = None;
                if s.next >= s.end {
                    done[si] = true;
                    live -= 1;
                } else {
                    s.child = spawn_worker(&exe, prop.id(), ops, s.next, s.end, &s.file, nw);
                    s.cur_since = Instant::now();
                }
            }
        }
    }
    for s in &slots {
        let _ = fs::remove_file(&s.file);
    }
    results.into_iter().map(|r| r.unwrap_or_else(|| ("missing".into(), vec![]))).collect()
}

// ------------------------------------------------------------------------------------ commands
fn arg_val<'a>(args: &'a [String], name: &str) -> Option<&'a str> {
    args.iter().position(|a| a == name).and_then(|i| args.get(i + 1)).map(|s| s.as_str())
}

fn finish(prop: &dyn Prop, lines: &[String], dir: &Path, tier: &str, seed: u64, t0: Instant) {
    let ops_path = dir.join("ops.txt");
    {
        let mut f = fs::File::create(&ops_path).unwrap();
        for l in lines {
            writeln!(f, "{} {}", prop.id(), l).unwrap();
        }
    }
    // the worker reads lines including the property prefix and strips it before exec
    let res = supervise(prop, &ops_path, lines.len(), dir);
    let mut impl_out = fs::File::create(dir.join("impl.out")).unwrap();
    let mut fails_out = fs::File::create(dir.join("fails.txt")).unwrap();
    let mut classes: BTreeMap<String, usize> = BTreeMap::new();
    let mut distinct: HashSet<u64> = HashSet::new();
    let mut nontrivial = 0usize;
    let mut nfail = 0usize;
    let mut samples: Vec<String> = vec![];
    for (i, (l, (out, fails))) in lines.iter().zip(res.iter()).enumerate() {
        writeln!(impl_out, "{}", out).unwrap();
        *classes.entry(prop.class(l, out)).or_insert(0) += 1;
        if distinct.insert(fnv(l)) && prop.nontrivial(l, out) {
            nontrivial += 1;
        }
        for (site, detail) in fails {
            if site == "#info" {
                continue;
            }
            let site2 = if site == "#hang" || site == "#abort" {
                format!("{}:{}", l.split(' ').take(2).collect::<Vec<_>>().join("."), &site[1..])
            } else {
                site.clone()
            };
            writeln!(fails_out, "{}\t{}\t{} {}\t{}\t{}", i, site2, prop.id(), l, out, detail).unwrap();
            nfail += 1;
        }
        if samples.len() < 8 && (i % (lines.len() / 8 + 1) == 0) {
            samples.push(format!("{} {} => {}", prop.id(), l, out));
        }
    }
    let mut rep = String::from("{");
    rep.push_str(&format!("\"property\":{},", json_str(prop.id())));
    rep.push_str(&format!("\"tier\":{},\"seed\":{},", json_str(tier), seed));
    rep.push_str(&format!("\"evaluations\":{},\"distinct_nontrivial\":{},", lines.len(), nontrivial));
    rep.push_str(&format!("\"oracle_failures\":{},", nfail));
    rep.push_str(&format!("\"rule\":{},", json_str(prop.rule())));
    rep.push_str("\"distribution\":{");
    rep.push_str(&classes.iter().map(|(k, v)| format!("{}:{}", json_str(k), v)).collect::<Vec<_>>().join(","));
    rep.push_str("},\"samples\":[");
    rep.push_str(&samples.iter().map(|s| json_str(&s.chars().take(400).collect::<String>())).collect::<Vec<_>>().join(","));
    rep.push_str(&format!("],\"harness_wall_s\":{:.2}}}", t0.elapsed().as_secs_f64()));
    fs::write(dir.join("report.json"), rep).unwrap();
}


pub fn strip_prefix<'a>(prop: &dyn Prop, line: &'a str) -> &'a str {
    let p = prop.id();
    if line.starts_with(p) && line.as_bytes().get(p.len()) == Some(&b' ') {
        &line[p.len() + 1..]
    } else {
        line
    }
}

pub fn cmd_run(prop: &dyn Prop, args: &[String]) {
    let t0 = Instant::now();
    let tier_s = arg_val(args, "--tier").unwrap_or("quick");
    let tier = if tier_s == "thorough" { Tier::Thorough } else { Tier::Quick };
    let seed: u64 = arg_val(args, "--seed").and_then(|s| s.parse().ok()).unwrap_or(1);
    let n: usize = arg_val(args, "--n").and_then(|s| s.parse().ok()).unwrap_or(0);
    let dir = PathBuf::from(arg_val(args, "--out").expect("--out DIR"));
    fs::create_dir_all(&dir).unwrap();
    let mut rng = Rng::new(seed ^ fnv(prop.id()));
    let mut lines: Vec<String> = vec![];
    // corpus first
    if let Some(c) = arg_val(args, "--corpus") {
        if let Ok(rd) = fs::read_dir(c) {
            let mut files: Vec<_> = rd.filter_map(|e| e.ok()).map(|e| e.path()).collect();
            files.sort();
            for f in files {
                if let Ok(t) = fs::read_to_string(&f) {
                    for l in t.lines() {
                        let l = l.trim();
                        if !l.is_empty() && !l.starts_with('#') {
                            lines.push(strip_prefix(prop, l).to_string());
                        }
                    }
                }
            }
        }
    }
    install_quiet_panic_hook();
    prop.gen(&mut rng, tier, n, &mut |l| lines.push(l));
    add_auto_histories(prop, &mut rng, tier, &mut lines);
    finish(prop, &lines, &dir, tier_s, seed, t0);
}

pub fn cmd_replay(prop: &dyn Prop, args: &[String]) {
    let t0 = Instant::now();
    let file = &args[0];
    let dir = PathBuf::from(arg_val(args, "--out").expect("--out DIR"));
    fs::create_dir_all(&dir).unwrap();
    let text = fs::read_to_string(file).expect("replay ops file");
    let lines: Vec<String> = text
        .lines()
        .map(|l| l.trim())
        .filter(|l| !l.is_empty() && !l.starts_with('#'))
        .map(|l| strip_prefix(prop, l).to_string())
        .collect();
    finish(prop, &lines, &dir, "quick", 0, t0);
}

/// entry point of a property binary
pub fn main_for(prop: &dyn Prop) {
    let args: Vec<String> = std::env::args().collect();
    if args.len() < 2 {
        eprintln!("usage: {} run|replay|worker ...", args[0]);
        std::process::exit(2);
    }
    match args[1].as_str() {
        "run" => cmd_run(prop, &args[2..]),
        "replay" => cmd_replay(prop, &args[2..]),
        "worker" => cmd_worker(prop, &args[2..]),
        _ => {
            eprintln!("unknown command {}", args[1]);
            std::process::exit(2);
        },
    }
}
