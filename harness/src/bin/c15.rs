//! C15: FRI completeness and the folding identity.
//! Op lines mirror lean/Winter/Drv/C15.lean:
//!   drp   <fld> <N> <logn> <alpha> <coeffs>          apply_drp on the evaluations of a polynomial
//!   pos   <n> <N> <parts> <positions>                fold_positions + map_positions_to_indexes
//!   nl    <blowup> <N> <remdeg> <domain>             num_fri_layers
//!   prove <fld> <hasher> <N> <remdeg> <logb> <logn> <alphas> <coeffs> <positions>
//!                                                    FriProver with scripted α's, proof contents, FriVerifier
//!   e2e   <fld> <hasher> <N> <remdeg> <logb> <logT> <nq> <polykind> <qkind> <seed>
//!                                                    FriProver/FriVerifier with the default channels and coin
//!                                                    (not modelled: the α's depend on the hash function)
//! Oracles (independent of the repository's code, wf_harness::oracle arithmetic): coefficient-domain folding
//! (interleaved coefficient slices combined with powers of α, Horner at the folded domain points),
//! order-preserving de-duplication of p mod m, the layer-count loop, "degree ≤ bound ⇒ accepted".
#![allow(dead_code, unused_variables, unused_imports, unused_mut)]
#[path = "../fri_common.rs"]
mod fri_common;
use fri_common::*;
use wf_harness::core::*;
use wf_harness::fields::*;
use wf_harness::oracle::*;
use winter_crypto::{DefaultRandomCoin, ElementHasher, Hasher, RandomCoin};
use winter_fri::{
    folding::{apply_drp, fold_positions},
    utils::map_positions_to_indexes,
    DefaultProverChannel, FriOptions, FriProof, FriProver,
};
use winter_math::{fft, get_power_series_with_offset, polynom, FieldElement, StarkField};
use winter_utils::{transpose_slice, Deserializable, Serializable};

pub struct P;

pub const REMDEGS: [usize; 9] = [0, 1, 3, 7, 15, 31, 63, 127, 255];

/// number of remainder coefficients the honest prover ends with (0 = the folding overshoots: no FRI proof
/// exists for this configuration)
fn remainder_len(t: usize, blowup: usize, folding: usize, remdeg: usize) -> usize {
    let mut d = t * blowup;
    while d > (remdeg + 1) * blowup {
        d /= folding;
    }
    d / blowup
}

// ------------------------------------------------------------------------------------ drp
struct Drp<'a> {
    n: usize,
    logn: u32,
    alpha: &'a str,
    coeffs: &'a str,
}

fn drp_n<B: Fld, E: El<B>, const N: usize>(evals: &[E], alpha: E) -> Vec<E> {
    let t = transpose_slice::<E, N>(evals);
    apply_drp::<B, E, N>(&t, B::GENERATOR, alpha)
}

impl<'a> Job for Drp<'a> {
    fn run<B: Fld, E: El<B>, H: ElementHasher<BaseField = B> + 'static>(&self, of: OF) -> Outcome {
        let (alpha, coeffs) = match (of.parse(self.alpha), of.parse_list(self.coeffs)) {
            (Some(a), Some(c)) => (a, c),
            _ => return Outcome::ok("bad-op"),
        };
        let n = 1usize << self.logn;
        let dom = of.domain(n);
        let evals_o: Vec<O> = dom.iter().map(|x| of.horner(&coeffs, *x)).collect();
        let evals: Vec<E> = to_els::<B, E>(&evals_o);
        let a = E::from_o(alpha);
        let out = match self.n {
            2 => drp_n::<B, E, 2>(&evals, a),
            4 => drp_n::<B, E, 4>(&evals, a),
            8 => drp_n::<B, E, 8>(&evals, a),
            16 => drp_n::<B, E, 16>(&evals, a),
            _ => return Outcome::ok("bad-op"),
        };
        let out_o = to_os::<B, E>(&out);
        let mut o = Outcome::ok(of.print_list(&out_o));
        // reference: fold in the coefficient domain, evaluate at the folded domain points x^N
        let folded = of.fold_coeffs(&coeffs, alpha, self.n);
        let m = n / self.n;
        if out_o.len() != m {
            return o.fail("fri.apply_drp.len", format!("{} values for a folded domain of {}", out_o.len(), m));
        }
        for i in 0..m {
            let x = of.pow(dom[i], self.n as u128);
            let e = of.horner(&folded, x);
            if e != out_o[i] {
                o = o.fail(
                    "fri.apply_drp.value",
                    format!("position {}: got {} expected {}", i, of.print(out_o[i]), of.print(e)),
                );
                break;
            }
        }
        o
    }
}

// ------------------------------------------------------------------------------------ prove (scripted α)
struct Prove<'a> {
    n: usize,
    remdeg: usize,
    logb: u32,
    logn: u32,
    alphas: &'a str,
    coeffs: &'a str,
    positions: &'a str,
}

impl<'a> Job for Prove<'a> {
    fn run<B: Fld, E: El<B>, H: ElementHasher<BaseField = B> + 'static>(&self, of: OF) -> Outcome {
        let (alphas, coeffs, positions) =
            match (of.parse_list(self.alphas), of.parse_list(self.coeffs), parse_usizes(self.positions)) {
                (Some(a), Some(c), Some(p)) => (a, c, p),
                _ => return Outcome::ok("bad-op"),
            };
        let folding = self.n;
        let n = 1usize << self.logn;
        let blowup = 1usize << self.logb;
        let options = FriOptions::new(blowup, folding, self.remdeg);
        let dom = of.domain(n);
        let evals_o: Vec<O> = dom.iter().map(|x| of.horner(&coeffs, *x)).collect();
        let evals: Vec<E> = to_els::<B, E>(&evals_o);
        let al: Vec<E> = to_els::<B, E>(&alphas);

        let mut prover = FriProver::<B, E, ScriptChannel<E, H>, H>::new(options.clone());
        let mut channel = ScriptChannel::<E, H>::new(al.clone());
        prover.build_layers(&mut channel, evals.clone());
        let proof = prover.build_proof(&positions);
        let reuse_state = prover.num_layers() == 0;
        // the same request once more on the same prover instance
        let mut channel2 = ScriptChannel::<E, H>::new(al.clone());
        prover.build_layers(&mut channel2, evals.clone());
        let proof2 = prover.build_proof(&positions);
        // an abandoned request (build_layers without build_proof), reset(), then the request again
        let mut channel3 = ScriptChannel::<E, H>::new(al.clone());
        prover.build_layers(&mut channel3, evals.clone());
        prover.reset();
        let reset_state = prover.num_layers() == 0;
        let mut channel4 = ScriptChannel::<E, H>::new(al.clone());
        prover.build_layers(&mut channel4, evals.clone());
        let proof4 = prover.build_proof(&positions);
        // serialization round trip
        let bytes = proof.to_bytes();
        let proof3 = FriProof::read_from_bytes(&bytes);

        let (layer_queries, _) = match proof.clone().parse_layers::<H, E>(n, folding) {
            Ok(x) => x,
            Err(_) => return Outcome::ok("err:Deserialization").fail("fri.prove.parse", "own proof does not parse"),
        };
        let rem: Vec<E> = match proof.parse_remainder::<E>() {
            Ok(x) => x,
            Err(_) => return Outcome::ok("err:Deserialization").fail("fri.prove.parse", "own remainder does not parse"),
        };
        let rows: Vec<Vec<Vec<O>>> = layer_queries
            .iter()
            .map(|flat| flat.chunks(folding).map(|c| to_os::<B, E>(c)).collect())
            .collect();
        let rem_o = to_os::<B, E>(&rem);

        let max_degree = n / blowup - 1;
        let qevals: Vec<E> = positions.iter().filter_map(|p| evals.get(*p).copied()).collect();
        let mut coin = ScriptCoin::<B, H>::of::<E>(&al);
        let v1 = verify_with::<B, E, H, _>(
            proof.clone(),
            channel.commitments.clone(),
            &mut coin,
            &options,
            max_degree,
            n,
            &positions,
            &qevals,
        );
        let body = if rows.is_empty() {
            "-".to_string()
        } else {
            rows.iter().map(|l| of.print_rows(l)).collect::<Vec<_>>().join("|")
        };
        let mut o = Outcome::ok(format!(
            "rem={} layers={} v={} reuse={}",
            of.print_list(&rem_o),
            body,
            v1,
            if reuse_state { 1 } else { 0 }
        ));

        // ---- oracle
        if proof4 != proof || channel4.commitments != channel.commitments || !reset_state {
            o = o.fail("fri.prover.reuse", "proof after an abandoned request and reset() differs from the first");
        }
        if proof2 != proof || channel2.commitments != channel.commitments {
            o = o.fail("fri.prover.reuse", "second proof on the same prover instance differs from the first");
        }
        match proof3 {
            Ok(p3) => {
                if p3 != proof {
                    o = o.fail("fri.proof.roundtrip", "read_from_bytes(to_bytes(proof)) != proof");
                }
                let mut coin = ScriptCoin::<B, H>::of::<E>(&al);
                let v3 = verify_with::<B, E, H, _>(
                    p3,
                    channel.commitments.clone(),
                    &mut coin,
                    &options,
                    max_degree,
                    n,
                    &positions,
                    &qevals,
                );
                if v3 != v1 {
                    o = o.fail("fri.proof.roundtrip", format!("verdict {} after serialization, {} before", v3, v1));
                }
            },
            Err(_) => o = o.fail("fri.proof.roundtrip", "serialized proof does not deserialize"),
        }
        // layers in the coefficient domain
        let num_layers = ref_num_layers(blowup, folding, self.remdeg, n);
        let mut h = coeffs.clone();
        let mut ps = positions.clone();
        let mut nd = n;
        if rows.len() != num_layers {
            o = o.fail("fri.prove.layers", format!("{} layers, expected {}", rows.len(), num_layers));
        }
        for d in 0..num_layers.min(rows.len()) {
            let m = nd / folding;
            ps = ref_fold_positions(&ps, m);
            let domd = of.domain(nd);
            if rows[d].len() != ps.len() {
                o = o.fail("fri.prove.layout", format!("layer {}: {} rows for {} folded positions", d, rows[d].len(), ps.len()));
            } else {
                'rows: for (row, p) in rows[d].iter().zip(ps.iter()) {
                    for j in 0..folding {
                        let e = of.horner(&h, domd[p + j * m]);
                        if row.get(j) != Some(&e) {
                            o = o.fail(
                                "fri.prove.layout",
                                format!("layer {} row of position {} column {} is not the layer polynomial at position {}", d, p, j, p + j * m),
                            );
                            break 'rows;
                        }
                    }
                }
            }
            h = of.fold_layer_coeffs(&h, alphas[d], folding);
            nd = m;
        }
        if rows.len() == num_layers {
            let want = nd / blowup;
            let mut exp: Vec<O> = h.iter().cloned().take(want).collect();
            exp.resize(want, of.zero());
            if exp != rem_o {
                o = o.fail("fri.prove.remainder", "remainder is not the iterated coefficient-domain folding of the polynomial");
            }
            if rem_o.len() > self.remdeg + 1 {
                o = o.fail("fri.prove.remainder-size", format!("{} remainder coefficients, max degree {}", rem_o.len(), self.remdeg));
            }
        }
        // completeness
        let deg_ok = coeffs.len() <= n / blowup || coeffs[n / blowup..].iter().all(|c| *c == of.zero());
        if deg_ok && v1 != "ok" {
            o = o.fail("fri.prove.rejected", format!("honest proof for a polynomial within the degree bound: {}", v1));
        }
        o
    }
}

// ------------------------------------------------------------------------------------ e2e (default channels)
struct E2e<'a> {
    n: usize,
    remdeg: usize,
    logb: u32,
    logt: u32,
    nq: usize,
    polykind: &'a str,
    qkind: &'a str,
    seed: u64,
}

pub fn gen_poly(of: &OF, kind: &str, t: usize, rng: &mut Rng) -> Vec<O> {
    let mut c = vec![of.zero(); t];
    match kind {
        "zero" => {},
        "const" => c[0] = of.rand(rng),
        "mono" => c[t - 1] = of.one(),
        "low" => {
            let d = rng.below(t as u64) as usize;
            for x in c.iter_mut().take(d + 1) {
                *x = of.rand(rng);
            }
        },
        _ => {
            // "full": degree exactly the bound
            for x in c.iter_mut() {
                *x = of.rand(rng);
            }
            if c[t - 1] == of.zero() {
                c[t - 1] = of.one();
            }
        },
    }
    c
}

pub fn gen_positions(kind: &str, n: usize, folding: usize, nq: usize, rng: &mut Rng) -> Vec<usize> {
    let nq = nq.max(1);
    match kind {
        "dups" => {
            let pool = (nq / 2).max(1).min(n) as u64;
            let base = rng.below(n as u64) as usize;
            (0..nq).map(|_| (base + rng.below(pool) as usize) % n).collect()
        },
        "collide" => {
            // positions that collide after 1, 2, … foldings
            let mut v = vec![];
            let mut step = n / folding;
            let p = rng.below(n as u64) as usize;
            while v.len() < nq {
                if step == 0 {
                    v.push(rng.below(n as u64) as usize);
                    continue;
                }
                for k in 0..folding {
                    if v.len() < nq {
                        v.push((p + k * step) % n);
                    }
                }
                step /= folding;
            }
            v
        },
        "same" => {
            let p = rng.below(n as u64) as usize;
            vec![p; nq]
        },
        "row" => {
            let p = rng.below((n / folding) as u64) as usize;
            (0..folding).map(|j| p + j * (n / folding)).collect()
        },
        // nq positions whose folded positions are pairwise distinct (nq ≤ n/folding), spread over all columns
        "spread" => {
            let m = n / folding;
            let base = rng.below(m as u64) as usize;
            (0..nq).map(|i| (base + i) % m + (i % folding) * m).collect()
        },
        // nq evenly spaced positions: Merkle paths that share as little as possible
        "sparse" => {
            let step = (n / nq).max(1);
            let base = rng.below(step as u64) as usize;
            (0..nq).map(|i| (base + i * step) % n).collect()
        },
        "one" => vec![rng.below(n as u64) as usize],
        "edge" => vec![0, n - 1, n / 2, n / 2 - 1, 0, n - 1],
        _ => (0..nq).map(|_| rng.below(n as u64) as usize).collect(),
    }
}

/// evaluations of a polynomial over the coset offset·<g>, by Horner when small (field arithmetic only),
/// by the repository's FFT otherwise
pub fn evaluate<B: Fld, E: El<B>>(coeffs: &[E], blowup: usize) -> Vec<E> {
    let t = coeffs.len();
    let n = t * blowup;
    if n * t <= (1 << 16) || t < 4 {
        let g = B::get_root_of_unity(n.trailing_zeros());
        let dom = get_power_series_with_offset(g, B::GENERATOR, n);
        dom.iter().map(|x| polynom::eval(coeffs, E::from(*x))).collect()
    } else {
        let twiddles = fft::get_twiddles::<B>(t);
        fft::evaluate_poly_with_offset(coeffs, &twiddles, B::GENERATOR, blowup)
    }
}

impl<'a> Job for E2e<'a> {
    fn run<B: Fld, E: El<B>, H: ElementHasher<BaseField = B> + 'static>(&self, of: OF) -> Outcome {
        let folding = self.n;
        let t = 1usize << self.logt;
        let blowup = 1usize << self.logb;
        let n = t * blowup;
        let options = FriOptions::new(blowup, folding, self.remdeg);
        let mut rng = Rng::new(self.seed);
        let mut prover = FriProver::<B, E, DefaultProverChannel<E, H, DefaultRandomCoin<H>>, H>::new(options.clone());
        let mut verdicts = vec![];
        let mut o = Outcome::default();
        let mut size_note = String::new();
        for round in 0..2 {
            let coeffs = gen_poly(&of, if round == 0 { self.polykind } else { "full" }, t, &mut rng);
            let evals: Vec<E> = evaluate::<B, E>(&to_els::<B, E>(&coeffs), blowup);
            let mut channel = DefaultProverChannel::<E, H, DefaultRandomCoin<H>>::new(n, self.nq);
            prover.build_layers(&mut channel, evals.clone());
            let positions = if self.qkind == "coin" {
                channel.draw_query_positions(0)
            } else {
                gen_positions(self.qkind, n, folding, self.nq, &mut rng)
            };
            let proof = prover.build_proof(&positions);
            if prover.num_layers() != 0 {
                o = o.fail("fri.prover.reuse", "layers not cleared by build_proof");
            }
            let commitments = channel.layer_commitments().to_vec();
            let qevals: Vec<E> = positions.iter().map(|p| evals[*p]).collect();
            let mut coin = DefaultRandomCoin::<H>::new(&[]);
            verdicts.push(verify_with::<B, E, H, _>(proof.clone(), commitments.clone(), &mut coin, &options, t - 1, n, &positions, &qevals));
            if round == 0 {
                let bytes = proof.to_bytes();
                // the LARGE family must really exceed the 16-bit range in a values field and in a paths field
                // sizes of the largest length-prefixed fields, reported (distribution class) for the LARGE family
                if self.qkind == "spread" || self.qkind == "sparse" {
                    if let Some(raw) = split_proof(&bytes) {
                        let maxv = raw.layers.iter().map(|l| l.0.len()).max().unwrap_or(0);
                        let maxp = raw.layers.iter().map(|l| l.1.len()).max().unwrap_or(0);
                        size_note = format!(" vmax={} pmax={}", maxv, maxp);
                    } else {
                        o = o.fail("fri.proof.layout", "serialized proof does not have the documented layout");
                    }
                }
                match FriProof::read_from_bytes(&bytes) {
                    Ok(p2) => {
                        if p2 != proof {
                            o = o.fail("fri.proof.roundtrip", "read_from_bytes(to_bytes(proof)) != proof");
                        }
                        let mut coin = DefaultRandomCoin::<H>::new(&[]);
                        verdicts.push(verify_with::<B, E, H, _>(p2, commitments, &mut coin, &options, t - 1, n, &positions, &qevals));
                    },
                    Err(_) => verdicts.push("err:Deserialization".into()),
                }
            }
        }
        o.out = format!("{}{}", verdicts.join(" "), size_note);
        for (k, v) in verdicts.iter().enumerate() {
            if v != "ok" {
                let what = ["first proof", "proof after serialization", "second proof on the same prover"][k];
                o = o.fail("fri.e2e.rejected", format!("{}: {}", what, v));
            }
        }
        o
    }
}

// ------------------------------------------------------------------------------------ generators
fn rand_els(of: &OF, rng: &mut Rng, k: usize) -> Vec<O> {
    (0..k).map(|_| of.rand(rng)).collect()
}

fn boundary_el(of: &OF, rng: &mut Rng) -> O {
    match rng.below(6) {
        0 => of.zero(),
        1 => of.one(),
        2 => O(of.m - 1, 0),
        3 => O(of.m - 1, if of.ext { of.m - 1 } else { 0 }),
        _ => of.rand(rng),
    }
}

fn gen_drp(rng: &mut Rng, tier: Tier, emit: &mut dyn FnMut(String)) {
    let maxlog = if tier == Tier::Quick { 6 } else { 9 };
    for fld in FIELDS {
        let of = of_for(fld).unwrap();
        for (ln, n) in [(1u32, 2usize), (2, 4), (3, 8), (4, 16)] {
            for logn in ln..=maxlog {
                let size = 1usize << logn;
                let reps = if logn <= 5 { 3 } else { 1 };
                for rep in 0..reps {
                    let k = match (rep + logn as usize) % 5 {
                        0 => size,
                        1 => size / n,
                        2 => 1,
                        3 => size - 1,
                        _ => rng.range(1, size as u64) as usize,
                    };
                    let alpha = boundary_el(&of, rng);
                    let mut c = rand_els(&of, rng, k);
                    if rng.chance(1, 4) {
                        for x in c.iter_mut() {
                            if rng.chance(1, 2) {
                                *x = boundary_el(&of, rng);
                            }
                        }
                    }
                    emit(format!("drp {} {} {} {} {}", fld, n, logn, of.print(alpha), of.print_list(&c)));
                }
            }
            // the zero polynomial and the empty coefficient list
            emit(format!("drp {} {} {} {} -", fld, n, ln + 1, of.print(of.rand(rng))));
        }
    }
}

/// translation validation of the regenerated `num_fri_layers` (Winter/Gen/FriOpts.lean; the driver evaluates the
/// model AND the regenerated definition on every `nl` line): boundary and random operands beyond the protocol's grid
/// (domain sizes that are no powers of two, up to usize::MAX; any remainder degree; blowup 1 .. 2^20)
fn gen_nl_t(rng: &mut Rng, emit: &mut dyn FnMut(String)) {
    let mut ds: Vec<usize> = vec![0, 1, 2, 3, usize::MAX, usize::MAX - 1, 1 << 63, (1 << 63) - 1, (1 << 63) + 1];
    for k in [4u32, 5, 8, 13, 16, 31, 32, 33, 47, 62] {
        ds.extend_from_slice(&[(1usize << k) - 1, 1usize << k, (1usize << k) + 1]);
    }
    for n in [2usize, 4, 8, 16] {
        for d in &ds {
            let r = *rng.pick(&[0usize, 1, 2, 3, 5, 7, 100, 255, 256, 1000, 65535]);
            let b = 1usize << rng.below(21);
            emit(format!("nl {} {} {} {}", b, n, r, d));
        }
        for _ in 0..100 {
            let d = (rng.u64() >> rng.below(64)) as usize;
            let r = (rng.u64() >> rng.range(44, 63)) as usize;
            let b = 1usize << rng.below(21);
            emit(format!("nl {} {} {} {}", b, n, r, d));
            // on and next to the loop bound (r+1)*b
            let m = (r + 1) * b;
            for dd in [m, m + 1, m * n, m * n + 1, m * n * n - 1] {
                emit(format!("nl {} {} {} {}", b, n, r, dd));
            }
        }
    }
}

fn gen_pos(rng: &mut Rng, tier: Tier, emit: &mut dyn FnMut(String)) {
    let reps = if tier == Tier::Quick { 6 } else { 60 };
    for n in [2usize, 4, 8, 16] {
        for logd in 1..=12u32 {
            let d = 1usize << logd;
            for rep in 0..reps {
                let nq = match rep % 3 {
                    0 => rng.range(0, 4),
                    1 => rng.range(1, 40),
                    _ => rng.range(1, 2 * (d as u64).min(64)),
                } as usize;
                let kind = *rng.pick(&["rand", "dups", "collide", "same", "rand"]);
                let ps = if d >= n { gen_positions(kind, d, n, nq, rng) } else { (0..nq).map(|_| rng.below(d as u64) as usize).collect() };
                let ps = if nq == 0 { vec![] } else { ps };
                let parts = *rng.pick(&[1usize, 1, 1, 2, 4, 8]);
                emit(format!("pos {} {} {} {}", d, n, parts, print_usizes(&ps)));
            }
        }
        emit(format!("pos 32 {} 1 1,9,12,20", n));
        emit(format!("pos {} {} 1 -", n, n));
    }
}

fn gen_nl(emit: &mut dyn FnMut(String)) {
    for n in [2usize, 4, 8, 16] {
        for r in REMDEGS {
            for logb in 1..=7u32 {
                for logd in 0..=16u32 {
                    emit(format!("nl {} {} {} {}", 1usize << logb, n, r, 1usize << logd));
                }
            }
            emit(format!("nl 8 {} {} 0", n, r));
            emit(format!("nl 8 {} {} 12345", n, r));
        }
    }
}

fn gen_prove(rng: &mut Rng, tier: Tier, count: usize, emit: &mut dyn FnMut(String)) {
    let maxlogn = if tier == Tier::Quick { 8 } else { 10 };
    let mut k = 0usize;
    while k < count {
        let fld = FIELDS[k % 4];
        let of = of_for(fld).unwrap();
        let hs = hashers_for(fld);
        let hasher = hs[(k / 4) % hs.len()];
        let n = [2usize, 4, 8, 16][(k / 16) % 4];
        let remdeg = *rng.pick(&[0usize, 1, 3, 7, 15]);
        let logb = rng.range(1, 3) as u32;
        let logt = rng.range(1, (maxlogn - logb) as u64) as u32;
        let t = 1usize << logt;
        let blowup = 1usize << logb;
        let overshoot = remainder_len(t, blowup, n, remdeg) == 0;
        // a few configurations for which no proof exists (folding overshoots) are kept
        if overshoot && !rng.chance(1, 12) {
            continue;
        }
        // the model interpolates the last layer naively (quadratic): keep it at most 64 points in the quick tier
        if tier == Tier::Quick && remainder_len(t, blowup, n, remdeg) * blowup > 64 {
            continue;
        }
        k += 1;
        let size = t * blowup;
        let layers = ref_num_layers(blowup, n, remdeg, size);
        let alphas: Vec<O> = (0..layers + 1).map(|_| boundary_el(&of, rng)).collect();
        let ncoef = match rng.below(10) {
            0 => 1,
            1 => rng.range(1, t as u64) as usize,
            2 => rng.range(t as u64 + 1, size as u64) as usize, // over the degree bound
            _ => t,
        };
        let coeffs = rand_els(&of, rng, ncoef);
        let nq = rng.range(1, 10) as usize;
        let kind = *rng.pick(&["rand", "dups", "collide", "same", "row", "one", "edge"]);
        let ps = gen_positions(kind, size, n, nq, rng);
        emit(format!(
            "prove {} {} {} {} {} {} {} {} {}",
            fld,
            hasher,
            n,
            remdeg,
            logb,
            logt + logb,
            of.print_list(&alphas),
            of.print_list(&coeffs),
            print_usizes(&ps)
        ));
    }
}

fn gen_e2e(rng: &mut Rng, tier: Tier, count: usize, emit: &mut dyn FnMut(String)) {
    let maxlogn: u32 = if tier == Tier::Quick { 12 } else { 14 };
    // systematic: every (folding, remainder degree, blowup) with the two smallest trace lengths that admit a proof
    for n in [2usize, 4, 8, 16] {
        for r in REMDEGS {
            for logb in 1..=7u32 {
                let mut found = 0;
                for logt in 0..=(maxlogn - logb) {
                    let t = 1usize << logt;
                    if (t << logb) < 8 || remainder_len(t, 1 << logb, n, r) == 0 {
                        continue;
                    }
                    let fld = *rng.pick(&FIELDS);
                    let hs = hashers_for(fld);
                    let hasher = hs[rng.below(3) as usize];
                    let nq = rng.range(1, 24.min((t << logb) as u64 - 1));
                    let pk = *rng.pick(&["full", "full", "low", "const", "zero", "mono"]);
                    let qk = *rng.pick(&["coin", "dups", "collide", "same", "row", "rand", "edge"]);
                    emit(format!("e2e {} {} {} {} {} {} {} {} {} {}", fld, hasher, n, r, logb, logt, nq, pk, qk, rng.u64() >> 1));
                    found += 1;
                    if found == 2 {
                        break;
                    }
                }
            }
        }
    }
    let mut k = 0;
    while k < count {
        let fld = FIELDS[k % 4];
        let hs = hashers_for(fld);
        let hasher = *rng.pick(&hs);
        let n = *rng.pick(&[2usize, 4, 8, 16]);
        let r = *rng.pick(&REMDEGS);
        let logb = rng.range(1, 7) as u32;
        let logt = rng.range(0, (maxlogn - logb) as u64) as u32;
        let t = 1usize << logt;
        if (t << logb) < 8 {
            continue;
        }
        let overshoot = remainder_len(t, 1 << logb, n, r) == 0;
        if overshoot && !rng.chance(1, 20) {
            continue;
        }
        k += 1;
        let nq = rng.range(1, 64.min((t << logb) as u64 - 1));
        let pk = *rng.pick(&["full", "full", "full", "low", "const", "zero", "mono"]);
        let qk = *rng.pick(&["coin", "coin", "dups", "collide", "same", "row", "rand", "one", "edge"]);
        emit(format!("e2e {} {} {} {} {} {} {} {} {} {}", fld, hasher, n, r, logb, logt, nq, pk, qk, rng.u64() >> 1));
    }
}

/// LARGE proofs: every length field of the serialized proof must hold what the property's scope can produce.
/// queried values of one layer = (distinct folded positions) × folding × ELEMENT_BYTES bytes: with folding 16,
/// 24/32-byte elements and 200..255 queries this crosses 2^16; so do the Merkle paths of 200+ queries.  (The
/// remainder is at most 256 × 32 = 8192 bytes and cannot cross 2^16 within the scope.)  The sizes are guaranteed by
/// construction, not checked as a property: the `spread` query list has nq ≥ 200 pairwise distinct folded positions
/// (n/16 ≥ 512 rows), so one layer's values are nq·16·24 ≥ 76800 bytes; the `sparse` list of 255 evenly spaced
/// positions in a tree of depth 17 needs about 255·(17−8)·32 ≈ 73000 bytes of paths.  The measured sizes appear in
/// the output (`vmax=`, `pmax=`) and in the distribution classes `e2e-large…`.
fn gen_big(rng: &mut Rng, tier: Tier, emit: &mut dyn FnMut(String)) {
    let combos: [(&str, &str); 6] =
        [("q128", "b3"), ("c64", "b3"), ("c62", "b3"), ("q128", "sha3"), ("c64", "rp64"), ("c62", "sha3")];
    let count = if tier == Tier::Quick { 6 } else { 36 };
    // Merkle paths of one layer beyond 2^16 bytes: folding 2 (deep tree), domain 2^18, 255 sparse queries
    emit(format!("e2e f64 b3 2 255 2 16 255 full sparse {}", rng.u64() >> 1));
    for k in 0..count {
        let (fld, hasher) = combos[k % combos.len()];
        // folding 16 always crosses 2^16 bytes of queried values; folding 8 is kept for the paths
        let n = if k % 6 == 5 { 8 } else { 16 };
        let logb = rng.range(1, 3) as u32;
        let logn = if tier == Tier::Quick { 13 } else { rng.range(13, 15) as u32 };
        let logt = logn - logb;
        let r = *rng.pick(&[0usize, 1, 3, 7, 31, 255]);
        if remainder_len(1 << logt, 1 << logb, n, r) == 0 {
            // remainder degree 255 never overshoots for these sizes
            emit(format!("e2e {} {} {} 255 {} {} {} full spread {}", fld, hasher, n, logb, logt, rng.range(200, 255), rng.u64() >> 1));
            continue;
        }
        let nq = rng.range(200, 255);
        emit(format!("e2e {} {} {} {} {} {} {} full spread {}", fld, hasher, n, r, logb, logt, nq, rng.u64() >> 1));
    }
}

/// one modelled `prove` line (small domains) and one `e2e` line per schedule class (HARDENING.md 1-3), with the
/// polynomial kind and the query-list kind rotating through the structured families
fn gen_sched(rng: &mut Rng, tier: Tier, emit: &mut dyn FnMut(String)) {
    let classes = schedule_classes(if tier == Tier::Quick { 12 } else { 14 });
    let reps = if tier == Tier::Quick { 1 } else { 4 };
    let mut k = 0usize;
    for rep in 0..reps {
        for c in &classes {
            k += 1;
            let size = 1usize << (c.logt + c.logb);
            let t = 1usize << c.logt;
            // the model interpolates the last layer naively (quadratic): keep it at most 64 points
            if c.logt + c.logb <= 8 && (c.t << c.logb) <= 64 {
                let fld = FIELDS[k % 4];
                let of = of_for(fld).unwrap();
                let hs = hashers_for(fld);
                let hasher = hs[(k / 4) % hs.len()];
                let alphas: Vec<O> = (0..c.layers + 1).map(|_| boundary_el(&of, rng)).collect();
                let pk = POLY_KINDS[(k * 7 + rep) % POLY_KINDS.len()];
                let coeffs = structured_poly(&of, pk, t, c.n, alphas[0], rng);
                let qk = QUERY_KINDS[(k * 5 + rep) % QUERY_KINDS.len()];
                let ps = structured_positions(qk, size, c.n, c.layers, rng);
                emit(format!(
                    "prove {} {} {} {} {} {} {} {} {}",
                    fld,
                    hasher,
                    c.n,
                    c.r,
                    c.logb,
                    c.logt + c.logb,
                    of.print_list(&alphas),
                    of.print_list(&coeffs),
                    print_usizes(&ps)
                ));
            }
            if size >= 8 {
                let fld = FIELDS[(k + 1) % 4];
                let hs = hashers_for(fld);
                let hasher = hs[(k / 2) % hs.len()];
                let pk = ["full", "zero", "const", "mono", "low"][(k + rep) % 5];
                let qk = ["coin", "same", "collide", "row", "edge", "dups", "one"][(k / 5 + rep) % 7];
                let nq = rng.range(1, 16.min(size as u64 - 1));
                emit(format!("e2e {} {} {} {} {} {} {} {} {} {}", fld, hasher, c.n, c.r, c.logb, c.logt, nq, pk, qk, rng.u64() >> 1));
            }
        }
    }
}

impl Prop for P {
    fn id(&self) -> &'static str {
        "C15"
    }
    fn gen(&self, rng: &mut Rng, tier: Tier, n: usize, emit: &mut dyn FnMut(String)) {
        let n = default_n(tier, 1200, 12_000, n);
        let mut groups: Vec<Vec<String>> = vec![vec![], vec![], vec![], vec![], vec![], vec![], vec![]];
        gen_sched(&mut rng.fork(), tier, &mut |l| groups[6].push(l));
        gen_big(rng, tier, &mut |l| groups[5].push(l));
        gen_drp(rng, tier, &mut |l| groups[0].push(l));
        gen_pos(rng, tier, &mut |l| groups[1].push(l));
        gen_nl(&mut |l| groups[2].push(l));
        gen_prove(rng, tier, n / 4, &mut |l| groups[3].push(l));
        gen_e2e(rng, tier, n, &mut |l| groups[4].push(l));
        gen_nl_t(rng, &mut |l| groups[2].push(l));
        emit_interleaved(groups, emit);
    }
    fn exec(&self, line: &str) -> Outcome {
        let t: Vec<&str> = line.split(' ').collect();
        let pu = |s: &str| s.parse::<usize>().ok();
        match t.as_slice() {
            ["drp", fld, n, logn, alpha, coeffs] => match (pu(n), pu(logn)) {
                (Some(n), Some(logn)) => dispatch(fld, "b3", &Drp { n, logn: logn as u32, alpha, coeffs }),
                _ => Outcome::ok("bad-op"),
            },
            ["pos", d, n, parts, positions] => match (pu(d), pu(n), pu(parts), parse_usizes(positions)) {
                (Some(d), Some(n), Some(parts), Some(ps)) => {
                    let folded = fold_positions(&ps, d, n);
                    let idx = map_positions_to_indexes(&folded, d, n, parts);
                    let mut o = Outcome::ok(format!("{} {}", print_usizes(&folded), print_usizes(&idx)));
                    let m = d / n;
                    if folded != ref_fold_positions(&ps, m) {
                        o = o.fail("fri.fold_positions", "not the order-preserving de-duplication of p mod (n/N)");
                    }
                    if parts == 1 && idx != folded {
                        o = o.fail("fri.map_positions_to_indexes", "not the identity for one partition");
                    }
                    if parts > 1 && m % parts == 0 {
                        let mut s = std::collections::HashSet::new();
                        if idx.len() != folded.len() || !idx.iter().all(|i| *i < m && s.insert(*i)) {
                            o = o.fail("fri.map_positions_to_indexes", "not an injection into the folded domain");
                        }
                    }
                    o
                },
                _ => Outcome::ok("bad-op"),
            },
            ["nl", b, n, r, d] => match (pu(b), pu(n), pu(r), pu(d)) {
                (Some(b), Some(n), Some(r), Some(d)) => {
                    let l = FriOptions::new(b, n, r).num_fri_layers(d);
                    let mut o = Outcome::ok(format!("{}", l));
                    if l != ref_num_layers(b, n, r, d) {
                        o = o.fail("fri.num_fri_layers", "differs from the reference loop");
                    }
                    // the domain that remains holds at most (r+1)·blowup points
                    let mut dd = d;
                    for _ in 0..l {
                        dd /= n;
                    }
                    if dd / b > r + 1 {
                        o = o.fail("fri.num_fri_layers", "remainder larger than the maximum degree allows");
                    }
                    o
                },
                _ => Outcome::ok("bad-op"),
            },
            ["prove", fld, hasher, n, r, logb, logn, alphas, coeffs, positions] => {
                match (pu(n), pu(r), pu(logb), pu(logn)) {
                    (Some(n), Some(r), Some(logb), Some(logn)) => dispatch(
                        fld,
                        hasher,
                        &Prove { n, remdeg: r, logb: logb as u32, logn: logn as u32, alphas, coeffs, positions },
                    ),
                    _ => Outcome::ok("bad-op"),
                }
            },
            ["e2e", fld, hasher, n, r, logb, logt, nq, pk, qk, seed] => {
                match (pu(n), pu(r), pu(logb), pu(logt), pu(nq), seed.parse::<u64>().ok()) {
                    (Some(n), Some(r), Some(logb), Some(logt), Some(nq), Some(seed)) => dispatch(
                        fld,
                        hasher,
                        &E2e { n, remdeg: r, logb: logb as u32, logt: logt as u32, nq, polykind: pk, qkind: qk, seed },
                    ),
                    _ => Outcome::ok("bad-op"),
                }
            },
            _ => Outcome::ok("bad-op"),
        }
    }
    fn timeout_ms(&self) -> u64 {
        60_000
    }
    fn class(&self, line: &str, out: &str) -> String {
        let t: Vec<&str> = line.split(' ').collect();
        let o = if out.starts_with("panic") { "panic" } else if out.contains("err:") { "err" } else { "ok" };
        match t[0] {
            "drp" => format!("drp.{}.N{}:{}", t[1], t[2], o),
            "prove" => format!("prove.{}.N{}:{}", t[1], t[3], o),
            "e2e" if out.contains("vmax=") => {
                let get = |k: &str| out.split(k).nth(1).and_then(|r| r.split(' ').next()).and_then(|v| v.parse::<usize>().ok()).unwrap_or(0);
                let (v, p) = (get("vmax="), get("pmax="));
                format!(
                    "e2e-large.{}.N{}.values{}64K.paths{}64K:{}",
                    t[1],
                    t[3],
                    if v > 65535 { ">" } else { "<=" },
                    if p > 65535 { ">" } else { "<=" },
                    o
                )
            },
            "e2e" => format!("e2e.{}.{}.N{}:{}", t[1], t[2], t[3], o),
            x => format!("{}:{}", x, o),
        }
    }
    fn panic_site(&self, line: &str) -> Option<String> {
        let t: Vec<&str> = line.split(' ').collect();
        let pu = |s: &str| s.parse::<usize>().unwrap_or(0);
        match t[0] {
            // the documented panic of `position % 0`
            "pos" => None,
            "prove" | "e2e" => {
                let (n, r, logb) = (pu(t[3]), pu(t[4]), pu(t[5]));
                let logt = if t[0] == "prove" { pu(t[6]).saturating_sub(logb) } else { pu(t[6]) };
                let coeffs_over = t[0] == "prove"
                    && t[8].split(',').count() > (1usize << logt);
                if [2, 4, 8, 16].contains(&n) && remainder_len(1 << logt, 1 << logb, n, r) == 0 {
                    Some("fri.overshoot-config.panic".into())
                } else if coeffs_over {
                    Some(format!("fri.{}.over-degree.panic", t[0]))
                } else {
                    Some(format!("fri.{}.panic", t[0]))
                }
            },
            x => Some(format!("fri.{}.panic", x)),
        }
    }
    fn rule(&self) -> &'static str {
        "apply_drp on evaluations of polynomials with 0..n coefficients (boundary and random values, boundary α) for N=2/4/8/16 over \
         f64/f62/f128 and the quadratic extension of f64; fold_positions/map_positions_to_indexes on random, duplicated and colliding \
         query lists; num_fri_layers on every (folding, remainder degree, blowup, domain 2^0..2^16); FriProver with scripted α's \
         (proof contents compared with the model and with coefficient-domain folding) and FriProver/FriVerifier with the default \
         channels over folding × remainder degree × blowup × trace length × field × hasher × query-list kind, each proof also after \
         a serialization round trip and a second proof on the same prover; a case is non-trivial when its op line is distinct"
    }
}

fn main() {
    wf_harness::core::main_for(&P);
}
