//! C09: FFT, interpolation and LDE equal direct polynomial evaluation.
//! Op lines mirror lean/Winter/Drv/C09.lean.  Oracle: Horner evaluation of the polynomial at explicitly
//! computed domain points offset·ω^i with wf_harness::oracle (independent modular arithmetic; ω is derived
//! from the field's two-adic root by the oracle's own powmod and its order is checked on every use).
//!
//! Vectors are not carried on the op lines: coefficients are regenerated from `seed` with SplitMix64 in
//! both the harness and the Lean driver; outputs are a 64-bit FNV-style fold of the canonical integers of
//! the whole result plus sampled positions.
//!
//! line := <fld> <ext> <op> args…          fld ∈ f64|f62|f128, ext = extension degree (1, 2, 3)
//!   eval    n twn seed deg                  evaluate_poly            (twn = size the twiddles are made for)
//!   evalo   n twn seed deg blowup off       evaluate_poly_with_offset
//!   interp  n twn seed                      interpolate_poly of random values
//!   interpo n twn seed off                  interpolate_poly_with_offset
//!   rt      n seed deg off                  interpolate(evaluate(p)) == p on the coset
//!   deg     n seed deg off                  infer_degree of the evaluations of a polynomial of degree deg (z = zero poly)
//!   fft     n twn seed                      FftInputs::fft_in_place (bit-reversed output, no permute)
//!   fftraw  n seed count stride offset      FftInputs::fft_in_place_raw
//!   perm    n seed                          FftInputs::permute
//!   tw      n                               get_twiddles / get_inv_twiddles
//!   rowmat  n cols seed blowup off N        RowMatrix::evaluate_polys_over::<N> (off = g: evaluate_polys::<N>)
//!   colmat  n cols seed blowup off          ColMatrix::interpolate_columns / evaluate_columns_over
//!   segbuf  n cols seed blowup off N fill sh  Segment::new_with_buffer for every segment, the caller's buffer pre-filled
//!                                           with zeros (fill 0), a non-zero pattern (1) or the data of the previous segment /
//!                                           of a segment of another matrix (2); columns of shape `sh`; then
//!                                           RowMatrix::from_segments; cross-checked with build_segments
//!   airdom  n cols seed lde deg N           StarkDomain::new(&air) for an AIR of trace length n whose single transition
//!                                           constraint has degree `deg` (constraint-evaluation blowup = max(2, next_pow2(deg-1)),
//!                                           in general SMALLER than the LDE blowup `lde`): every accessor of the domain, then
//!                                           ColMatrix::evaluate_columns_over and RowMatrix::evaluate_polys_over::<N> over it
//!   bfly    n seed i stride tw W            FftInputs::butterfly / butterfly_twiddle on a slice (W = 0) or on rows [E; W]
//!   shift   n seed off inc W                FftInputs::shift_by / shift_by_series, same containers
//!   fftn    n seed W                        FftInputs::fft_in_place + permute on rows [E; W] (every column is a transform)
//! line := u permidx size index              fft::permute_index
#![allow(dead_code, unused_variables, unused_imports, unused_mut)]
use wf_harness::core::*;
use wf_harness::fields::*;
use wf_harness::oracle::*;
use winter_air::{
    Air, AirContext, Assertion, EvaluationFrame, FieldExtension, ProofOptions, TraceInfo, TransitionConstraintDegree,
};
use winter_math::{
    fft::{self, fft_inputs::FftInputs},
    fields::{f128, f62, f64, CubeExtension, QuadExtension},
    ExtensibleField, FieldElement, StarkField,
};
use winter_prover::{
    matrix::{build_segments, get_evaluation_offsets, ColMatrix, RowMatrix, Segment},
    StarkDomain,
};

pub struct P;

// ------------------------------------------------------------------------------------ PRNG / fold
/// SplitMix64 (the Lean driver has the same generator)
struct Sm(u64);
impl Sm {
    fn next(&mut self) -> u64 {
        self.0 = self.0.wrapping_add(0x9E3779B97F4A7C15);
        let mut z = self.0;
        z = (z ^ (z >> 30)).wrapping_mul(0xBF58476D1CE4E5B9);
        z = (z ^ (z >> 27)).wrapping_mul(0x94D049BB133111EB);
        z ^ (z >> 31)
    }
}

const FOLD0: u64 = 0xcbf29ce484222325;
fn fold(h: u64, v: u128) -> u64 {
    let h = (h ^ (v as u64)).wrapping_mul(0x100000001b3);
    (h ^ ((v >> 64) as u64)).wrapping_mul(0x100000001b3)
}

/// one base-field word from the generator: one draw for the 64-bit fields, two (hi, lo) for f128
fn draw<B: Fld>(g: &mut Sm) -> u128 {
    if B::word_bits() == 128 {
        let hi = g.next() as u128;
        let lo = g.next() as u128;
        (hi << 64) | lo
    } else {
        g.next() as u128
    }
}

/// shapes of generated coefficient / value vectors (token): `r` random, `z` all zero, `<k>` degree exactly k,
/// `m<k>` the monomial x^k, `a` all elements equal, `s<k>` a single non-zero element at position k, `t` alternating
/// (period 2), `b` every coordinate p-1, `i` zeros at the interior positions ≡ 1 mod 3
#[derive(Clone, Copy, Debug)]
enum Shape {
    Rand,
    Zero,
    Exact(usize),
    Mono(usize),
    AllEq,
    Single(usize),
    Alt,
    Top,
    Holes,
    /// random with the single element k zeroed
    ZeroAt(usize),
}

/// `n` elements of extension degree `d` as canonical coordinates, element-major (always n*d draws, then shaped).
fn gen_coords<B: Fld>(seed: u64, n: usize, d: usize, sh: Shape) -> Vec<u128> {
    let mut g = Sm(seed);
    let mut v: Vec<u128> = (0..n * d).map(|_| draw::<B>(&mut g) % B::MOD).collect();
    match sh {
        Shape::Rand => {},
        Shape::Zero => v.iter_mut().for_each(|x| *x = 0),
        Shape::Exact(k) => {
            for x in v.iter_mut().skip((k + 1) * d) {
                *x = 0;
            }
            if k < n && v[k * d..(k + 1) * d].iter().all(|x| *x == 0) {
                v[k * d] = 1;
            }
        },
        Shape::Mono(k) => {
            v.iter_mut().for_each(|x| *x = 0);
            if k < n {
                v[k * d] = 1;
            }
        },
        Shape::AllEq => {
            for i in 0..n * d {
                v[i] = v[i % d];
            }
        },
        Shape::Single(k) => {
            for i in 0..n * d {
                if i / d != k {
                    v[i] = 0;
                }
            }
            if k < n && v[k * d..(k + 1) * d].iter().all(|x| *x == 0) {
                v[k * d] = 1;
            }
        },
        Shape::Alt => {
            for i in 0..n * d {
                v[i] = v[(i / d % 2) * d + i % d];
            }
        },
        Shape::Top => v.iter_mut().for_each(|x| *x = B::MOD - 1),
        Shape::Holes => {
            for i in 0..n * d {
                if i / d % 3 == 1 {
                    v[i] = 0;
                }
            }
        },
        Shape::ZeroAt(k) => {
            for i in 0..n * d {
                if i / d == k {
                    v[i] = 0;
                }
            }
        },
    }
    v
}

/// shape of column `c` of a generated matrix: zero, low-degree and constant-valued columns among the random ones
fn col_shape(c: usize, n: usize) -> Shape {
    match c % 5 {
        1 => Shape::Zero,
        3 => Shape::Exact(c % n.max(1)),
        4 => Shape::AllEq,
        _ => Shape::Rand,
    }
}

fn to_elems<B: Fld, E: FieldElement<BaseField = B>>(coords: &[u128]) -> Vec<E> {
    let base: Vec<B> = coords.iter().map(|c| B::from_word(*c)).collect();
    E::slice_from_base_elements(&base).to_vec()
}

fn coords_of<B: Fld, E: FieldElement<BaseField = B>>(v: &[E]) -> Vec<u128> {
    let mut out = Vec::with_capacity(v.len() * E::EXTENSION_DEGREE);
    for e in v {
        for c in 0..E::EXTENSION_DEGREE {
            out.push(e.base_element(c).canon());
        }
    }
    out
}

/// canonical output: number of elements, fold of all coordinates, coordinates of elements 0, 1, n/2, n-1
fn summary(coords: &[u128], d: usize) -> String {
    let n = coords.len() / d.max(1);
    let mut h = FOLD0;
    for c in coords {
        h = fold(h, *c);
    }
    let mut s = format!("{} {}", n, h);
    if n > 0 {
        for i in [0, 1 % n, n / 2, n - 1] {
            for c in 0..d {
                s.push_str(&format!(" {}", coords[i * d + c]));
            }
        }
    }
    s
}

// ------------------------------------------------------------------------------------ oracle
/// (a + b) mod m for a, b < m (no division)
fn am(a: u128, b: u128, m: u128) -> u128 {
    let (s, o) = a.overflowing_add(b);
    if o || s >= m {
        s.wrapping_sub(m)
    } else {
        s
    }
}

/// (a * b) mod m for a, b < m: native product for moduli up to 64 bits, double-and-add above (the Horner
/// loops below are quadratic, so the division-free form matters; wf_harness::oracle::mulmod is the reference
/// and `selfcheck` compares the two)
fn mm(a: u128, b: u128, m: u128) -> u128 {
    if m <= 1u128 << 64 {
        return (a * b) % m;
    }
    let (mut a, mut b, mut r) = (a, b, 0u128);
    while b > 0 {
        if b & 1 == 1 {
            r = am(r, a, m);
        }
        a = am(a, a, m);
        b >>= 1;
    }
    r
}

fn pm(a: u128, mut e: u128, m: u128) -> u128 {
    let mut b = a % m;
    let mut r = 1u128;
    while e > 0 {
        if e & 1 == 1 {
            r = mm(r, b, m);
        }
        b = mm(b, b, m);
        e >>= 1;
    }
    r
}

fn log2_exact(n: usize) -> Option<u32> {
    if n.is_power_of_two() {
        Some(n.trailing_zeros())
    } else {
        None
    }
}

/// naive bit reversal of `i` within `bits` bits
fn brev(bits: u32, i: u128) -> u128 {
    let mut r = 0u128;
    for b in 0..bits {
        if (i >> b) & 1 == 1 {
            r |= 1 << (bits - 1 - b);
        }
    }
    r
}

/// primitive n-th root of unity from the oracle's own arithmetic; checks its order
fn omega<B: Fld>(n: usize) -> Result<u128, String> {
    let k = log2_exact(n).ok_or("domain size is not a power of two")?;
    if k > B::TWO_ADICITY {
        return Err("no subgroup".into());
    }
    let m = B::MOD;
    let w = powmod(B::TWO_ADIC_ROOT_OF_UNITY.canon(), 1u128 << (B::TWO_ADICITY - k), m);
    if powmod(w, n as u128, m) != 1 || (n > 1 && powmod(w, (n / 2) as u128, m) != m - 1) {
        return Err("root of unity has the wrong order".into());
    }
    Ok(w)
}

/// Horner evaluation (coordinate-wise) of the polynomial with `d`-coordinate coefficients at the base point x
fn horner(coords: &[u128], d: usize, x: u128, m: u128) -> Vec<u128> {
    let n = coords.len() / d;
    let mut acc = vec![0u128; d];
    for j in (0..n).rev() {
        for c in 0..d {
            acc[c] = am(mm(acc[c], x, m), coords[j * d + c], m);
        }
    }
    acc
}

/// positions of a domain of `len` points that the oracle checks: all of them when the quadratic cost is
/// affordable, otherwise both ends, the middle and pseudo-random positions derived from `seed`
fn positions(len: usize, poly_len: usize, budget: usize, seed: u64) -> Vec<usize> {
    if len.saturating_mul(poly_len) <= budget {
        return (0..len).collect();
    }
    let mut g = Sm(seed ^ 0xA5A5_5A5A_1234_5678);
    let k = (budget / poly_len.max(1)).clamp(8, len);
    let mut v = vec![0, 1, len / 2, len / 2 + 1, len.saturating_sub(2), len - 1];
    while v.len() < k {
        v.push((g.next() % len as u64) as usize);
    }
    v.retain(|p| *p < len);
    v.sort();
    v.dedup();
    v
}

fn budget<B: Fld>() -> usize {
    // mulmod of the 128-bit field is a double-and-add loop: give it a smaller budget
    if B::word_bits() == 128 {
        1 << 17
    } else {
        1 << 21
    }
}

/// compare `got` (coordinates of evaluations over the domain off·ω^i, i < len) with Horner evaluation of `poly`
fn check_evals<B: Fld>(
    o: Outcome,
    site: &str,
    poly: &[u128],
    d: usize,
    got: &[u128],
    len: usize,
    off: u128,
    seed: u64,
) -> Outcome {
    let mut o = o;
    let m = B::MOD;
    if got.len() != len * d {
        return o.fail(format!("{}.{}.len", B::NAME, site), format!("{} elements, expected {}", got.len() / d, len));
    }
    let w = match omega::<B>(len) {
        Ok(w) => w,
        Err(e) => return o.fail(format!("{}.{}.domain", B::NAME, site), e),
    };
    for i in positions(len, poly.len() / d, budget::<B>(), seed) {
        let x = mm(off % m, pm(w, i as u128, m), m);
        let e = horner(poly, d, x, m);
        if e[..] != got[i * d..(i + 1) * d] {
            return o.fail(
                format!("{}.{}.value", B::NAME, site),
                format!("position {}: got {:?}, direct evaluation at off*w^{} gives {:?}", i, &got[i * d..(i + 1) * d], i, e),
            );
        }
    }
    o
}

// ------------------------------------------------------------------------------------ argument parsing
fn pu(s: &str) -> Option<usize> {
    s.parse::<usize>().ok()
}
fn p64(s: &str) -> Option<u64> {
    s.parse::<u64>().ok()
}
fn p128(s: &str) -> Option<u128> {
    s.parse::<u128>().ok()
}
fn pdeg(s: &str) -> Option<Shape> {
    match s {
        "r" => Some(Shape::Rand),
        "z" => Some(Shape::Zero),
        "a" => Some(Shape::AllEq),
        "t" => Some(Shape::Alt),
        "b" => Some(Shape::Top),
        "i" => Some(Shape::Holes),
        _ if s.starts_with('m') => pu(&s[1..]).map(Shape::Mono),
        _ if s.starts_with('h') => pu(&s[1..]).map(Shape::ZeroAt),
        _ if s.starts_with('s') => pu(&s[1..]).map(Shape::Single),
        _ => pu(s).map(Shape::Exact),
    }
}
fn poff<B: Fld>(s: &str) -> Option<u128> {
    match s {
        "g" => Some(B::GENERATOR.canon()),
        _ => p128(s),
    }
}

/// run the implementation; a panic is the canonical outcome `panic`, and a property failure unless the
/// documented preconditions (`documented`) say that the call must panic
fn run<T>(o: &mut Outcome, site: String, documented: bool, f: impl FnOnce() -> T) -> Option<T> {
    match guarded(f) {
        Ok(v) => Some(v),
        Err(info) => {
            o.out = "panic".into();
            if !documented {
                o.fails.push((site, format!("panic at {}", info)));
            }
            None
        },
    }
}

fn pow2(n: usize) -> bool {
    n.is_power_of_two()
}

/// documented preconditions of the transforms: sizes are powers of two ≥ 2 with a subgroup in the field,
/// twiddles are made for the same size, the offset is non-zero
fn bad_domain<B: Fld>(n: usize, twn: usize, blowup: usize, off: u128) -> bool {
    !pow2(n)
        || n < 2
        || twn != n
        || !pow2(blowup)
        || n.checked_mul(blowup).map_or(true, |s| s.trailing_zeros() > B::TWO_ADICITY)
        || off % B::MOD == 0
}

fn twiddles<B: Fld>(twn: usize, inv: bool) -> Vec<B> {
    if inv {
        fft::get_inv_twiddles::<B>(twn)
    } else {
        fft::get_twiddles::<B>(twn)
    }
}


// ------------------------------------------------------------------------------------ FftInputs containers
/// the two public implementations of `FftInputs`: a slice of elements and a slice of rows `[E; W]`
trait Rows<B: Fld, E: FieldElement<BaseField = B>>: Sized {
    /// elements per row
    const PER: usize;
    fn make(coords: &[u128]) -> Self;
    fn coords(&self) -> Vec<u128>;
    fn bfly(&mut self, i: usize, stride: usize);
    fn bfly_tw(&mut self, tw: B, i: usize, stride: usize);
    fn shift(&mut self, off: B);
    fn shift_series(&mut self, off: B, inc: B);
    fn fft(&mut self, tw: &[B]);
    fn perm(&mut self);
    fn swap2(&mut self, i: usize, j: usize);
    fn rows(&self) -> usize;
}
struct SliceRows<E>(Vec<E>);
struct ArrRows<E, const W: usize>(Vec<[E; W]>);
macro_rules! rows_methods {
    () => {
        fn bfly(&mut self, i: usize, stride: usize) {
            FftInputs::<E>::butterfly(&mut self.0[..], i, stride)
        }
        fn bfly_tw(&mut self, tw: B, i: usize, stride: usize) {
            FftInputs::<E>::butterfly_twiddle(&mut self.0[..], tw, i, stride)
        }
        fn shift(&mut self, off: B) {
            FftInputs::<E>::shift_by(&mut self.0[..], off)
        }
        fn shift_series(&mut self, off: B, inc: B) {
            FftInputs::<E>::shift_by_series(&mut self.0[..], off, inc)
        }
        fn fft(&mut self, tw: &[B]) {
            FftInputs::<E>::fft_in_place(&mut self.0[..], tw)
        }
        fn perm(&mut self) {
            FftInputs::<E>::permute(&mut self.0[..])
        }
        fn swap2(&mut self, i: usize, j: usize) {
            FftInputs::<E>::swap(&mut self.0[..], i, j)
        }
        fn rows(&self) -> usize {
            FftInputs::<E>::len(&self.0[..])
        }
    };
}
impl<B: Fld, E: FieldElement<BaseField = B>> Rows<B, E> for SliceRows<E> {
    const PER: usize = 1;
    fn make(coords: &[u128]) -> Self {
        SliceRows(to_elems::<B, E>(coords))
    }
    fn coords(&self) -> Vec<u128> {
        coords_of::<B, E>(&self.0)
    }
    rows_methods!();
}
impl<B: Fld, E: FieldElement<BaseField = B>, const W: usize> Rows<B, E> for ArrRows<E, W> {
    const PER: usize = W;
    fn make(coords: &[u128]) -> Self {
        let el: Vec<E> = to_elems::<B, E>(coords);
        ArrRows(el.chunks(W).map(|c| core::array::from_fn(|k| c[k])).collect())
    }
    fn coords(&self) -> Vec<u128> {
        self.0.iter().flat_map(|r| coords_of::<B, E>(r)).collect()
    }
    rows_methods!();
}

/// `bfly` / `shift` / `fftn` on one container type
fn fi_ops<B: Fld, E: FieldElement<BaseField = B>, R: Rows<B, E>>(t: &[&str]) -> Outcome {
    let d = E::EXTENSION_DEGREE;
    let m = B::MOD;
    let f = B::NAME;
    let per = R::PER * d; // base coordinates per row
    let bad = || Outcome::ok("bad-op");
    let mut o = Outcome::ok("");
    match t {
        ["bfly", n, seed, i, stride, tw] => {
            let (Some(n), Some(seed), Some(i), Some(stride), Some(tw)) = (pu(n), p64(seed), pu(i), pu(stride), p128(tw)) else { return bad() };
            let input = gen_coords::<B>(seed, n * R::PER, d, Shape::Rand);
            // documented: both positions offset and offset + stride must exist
            let doc = i.checked_add(stride).map_or(true, |j| j >= n);
            let r = run(&mut o, format!("{}.bfly.panic", f), doc, || {
                let mut a = R::make(&input);
                a.bfly(i, stride);
                let mut b = R::make(&input);
                b.bfly_tw(B::from_word(tw), i, stride);
                // swap twice is the identity and moves whole rows
                let mut c = R::make(&input);
                c.swap2(i, i + stride);
                let sw = c.coords();
                c.swap2(i + stride, i);
                (a.coords(), b.coords(), sw, c.coords(), a.rows())
            });
            if let Some((ga, gb, sw, sw2, rows)) = r {
                o.out = format!("{} {}", summary(&ga, d), summary(&gb, d));
                let j = i + stride;
                let (mut ea, mut eb, mut es) = (input.clone(), input.clone(), input.clone());
                let twv = tw % m;
                for k in 0..per {
                    let (x, y) = (input[i * per + k], input[j * per + k]);
                    ea[i * per + k] = am(x, y, m);
                    ea[j * per + k] = am(x, m - y, m) % m;
                    let yt = mm(y, twv, m);
                    eb[i * per + k] = am(x, yt, m);
                    eb[j * per + k] = am(x, (m - yt) % m, m);
                    es[i * per + k] = y;
                    es[j * per + k] = x;
                }
                let ea: Vec<u128> = ea.iter().map(|v| v % m).collect();
                if ga != ea {
                    o = o.fail(format!("{}.bfly.value", f), "butterfly is not (a + b, a - b) on positions offset, offset + stride (others unchanged)");
                }
                if gb != eb {
                    o = o.fail(format!("{}.bfly.twiddle", f), "butterfly_twiddle is not (a + t*b, a - t*b) on positions offset, offset + stride (others unchanged)");
                }
                if sw != es || sw2 != input || rows != n {
                    o = o.fail(format!("{}.bfly.swap", f), "swap / len");
                }
            }
            o
        },
        ["shift", n, seed, off, inc] => {
            let (Some(n), Some(seed), Some(off), Some(inc)) = (pu(n), p64(seed), poff::<B>(off), poff::<B>(inc)) else { return bad() };
            let input = gen_coords::<B>(seed, n * R::PER, d, Shape::Rand);
            let r = run(&mut o, format!("{}.shift.panic", f), false, || {
                let mut a = R::make(&input);
                a.shift(B::from_word(off));
                let mut b = R::make(&input);
                b.shift_series(B::from_word(off), B::from_word(inc));
                (a.coords(), b.coords())
            });
            if let Some((ga, gb)) = r {
                o.out = format!("{} {}", summary(&ga, d), summary(&gb, d));
                let (offv, incv) = (off % m, inc % m);
                let mut factor = offv;
                for row in 0..n {
                    for k in 0..per {
                        let x = input[row * per + k];
                        if ga[row * per + k] != mm(x, offv, m) {
                            o = o.fail(format!("{}.shift.by", f), format!("row {}: not the element times the offset", row));
                            return o;
                        }
                        if gb[row * per + k] != mm(x, factor, m) {
                            o = o.fail(format!("{}.shift.series", f), format!("row {}: not the element times offset*increment^{}", row, row));
                            return o;
                        }
                    }
                    factor = mm(factor, incv, m);
                }
            }
            o
        },
        ["fftn", n, seed] => {
            let (Some(n), Some(seed)) = (pu(n), p64(seed)) else { return bad() };
            let input = gen_coords::<B>(seed, n * R::PER, d, Shape::Rand);
            let doc = bad_domain::<B>(n, n, 1, 1);
            let r = run(&mut o, format!("{}.fftn.panic", f), doc, || {
                let tw = twiddles::<B>(n, false);
                let mut a = R::make(&input);
                a.fft(&tw);
                a.perm();
                a.coords()
            });
            if let Some(got) = r {
                o.out = summary(&got, d);
                // every column of the rows is the transform of that column: natural order after permute
                for c in 0..R::PER {
                    let col = |v: &[u128]| -> Vec<u128> { (0..n).flat_map(|r| v[(r * R::PER + c) * d..(r * R::PER + c + 1) * d].to_vec()).collect() };
                    let before = o.fails.len();
                    o = check_evals::<B>(o, "fftn", &col(&input), d, &col(&got), n, 1, seed ^ c as u64);
                    if o.fails.len() > before {
                        break;
                    }
                }
            }
            o
        },
        _ => bad(),
    }
}

// ------------------------------------------------------------------------------------ exec
fn exec_e<B: Fld + ExtensibleField<2> + ExtensibleField<3>, E: FieldElement<BaseField = B>>(t: &[&str]) -> Outcome {
    let d = E::EXTENSION_DEGREE;
    let m = B::MOD;
    let f = B::NAME;
    let bad = || Outcome::ok("bad-op");
    let mut o = Outcome::ok("");
    match t {
        ["eval", n, twn, seed, deg] => {
            let (Some(n), Some(twn), Some(seed), Some(deg)) = (pu(n), pu(twn), p64(seed), pdeg(deg)) else { return bad() };
            let poly = gen_coords::<B>(seed, n, d, deg);
            let doc = bad_domain::<B>(n, twn, 1, 1);
            let r = run(&mut o, format!("{}.eval.panic", f), doc, || {
                let tw = twiddles::<B>(twn, false);
                let mut p: Vec<E> = to_elems::<B, E>(&poly);
                fft::evaluate_poly(&mut p, &tw);
                // the public single-threaded entry point works in place on the same kind of storage
                let mut q: Vec<E> = to_elems::<B, E>(&poly);
                fft::serial_fft(&mut q, &tw);
                (coords_of::<B, E>(&p), coords_of::<B, E>(&q))
            });
            if let Some((got, got2)) = r {
                o.out = summary(&got, d);
                if got2 != got {
                    o = o.fail(format!("{}.eval.serial_fft", f), "serial_fft differs from evaluate_poly");
                }
                o = check_evals::<B>(o, "eval", &poly, d, &got, n, 1, seed);
            }
            o
        },
        ["evalo", n, twn, seed, deg, blowup, off] => {
            let (Some(n), Some(twn), Some(seed), Some(deg), Some(blowup), Some(off)) =
                (pu(n), pu(twn), p64(seed), pdeg(deg), pu(blowup), poff::<B>(off))
            else {
                return bad();
            };
            let poly = gen_coords::<B>(seed, n, d, deg);
            let doc = bad_domain::<B>(n, twn, blowup, off);
            let r = run(&mut o, format!("{}.evalo.panic", f), doc, || {
                let tw = twiddles::<B>(twn, false);
                let p: Vec<E> = to_elems::<B, E>(&poly);
                let before = coords_of::<B, E>(&p);
                let r = fft::evaluate_poly_with_offset(&p, &tw, B::from_word(off), blowup);
                (coords_of::<B, E>(&r), coords_of::<B, E>(&p) == before)
            });
            if let Some((got, untouched)) = r {
                o.out = summary(&got, d);
                o = check_evals::<B>(o, "evalo", &poly, d, &got, n * blowup, off, seed);
                if !untouched {
                    o = o.fail(format!("{}.evalo.input-modified", f), "");
                }
            }
            o
        },
        ["interp", n, twn, seed] | ["interp", n, twn, seed, _] | ["interpo", n, twn, seed, _] | ["interpo", n, twn, seed, _, _] => {
            let with_off = t[0] == "interpo";
            let sh_tok = if with_off { t.get(5) } else { t.get(4) };
            let Some(sh) = sh_tok.map_or(Some(Shape::Rand), |x| pdeg(x)) else { return bad() };
            let (Some(n), Some(twn), Some(seed)) = (pu(n), pu(twn), p64(seed)) else { return bad() };
            let off = if with_off {
                match poff::<B>(t[4]) {
                    Some(x) => x,
                    None => return bad(),
                }
            } else {
                1
            };
            let ys = gen_coords::<B>(seed, n, d, sh);
            let doc = bad_domain::<B>(n, twn, 1, off);
            let site = t[0];
            let r = run(&mut o, format!("{}.{}.panic", f, site), doc, || {
                let itw = twiddles::<B>(twn, true);
                let mut v: Vec<E> = to_elems::<B, E>(&ys);
                if with_off {
                    fft::interpolate_poly_with_offset(&mut v, &itw, B::from_word(off));
                } else {
                    fft::interpolate_poly(&mut v, &itw);
                }
                coords_of::<B, E>(&v)
            });
            if let Some(poly) = r {
                o.out = summary(&poly, d);
                // the interpolant has n coefficients (degree < n) and passes through the given values
                if poly.len() != n * d {
                    o = o.fail(format!("{}.{}.len", f, site), "");
                } else {
                    o = check_evals::<B>(o, site, &poly, d, &ys, n, off, seed);
                }
            }
            o
        },
        ["rt", n, seed, deg, off] => {
            let (Some(n), Some(seed), Some(deg), Some(off)) = (pu(n), p64(seed), pdeg(deg), poff::<B>(off)) else {
                return bad();
            };
            let poly = gen_coords::<B>(seed, n, d, deg);
            let doc = bad_domain::<B>(n, n, 1, off);
            let r = run(&mut o, format!("{}.rt.panic", f), doc, || {
                let tw = twiddles::<B>(n, false);
                let itw = twiddles::<B>(n, true);
                let p: Vec<E> = to_elems::<B, E>(&poly);
                let mut ev = fft::evaluate_poly_with_offset(&p, &tw, B::from_word(off), 1);
                fft::interpolate_poly_with_offset(&mut ev, &itw, B::from_word(off));
                coords_of::<B, E>(&ev)
            });
            if let Some(got) = r {
                o.out = summary(&got, d);
                if got != poly {
                    o = o.fail(format!("{}.rt.value", f), "interpolate(evaluate(p)) != p");
                }
            }
            o
        },
        ["deg", n, seed, deg, off] => {
            let (Some(n), Some(seed), Some(deg), Some(off)) = (pu(n), p64(seed), pdeg(deg), poff::<B>(off)) else {
                return bad();
            };
            let poly = gen_coords::<B>(seed, n, d, deg);
            let doc = bad_domain::<B>(n, n, 1, off);
            let r = run(&mut o, format!("{}.deg.panic", f), doc, || {
                let tw = twiddles::<B>(n, false);
                let p: Vec<E> = to_elems::<B, E>(&poly);
                let ev = fft::evaluate_poly_with_offset(&p, &tw, B::from_word(off), 1);
                (coords_of::<B, E>(&ev), fft::infer_degree(&ev, B::from_word(off)))
            });
            if let Some((ev, got)) = r {
                o.out = format!("{}", got);
                // the evaluations handed to infer_degree are themselves judged by the oracle
                o = check_evals::<B>(o, "deg.evals", &poly, d, &ev, n, off, seed);
                // true degree: index of the last non-zero coefficient; 0 for constants and the zero polynomial
                let mut want = 0;
                for j in 0..n {
                    if poly[j * d..(j + 1) * d].iter().any(|c| *c != 0) {
                        want = j;
                    }
                }
                if got != want {
                    o = o.fail(format!("{}.deg.value", f), format!("infer_degree = {} but the degree is {}", got, want));
                }
            }
            o
        },
        ["fft", n, twn, seed] => {
            let (Some(n), Some(twn), Some(seed)) = (pu(n), pu(twn), p64(seed)) else { return bad() };
            let poly = gen_coords::<B>(seed, n, d, Shape::Rand);
            // fft_in_place itself documents only the twiddle length; sizes that are not powers of two hit
            // its debug assertions
            let doc = bad_domain::<B>(n, twn, 1, 1);
            let r = run(&mut o, format!("{}.fft.panic", f), doc, || {
                let tw = twiddles::<B>(twn, false);
                let mut p: Vec<E> = to_elems::<B, E>(&poly);
                FftInputs::fft_in_place(&mut p[..], &tw);
                coords_of::<B, E>(&p)
            });
            if let Some(got) = r {
                o.out = summary(&got, d);
                // natural order = bit reversal of the output
                let k = n.trailing_zeros();
                let mut nat = vec![0u128; got.len()];
                for i in 0..n {
                    let j = brev(k, i as u128) as usize;
                    nat[j * d..(j + 1) * d].copy_from_slice(&got[i * d..(i + 1) * d]);
                }
                o = check_evals::<B>(o, "fft", &poly, d, &nat, n, 1, seed);
            }
            o
        },
        ["fftraw", n, seed, count, stride, offset] => {
            let (Some(n), Some(seed), Some(count), Some(stride), Some(offset)) =
                (pu(n), p64(seed), pu(count), pu(stride), pu(offset))
            else {
                return bad();
            };
            let input = gen_coords::<B>(seed, n, d, Shape::Rand);
            let well_formed = pow2(n)
                && n >= 2
                && n.trailing_zeros() <= B::TWO_ADICITY
                && stride >= 1
                && pow2(stride)
                && n / stride >= 2
                && offset + count <= stride;
            let r = run(&mut o, format!("{}.fftraw.panic", f), !well_formed, || {
                let tw = twiddles::<B>(n, false);
                let mut p: Vec<E> = to_elems::<B, E>(&input);
                FftInputs::fft_in_place_raw(&mut p[..], &tw, count, stride, offset);
                coords_of::<B, E>(&p)
            });
            if let Some(got) = r {
                o.out = summary(&got, d);
                if well_formed {
                    // every sub-sequence c + k*stride with offset <= c < offset+count holds the bit-reversed
                    // transform of its input; all other positions are unchanged
                    let size = n / stride;
                    let k = size.trailing_zeros();
                    for c in 0..stride {
                        let sub_in: Vec<u128> =
                            (0..size).flat_map(|j| input[(c + j * stride) * d..(c + j * stride + 1) * d].to_vec()).collect();
                        let sub_out: Vec<u128> =
                            (0..size).flat_map(|j| got[(c + j * stride) * d..(c + j * stride + 1) * d].to_vec()).collect();
                        if c >= offset && c < offset + count {
                            let mut nat = vec![0u128; sub_out.len()];
                            for i in 0..size {
                                let j = brev(k, i as u128) as usize;
                                nat[j * d..(j + 1) * d].copy_from_slice(&sub_out[i * d..(i + 1) * d]);
                            }
                            let before = o.fails.len();
                            o = check_evals::<B>(o, "fftraw", &sub_in, d, &nat, size, 1, seed ^ c as u64);
                            if o.fails.len() > before {
                                break;
                            }
                        } else if sub_in != sub_out {
                            o = o.fail(format!("{}.fftraw.untouched", f), format!("sub-sequence {} was modified", c));
                            break;
                        }
                    }
                }
            }
            o
        },
        ["perm", n, seed] => {
            let (Some(n), Some(seed)) = (pu(n), p64(seed)) else { return bad() };
            let input = gen_coords::<B>(seed, n, d, Shape::Rand);
            let r = run(&mut o, format!("{}.perm.panic", f), !pow2(n), || {
                let mut p: Vec<E> = to_elems::<B, E>(&input);
                FftInputs::permute(&mut p[..]);
                let once = coords_of::<B, E>(&p);
                FftInputs::permute(&mut p[..]);
                (once, coords_of::<B, E>(&p))
            });
            if let Some((once, twice)) = r {
                o.out = summary(&once, d);
                let k = n.trailing_zeros();
                for i in 0..n {
                    let j = brev(k, i as u128) as usize;
                    if once[i * d..(i + 1) * d] != input[j * d..(j + 1) * d] {
                        o = o.fail(format!("{}.perm.value", f), format!("position {} is not the element at the bit-reversed index {}", i, j));
                        break;
                    }
                }
                if twice != input {
                    o = o.fail(format!("{}.perm.involution", f), "permute twice is not the identity");
                }
            }
            o
        },
        ["tw", n] => {
            let Some(n) = pu(n) else { return bad() };
            let doc = !pow2(n) || n < 2 || n.trailing_zeros() > B::TWO_ADICITY;
            let r = run(&mut o, format!("{}.tw.panic", f), doc, || {
                (
                    twiddles::<B>(n, false).iter().map(|x| x.canon()).collect::<Vec<u128>>(),
                    twiddles::<B>(n, true).iter().map(|x| x.canon()).collect::<Vec<u128>>(),
                )
            });
            if let Some((tw, itw)) = r {
                o.out = format!("{} {}", summary(&tw, 1), summary(&itw, 1));
                match omega::<B>(n) {
                    Err(e) => o = o.fail(format!("{}.tw.domain", f), e),
                    Ok(w) => {
                        let k = n.trailing_zeros();
                        if tw.len() != n / 2 || itw.len() != n / 2 {
                            o = o.fail(format!("{}.tw.len", f), "");
                        } else {
                            let winv = powmod(w, (n - 1) as u128, m);
                            for i in positions(n / 2, 64, 1 << 16, n as u64) {
                                let e = brev(k - 1, i as u128);
                                if tw[i] != pm(w, e, m) || itw[i] != pm(winv, e, m) || mulmod(tw[i], itw[i], m) != 1 {
                                    o = o.fail(format!("{}.tw.value", f), format!("twiddle {} is not w^±bitrev({})", i, i));
                                    break;
                                }
                            }
                        }
                    },
                }
            }
            o
        },
        ["rowmat", n, cols, seed, blowup, off, w] => {
            let (Some(n), Some(cols), Some(seed), Some(blowup), Some(w)) = (pu(n), pu(cols), p64(seed), pu(blowup), pu(w)) else {
                return bad();
            };
            let gen_off = *off == "g!";
            let Some(off) = (if gen_off { Some(B::GENERATOR.canon()) } else { poff::<B>(off) }) else { return bad() };
            match w {
                1 => rowmat::<B, E, 1>(n, cols, seed, blowup, off, gen_off),
                2 => rowmat::<B, E, 2>(n, cols, seed, blowup, off, gen_off),
                3 => rowmat::<B, E, 3>(n, cols, seed, blowup, off, gen_off),
                4 => rowmat::<B, E, 4>(n, cols, seed, blowup, off, gen_off),
                8 => rowmat::<B, E, 8>(n, cols, seed, blowup, off, gen_off),
                16 => rowmat::<B, E, 16>(n, cols, seed, blowup, off, gen_off),
                _ => bad(),
            }
        },
        ["segbuf", n, cols, seed, blowup, off, w, fill, sh] => {
            let (Some(n), Some(cols), Some(seed), Some(blowup), Some(off), Some(w), Some(fill), Some(sh)) =
                (pu(n), pu(cols), p64(seed), pu(blowup), poff::<B>(off), pu(w), pu(fill), pdeg(sh))
            else {
                return bad();
            };
            match w {
                1 => segbuf::<B, E, 1>(n, cols, seed, blowup, off, fill, sh),
                2 => segbuf::<B, E, 2>(n, cols, seed, blowup, off, fill, sh),
                3 => segbuf::<B, E, 3>(n, cols, seed, blowup, off, fill, sh),
                4 => segbuf::<B, E, 4>(n, cols, seed, blowup, off, fill, sh),
                8 => segbuf::<B, E, 8>(n, cols, seed, blowup, off, fill, sh),
                16 => segbuf::<B, E, 16>(n, cols, seed, blowup, off, fill, sh),
                _ => bad(),
            }
        },
        ["airdom", n, cols, seed, lde, deg, w] => {
            let (Some(n), Some(cols), Some(seed), Some(lde), Some(deg), Some(w)) =
                (pu(n), pu(cols), p64(seed), pu(lde), pu(deg), pu(w))
            else {
                return bad();
            };
            match w {
                1 => airdom::<B, E, 1>(n, cols, seed, lde, deg),
                3 => airdom::<B, E, 3>(n, cols, seed, lde, deg),
                4 => airdom::<B, E, 4>(n, cols, seed, lde, deg),
                8 => airdom::<B, E, 8>(n, cols, seed, lde, deg),
                16 => airdom::<B, E, 16>(n, cols, seed, lde, deg),
                _ => bad(),
            }
        },
        ["bfly", .., w] | ["shift", .., w] | ["fftn", .., w] => {
            let args = &t[..t.len() - 1];
            match pu(w) {
                Some(0) if t[0] != "fftn" => fi_ops::<B, E, SliceRows<E>>(args),
                Some(1) => fi_ops::<B, E, ArrRows<E, 1>>(args),
                Some(2) => fi_ops::<B, E, ArrRows<E, 2>>(args),
                Some(3) => fi_ops::<B, E, ArrRows<E, 3>>(args),
                Some(4) => fi_ops::<B, E, ArrRows<E, 4>>(args),
                Some(8) => fi_ops::<B, E, ArrRows<E, 8>>(args),
                _ => bad(),
            }
        },
        ["colmat", n, cols, seed, blowup, off] => {
            let (Some(n), Some(cols), Some(seed), Some(blowup), Some(off)) = (pu(n), pu(cols), p64(seed), pu(blowup), poff::<B>(off))
            else {
                return bad();
            };
            // ColMatrix::new documents: at least one column, more than one row, rows a power of two
            let doc = cols == 0 || bad_domain::<B>(n, n, blowup, off);
            let vals: Vec<Vec<u128>> = (0..cols).map(|c| gen_coords::<B>(seed.wrapping_add(c as u64), n, d, col_shape(c, n))).collect();
            let r = run(&mut o, format!("{}.colmat.panic", f), doc, || {
                let m0 = ColMatrix::new(vals.iter().map(|c| to_elems::<B, E>(c)).collect::<Vec<Vec<E>>>());
                let polys = m0.interpolate_columns();
                let polys2 = m0.clone().interpolate_columns_into();
                let domain = StarkDomain::from_twiddles(fft::get_twiddles::<B>(n), blowup, B::from_word(off));
                let lde = polys.evaluate_columns_over(&domain);
                let pc: Vec<Vec<u128>> = (0..cols).map(|c| coords_of::<B, E>(polys.get_column(c))).collect();
                let pc2: Vec<Vec<u128>> = (0..cols).map(|c| coords_of::<B, E>(polys2.get_column(c))).collect();
                let lc: Vec<Vec<u128>> = (0..cols).map(|c| coords_of::<B, E>(lde.get_column(c))).collect();
                // the cell accessors of the input matrix, and the column polynomials at one point (base point x embedded)
                let mut acc_ok = m0.num_base_cols() == cols * d && m0.num_rows() == n && m0.num_cols() == cols;
                let mut rowbuf = vec![E::ZERO; cols];
                for r in [0, n / 2, n - 1] {
                    m0.read_row_into(r, &mut rowbuf);
                    for c in 0..cols {
                        let want = &vals[c][r * d..(r + 1) * d];
                        acc_ok &= coords_of::<B, E>(&[m0.get(c, r)])[..] == *want && coords_of::<B, E>(&[rowbuf[c]])[..] == *want;
                        for e in 0..d {
                            acc_ok &= m0.get_base_element(c * d + e, r).canon() == want[e];
                        }
                    }
                }
                acc_ok &= m0.columns().len() == cols && m0.columns().enumerate().all(|(c, col)| coords_of::<B, E>(col) == vals[c]);
                acc_ok &= m0.clone().into_columns().iter().enumerate().all(|(c, col)| coords_of::<B, E>(col) == vals[c]);
                let xv = (seed as u128 | 1) % B::MOD;
                let at: Vec<u128> = coords_of::<B, E>(&polys.evaluate_columns_at(E::from(B::from_word(xv))));
                (pc, pc2, lc, lde.num_rows(), lde.num_cols(), acc_ok, xv, at)
            });
            if let Some((pc, pc2, lc, rows, ncols, acc_ok, xv, at)) = r {
                if !acc_ok {
                    o = o.fail(format!("{}.colmat.accessor", f), "get / get_base_element / read_row_into / columns / into_columns / num_base_cols disagree with the columns the matrix was built from");
                }
                if at.len() != cols * d || (0..cols).any(|c| horner(&pc[c], d, xv, m)[..] != at[c * d..(c + 1) * d]) {
                    o = o.fail(format!("{}.colmat.evaluate_columns_at", f), format!("evaluate_columns_at({}) is not the direct evaluation of the column polynomials", xv));
                }
                let flat_p: Vec<u128> = pc.iter().flatten().cloned().collect();
                let flat_l: Vec<u128> = lc.iter().flatten().cloned().collect();
                o.out = format!("{} {} {} {}", rows, ncols, summary(&flat_p, d), summary(&flat_l, d));
                if rows != n * blowup || ncols != cols {
                    o = o.fail(format!("{}.colmat.shape", f), format!("{}x{}", rows, ncols));
                }
                if pc != pc2 {
                    o = o.fail(format!("{}.colmat.into", f), "interpolate_columns_into differs from interpolate_columns");
                }
                let per_col = budget::<B>() / cols.max(1);
                for c in 0..cols {
                    let before = o.fails.len();
                    // interpolation: the column polynomial passes through the column's values over w^i
                    o = check_evals_budget::<B>(o, "colmat.interp", &pc[c], d, &vals[c], n, 1, seed ^ c as u64, per_col);
                    // extension: its values over the coset
                    o = check_evals_budget::<B>(o, "colmat.lde", &pc[c], d, &lc[c], n * blowup, off, seed ^ c as u64, per_col);
                    if o.fails.len() > before {
                        break;
                    }
                }
            }
            o
        },
        _ => bad(),
    }
}

fn check_evals_budget<B: Fld>(
    o: Outcome,
    site: &str,
    poly: &[u128],
    d: usize,
    got: &[u128],
    len: usize,
    off: u128,
    seed: u64,
    budget: usize,
) -> Outcome {
    let mut o = o;
    let m = B::MOD;
    if got.len() != len * d {
        return o.fail(format!("{}.{}.len", B::NAME, site), format!("{} elements, expected {}", got.len() / d, len));
    }
    let w = match omega::<B>(len) {
        Ok(w) => w,
        Err(e) => return o.fail(format!("{}.{}.domain", B::NAME, site), e),
    };
    for i in positions(len, poly.len() / d, budget, seed) {
        let x = mm(off % m, pm(w, i as u128, m), m);
        let e = horner(poly, d, x, m);
        if e[..] != got[i * d..(i + 1) * d] {
            return o.fail(
                format!("{}.{}.value", B::NAME, site),
                format!("position {}: got {:?}, direct evaluation at off*w^{} gives {:?}", i, &got[i * d..(i + 1) * d], i, e),
            );
        }
    }
    o
}

/// RowMatrix::evaluate_polys_over::<W> (or evaluate_polys::<W> when `gen_off`): the cell (row, col) must be
/// the value of polynomial `col` at off·ω^row; padding cells of the ragged last segment must be zero
fn rowmat<B: Fld, E: FieldElement<BaseField = B>, const W: usize>(
    n: usize,
    cols: usize,
    seed: u64,
    blowup: usize,
    off: u128,
    gen_off: bool,
) -> Outcome {
    let d = E::EXTENSION_DEGREE;
    let f = B::NAME;
    let mut o = Outcome::ok("");
    // documented: ColMatrix::new (≥ 1 column, ≥ 2 rows, power of two); Segment::new (the domain is strictly
    // larger than the polynomial: blowup ≥ 2)
    let doc = cols == 0 || blowup < 2 || bad_domain::<B>(n, n, blowup, off);
    let polys: Vec<Vec<u128>> = (0..cols).map(|c| gen_coords::<B>(seed.wrapping_add(c as u64), n, d, col_shape(c, n))).collect();
    let r = run(&mut o, format!("{}.rowmat.panic", f), doc, || {
        let cm = ColMatrix::new(polys.iter().map(|c| to_elems::<B, E>(c)).collect::<Vec<Vec<E>>>());
        let rm: RowMatrix<E> = if gen_off {
            RowMatrix::evaluate_polys::<W>(&cm, blowup)
        } else {
            let domain = StarkDomain::from_twiddles(fft::get_twiddles::<B>(n), blowup, B::from_word(off));
            RowMatrix::evaluate_polys_over::<W>(&cm, &domain)
        };
        let rows = rm.num_rows();
        let ncols = rm.num_cols();
        let cells: Vec<Vec<u128>> = (0..rows).map(|r| coords_of::<B, E>(rm.row(r))).collect();
        let data: Vec<u128> = rm.data().iter().map(|x| x.canon()).collect();
        // `get` agrees with `row`
        let mut get_ok = true;
        for r in [0, rows / 2, rows - 1] {
            for c in 0..ncols {
                if coords_of::<B, E>(&[rm.get(c, r)])[..] != cells[r][c * d..(c + 1) * d] {
                    get_ok = false;
                }
            }
        }
        (rows, ncols, cells, data, get_ok)
    });
    if let Some((rows, ncols, cells, data, get_ok)) = r {
        let flat: Vec<u128> = cells.iter().flatten().cloned().collect();
        o.out = format!("{} {} {} {}", rows, ncols, summary(&flat, d), summary(&data, 1));
        let m = B::MOD;
        if rows != n * blowup || ncols != cols {
            o = o.fail(format!("{}.rowmat.shape", f), format!("{}x{} expected {}x{}", rows, ncols, n * blowup, cols));
            return o;
        }
        if !get_ok {
            o = o.fail(format!("{}.rowmat.get", f), "get(col,row) != row(row)[col]");
        }
        // layout of the flat data: row-major, row width = segments * W, padding zero
        let base_cols = cols * d;
        let width = (base_cols + W - 1) / W * W;
        if data.len() != rows * width {
            o = o.fail(format!("{}.rowmat.data-len", f), format!("{} != {}*{}", data.len(), rows, width));
        } else {
            'outer: for r in 0..rows {
                for c in 0..width {
                    let want = if c < base_cols { cells[r][c] } else { 0 };
                    if data[r * width + c] != want {
                        o = o.fail(format!("{}.rowmat.layout", f), format!("data[{}*{}+{}]", r, width, c));
                        break 'outer;
                    }
                }
            }
        }
        let w = match omega::<B>(rows) {
            Ok(w) => w,
            Err(e) => return o.fail(format!("{}.rowmat.domain", f), e),
        };
        // rows checked: all when affordable, otherwise sampled; every column of a checked row is checked
        let cost_per_row = n * cols * d;
        let rows_checked = positions(rows, cost_per_row, budget::<B>() * 2, seed);
        'rows: for r in rows_checked {
            let x = mm(off % m, pm(w, r as u128, m), m);
            for c in 0..cols {
                let e = horner(&polys[c], d, x, m);
                if e[..] != cells[r][c * d..(c + 1) * d] {
                    o = o.fail(
                        format!("{}.rowmat.value", f),
                        format!("cell (row {}, col {}) = {:?}, polynomial {} at off*w^{} = {:?}", r, c, &cells[r][c * d..(c + 1) * d], c, r, e),
                    );
                    break 'rows;
                }
            }
        }
    }
    o
}

/// the non-zero pattern a caller's buffer is pre-filled with (fill mode 1)
fn garbage_word(r: usize, s: usize, w: usize) -> u128 {
    ((r * w + s + 1) as u128 * 2654435761) & 0xFFFF_FFFF_FFFF_FFFF
}

/// `Segment::new_with_buffer` for every segment of the matrix with caller-supplied storage, `RowMatrix::from_segments`,
/// `build_segments`: every real cell must be the evaluation of its column at off·ω^row whatever the buffer held before
fn segbuf<B: Fld, E: FieldElement<BaseField = B>, const W: usize>(
    n: usize,
    cols: usize,
    seed: u64,
    blowup: usize,
    off: u128,
    fill: usize,
    sh: Shape,
) -> Outcome {
    let d = E::EXTENSION_DEGREE;
    let f = B::NAME;
    let m = B::MOD;
    let mut o = Outcome::ok("");
    let doc = cols == 0 || blowup < 2 || fill > 2 || bad_domain::<B>(n, n, blowup, off.max(1));
    let polys: Vec<Vec<u128>> = (0..cols).map(|c| gen_coords::<B>(seed.wrapping_add(c as u64), n, d, sh)).collect();
    let r = run(&mut o, format!("{}.segbuf.panic", f), doc, || {
        let cm = ColMatrix::new(polys.iter().map(|c| to_elems::<B, E>(c)).collect::<Vec<Vec<E>>>());
        let offsets = get_evaluation_offsets::<E>(n, blowup, B::from_word(off));
        let tw = fft::get_twiddles::<B>(n);
        let base_cols = cm.num_base_cols();
        let nseg = (base_cols + W - 1) / W;
        // storage "left over from a previous, different call": a segment of another matrix
        let other = ColMatrix::new(
            (0..cols)
                .map(|c| to_elems::<B, E>(&gen_coords::<B>(seed.wrapping_add(7777 + c as u64), n, d, Shape::Rand)))
                .collect::<Vec<Vec<E>>>(),
        );
        let mut prev: Vec<[B; W]> = Segment::<B, W>::new(&other, 0, &offsets, &tw).into_data();
        let mut segs: Vec<Segment<B, W>> = vec![];
        for i in 0..nseg {
            let buffer: Vec<[B; W]> = match fill {
                0 => vec![[B::ZERO; W]; n * blowup],
                1 => (0..n * blowup).map(|r| core::array::from_fn(|s| B::from_word(garbage_word(r, s, W)))).collect(),
                _ => prev.clone(),
            };
            let seg = Segment::<B, W>::new_with_buffer(buffer, &cm, i * W, &offsets, &tw);
            prev = seg.clone().into_data();
            segs.push(seg);
        }
        let seg_data: Vec<Vec<Vec<u128>>> =
            segs.iter().map(|sg| sg.iter().map(|row| row.iter().map(|x| x.canon()).collect()).collect()).collect();
        let built: Vec<Vec<Vec<u128>>> = build_segments::<E, W>(&cm, &tw, &offsets)
            .iter()
            .map(|sg| sg.iter().map(|row| row.iter().map(|x| x.canon()).collect()).collect())
            .collect();
        let rm: RowMatrix<E> = RowMatrix::from_segments(segs, base_cols);
        let cells: Vec<Vec<u128>> = (0..rm.num_rows()).map(|r| coords_of::<B, E>(rm.row(r))).collect();
        let data: Vec<u128> = rm.data().iter().map(|x| x.canon()).collect();
        (rm.num_rows(), rm.num_cols(), cells, data, seg_data, built)
    });
    if let Some((rows, ncols, cells, data, seg_data, built)) = r {
        let flat: Vec<u128> = cells.iter().flatten().cloned().collect();
        o.out = format!("{} {} {} {}", rows, ncols, summary(&flat, d), summary(&data, 1));
        if rows != n * blowup || ncols != cols {
            return o.fail(format!("{}.segbuf.shape", f), format!("{}x{} expected {}x{}", rows, ncols, n * blowup, cols));
        }
        let base_cols = cols * d;
        // the segments themselves, and build_segments, agree with the matrix on every real column
        'cross: for r in 0..rows {
            for bc in 0..base_cols {
                let want = cells[r][bc];
                if seg_data[bc / W][r][bc % W] != want {
                    o = o.fail(format!("{}.segbuf.segment", f), format!("segment {} row {} slot {} differs from the matrix cell", bc / W, r, bc % W));
                    break 'cross;
                }
                if built[bc / W][r][bc % W] != want {
                    o = o.fail(
                        format!("{}.segbuf.build_segments", f),
                        format!("new_with_buffer (fill {}) and build_segments differ at row {} base column {}", fill, r, bc),
                    );
                    break 'cross;
                }
            }
        }
        let w = match omega::<B>(rows) {
            Ok(w) => w,
            Err(e) => return o.fail(format!("{}.segbuf.domain", f), e),
        };
        let cost_per_row = n * cols * d;
        'rows: for r in positions(rows, cost_per_row, budget::<B>(), seed) {
            let x = mm(off % m, pm(w, r as u128, m), m);
            for c in 0..cols {
                let e = horner(&polys[c], d, x, m);
                if e[..] != cells[r][c * d..(c + 1) * d] {
                    o = o.fail(
                        format!("{}.segbuf.value", f),
                        format!("cell (row {}, col {}) = {:?}, polynomial {} at off*w^{} = {:?} (buffer fill mode {})", r, c, &cells[r][c * d..(c + 1) * d], c, r, e, fill),
                    );
                    break 'rows;
                }
            }
        }
    }
    o
}

// ------------------------------------------------------------------------------------ a minimal AIR
/// An AIR that only carries a context: trace length, one transition constraint of the given degree, one assertion.
/// `StarkDomain::new(&air)` reads its trace length, constraint-evaluation and LDE domain sizes and the offset.
struct MiniAir<B: StarkField> {
    ctx: AirContext<B>,
}

impl<B: StarkField + ExtensibleField<2> + ExtensibleField<3>> Air for MiniAir<B> {
    type BaseField = B;
    type PublicInputs = ();
    type GkrProof = ();
    type GkrVerifier = ();
    fn new(trace_info: TraceInfo, _pub_inputs: (), options: ProofOptions) -> Self {
        MiniAir { ctx: AirContext::new(trace_info, vec![TransitionConstraintDegree::new(2)], 1, options) }
    }
    fn context(&self) -> &AirContext<B> {
        &self.ctx
    }
    fn evaluate_transition<E: FieldElement<BaseField = B>>(&self, _f: &EvaluationFrame<E>, _p: &[E], result: &mut [E]) {
        for r in result.iter_mut() {
            *r = E::ZERO;
        }
    }
    fn get_assertions(&self) -> Vec<Assertion<B>> {
        vec![Assertion::single(0, 0, B::ZERO)]
    }
}

/// the constraint-evaluation blowup the AIR context derives from a constraint of degree `deg` (no periodic columns):
/// the smallest power of two ≥ deg - 1, at least 2
fn ce_blowup_of(deg: usize) -> usize {
    let mut b = 1usize;
    while b < deg.saturating_sub(1) {
        b *= 2;
    }
    b.max(2)
}

/// `StarkDomain::new(&air)` with an LDE blowup `lde` and a constraint-evaluation blowup derived from `deg`; the
/// accessors against independently computed values; both matrix evaluations over the LDE coset GENERATOR·ω_lde^i
fn airdom<B: Fld + ExtensibleField<2> + ExtensibleField<3>, E: FieldElement<BaseField = B>, const W: usize>(
    n: usize,
    cols: usize,
    seed: u64,
    lde: usize,
    deg: usize,
) -> Outcome {
    let d = E::EXTENSION_DEGREE;
    let f = B::NAME;
    let m = B::MOD;
    let mut o = Outcome::ok("");
    let ce = ce_blowup_of(deg);
    // documented: TraceInfo (length ≥ 8, power of two, width 1..255), ProofOptions (blowup a power of two in 2..128),
    // TransitionConstraintDegree (degree ≥ 1), AirContext (blowup ≥ constraint-evaluation blowup), ColMatrix (≥ 1 column)
    let doc = cols == 0
        || deg == 0
        || !pow2(n)
        || n < 8
        || !pow2(lde)
        || !(2..=128).contains(&lde)
        || lde < ce
        || (n * lde).trailing_zeros() > B::TWO_ADICITY;
    let polys: Vec<Vec<u128>> = (0..cols).map(|c| gen_coords::<B>(seed.wrapping_add(c as u64), n, d, col_shape(c, n))).collect();
    let r = run(&mut o, format!("{}.airdom.panic", f), doc, || {
        let options = ProofOptions::new(1, lde, 0, FieldExtension::None, 4, 31);
        let ctx = AirContext::<B>::new(
            TraceInfo::new(cols.clamp(1, 255), n),
            vec![TransitionConstraintDegree::new(deg)],
            1,
            options,
        );
        let air = MiniAir { ctx };
        let dom = StarkDomain::new(&air);
        let acc = (
            dom.trace_length(),
            dom.lde_domain_size(),
            dom.ce_domain_size(),
            dom.trace_to_lde_blowup(),
            dom.trace_to_ce_blowup(),
            dom.ce_to_lde_blowup(),
            dom.offset().canon(),
            dom.trace_twiddles().iter().map(|x| x.canon()).collect::<Vec<u128>>(),
            dom.ce_domain_generator().canon(),
            [0usize, 1, n * ce / 2, n * ce - 1].map(|s| dom.get_ce_x_at(s).canon()),
        );
        // get_ce_x_power_at(step, power, offset^power) = (offset * g_ce^step)^power, also for step*power beyond the domain
        let xpow: Vec<(usize, u64, u128)> = [(0usize, 1u64), (1, 1), (1, 2), (3, 5), (n * ce - 1, 2), (n * ce - 1, (n * ce - 1) as u64), (n * ce / 2, 3), (5, n as u64), (7, (n * ce) as u64 + 1)]
            .iter()
            .map(|(s, p)| (*s, *p, dom.get_ce_x_power_at(*s, *p, dom.offset().exp((*p).into())).canon()))
            .collect();
        let cm = ColMatrix::new(polys.iter().map(|c| to_elems::<B, E>(c)).collect::<Vec<Vec<E>>>());
        let lde_cols = cm.evaluate_columns_over(&dom);
        let lc: Vec<Vec<u128>> = (0..cols).map(|c| coords_of::<B, E>(lde_cols.get_column(c))).collect();
        let rm: RowMatrix<E> = RowMatrix::evaluate_polys_over::<W>(&cm, &dom);
        let cells: Vec<Vec<u128>> = (0..rm.num_rows()).map(|r| coords_of::<B, E>(rm.row(r))).collect();
        let data: Vec<u128> = rm.data().iter().map(|x| x.canon()).collect();
        (acc, lde_cols.num_rows(), lde_cols.num_cols(), lc, rm.num_rows(), rm.num_cols(), cells, data, xpow)
    });
    if let Some((acc, crows, ccols, lc, rrows, rcols, cells, data, xpow)) = r {
        let (tl, lds, ces, t2l, t2c, c2l, off, tw, ceg, cex) = acc;
        let flat_l: Vec<u128> = lc.iter().flatten().cloned().collect();
        let flat_c: Vec<u128> = cells.iter().flatten().cloned().collect();
        o.out = format!(
            "{} {} {} {} {} {} {} {} | {} {} {} | {} {} {} {}",
            tl,
            lds,
            ces,
            t2l,
            t2c,
            c2l,
            off,
            summary(&tw, 1),
            crows,
            ccols,
            summary(&flat_l, d),
            rrows,
            rcols,
            summary(&flat_c, d),
            summary(&data, 1)
        );
        // ---- accessors against independently computed values
        let g = B::GENERATOR.canon();
        let mut bad: Vec<String> = vec![];
        if tl != n {
            bad.push(format!("trace_length {} != {}", tl, n));
        }
        if lds != n * lde {
            bad.push(format!("lde_domain_size {} != {}", lds, n * lde));
        }
        if ces != n * ce {
            bad.push(format!("ce_domain_size {} != {}", ces, n * ce));
        }
        if t2l != lde {
            bad.push(format!("trace_to_lde_blowup {} != {}", t2l, lde));
        }
        if t2c != ce {
            bad.push(format!("trace_to_ce_blowup {} != {}", t2c, ce));
        }
        if c2l != lde / ce {
            bad.push(format!("ce_to_lde_blowup {} != {}", c2l, lde / ce));
        }
        if off != g {
            bad.push(format!("offset {} != GENERATOR {}", off, g));
        }
        match (omega::<B>(n), omega::<B>(n * ce)) {
            (Ok(w), Ok(wce)) => {
                if tw.len() != n / 2 {
                    bad.push(format!("{} trace twiddles, expected {}", tw.len(), n / 2));
                } else {
                    let k = n.trailing_zeros();
                    for i in 0..n / 2 {
                        if tw[i] != pm(w, brev(k - 1, i as u128), m) {
                            bad.push(format!("trace twiddle {} is not w^bitrev({})", i, i));
                            break;
                        }
                    }
                }
                if ceg != wce {
                    bad.push("ce_domain_generator is not the root of unity of the constraint-evaluation domain".into());
                }
                for (s, x) in [0usize, 1, n * ce / 2, n * ce - 1].iter().zip(cex.iter()) {
                    if *x != mm(pm(wce, *s as u128, m), g, m) {
                        bad.push(format!("get_ce_x_at({}) is not offset*g_ce^{}", s, s));
                    }
                }
                for (s, p, x) in xpow.iter() {
                    if *x != pm(mm(pm(wce, *s as u128, m), g, m), *p as u128, m) {
                        bad.push(format!("get_ce_x_power_at({}, {}) is not (offset*g_ce^{})^{}", s, p, s, p));
                    }
                }
            },
            (Err(e), _) | (_, Err(e)) => bad.push(e),
        }
        if !bad.is_empty() {
            o = o.fail(format!("{}.airdom.accessor", f), bad.join("; "));
        }
        // ---- both matrix evaluations: n*lde rows over the LDE coset GENERATOR·ω_lde^i
        if crows != n * lde || ccols != cols {
            o = o.fail(
                format!("{}.airdom.cols.shape", f),
                format!("evaluate_columns_over returned {}x{}, the LDE domain has {} points and there are {} columns", crows, ccols, n * lde, cols),
            );
        } else {
            let per_col = budget::<B>() / cols.max(1);
            for c in 0..cols {
                let before = o.fails.len();
                o = check_evals_budget::<B>(o, "airdom.cols", &polys[c], d, &lc[c], n * lde, g, seed ^ c as u64, per_col);
                if o.fails.len() > before {
                    break;
                }
            }
        }
        if rrows != n * lde || rcols != cols {
            o = o.fail(
                format!("{}.airdom.rows.shape", f),
                format!("evaluate_polys_over returned {}x{}, expected {}x{}", rrows, rcols, n * lde, cols),
            );
        } else {
            let base_cols = cols * d;
            let width = (base_cols + W - 1) / W * W;
            if data.len() != rrows * width {
                o = o.fail(format!("{}.airdom.rows.data-len", f), format!("{} != {}*{}", data.len(), rrows, width));
            }
            match omega::<B>(rrows) {
                Err(e) => o = o.fail(format!("{}.airdom.rows.domain", f), e),
                Ok(w) => {
                    let cost_per_row = n * cols * d;
                    'rows: for r in positions(rrows, cost_per_row, budget::<B>(), seed) {
                        let x = mm(g, pm(w, r as u128, m), m);
                        for c in 0..cols {
                            let e = horner(&polys[c], d, x, m);
                            if e[..] != cells[r][c * d..(c + 1) * d] {
                                o = o.fail(
                                    format!("{}.airdom.rows.value", f),
                                    format!("cell (row {}, col {}) is not polynomial {} at GENERATOR*w_lde^{}", r, c, c, r),
                                );
                                break 'rows;
                            }
                        }
                    }
                },
            }
        }
    }
    o
}

fn exec_u(t: &[&str]) -> Outcome {
    match t {
        ["selfcheck", seed] => {
            // the division-free helpers of this file against the reference oracle
            let Some(seed) = p64(seed) else { return Outcome::ok("bad-op") };
            let mut g = Sm(seed);
            let mut o = Outcome::ok("ok");
            for m in [M64, M62, M128] {
                for _ in 0..64 {
                    let a = (((g.next() as u128) << 64) | g.next() as u128) % m;
                    let b = (((g.next() as u128) << 64) | g.next() as u128) % m;
                    let e = g.next() as u128;
                    if mm(a, b, m) != mulmod(a, b, m) || am(a, b, m) != addmod(a, b, m) || pm(a, e, m) != powmod(a, e, m) {
                        o = o.fail("u.selfcheck", format!("{} {} {} mod {}", a, b, e, m));
                    }
                }
                for (a, b) in [(0, 0), (m - 1, m - 1), (m - 1, 1), (1, m - 1), (m - 1, 2), (m / 2, 2), (m / 2 + 1, 2)] {
                    if mm(a, b, m) != mulmod(a, b, m) || am(a, b, m) != addmod(a, b, m) {
                        o = o.fail("u.selfcheck", format!("{} {} mod {}", a, b, m));
                    }
                }
            }
            o
        },
        ["permidx", size, index] => {
            let (Some(size), Some(index)) = (pu(size), pu(index)) else { return Outcome::ok("bad-op") };
            let mut o = Outcome::ok("");
            // debug assertions: index < size, size a power of two
            let doc = !pow2(size) || index >= size;
            if let Some(j) = run(&mut o, "u.permidx.panic".into(), doc, || fft::permute_index(size, index)) {
                o.out = format!("{}", j);
                let k = size.trailing_zeros();
                if j as u128 != brev(k, index as u128) {
                    o = o.fail("u.permidx.value", format!("{} is not the {}-bit reversal of {}", j, k, index));
                } else if fft::permute_index(size, j) != index {
                    o = o.fail("u.permidx.involution", "");
                }
            }
            o
        },
        _ => Outcome::ok("bad-op"),
    }
}

// ------------------------------------------------------------------------------------ gen
fn gen_all(rng: &mut Rng, tier: Tier, nrand: usize, emit: &mut dyn FnMut(String)) {
    let thorough = tier == Tier::Thorough;
    let maxk: u32 = if thorough { 14 } else { 12 };
    let fields: [(&str, &[usize], u128); 3] = [("f64", &[1, 2, 3], M64), ("f62", &[1, 2, 3], M62), ("f128", &[1, 2], M128)];
    // generator, two-adic root and two-adicity of each field (for structured offsets)
    fn consts<B: Fld>() -> (u128, u128, u32) {
        (B::GENERATOR.canon(), B::TWO_ADIC_ROOT_OF_UNITY.canon(), B::TWO_ADICITY)
    }
    let fconsts = [consts::<f64::BaseElement>(), consts::<f62::BaseElement>(), consts::<f128::BaseElement>()];
    let rnd_off = |rng: &mut Rng, m: u128| -> String {
        let v = rng.u128() % (m - 1) + 1;
        format!("{}", v)
    };
    // ---- permute_index: every index of small sizes, ends of large ones
    for k in 0..=6u32 {
        for i in 0..(1usize << k) {
            emit(format!("u permidx {} {}", 1usize << k, i));
        }
    }
    for k in [7u32, 8, 9, 10, 11, 16, 20, 31, 32, 33, 47, 62, 63] {
        let size = 1u64 << k;
        for i in [0u64, 1, 2, 3, size / 2 - 1, size / 2, size / 2 + 1, size - 2, size - 1] {
            emit(format!("u permidx {} {}", size, i));
        }
        for _ in 0..4 {
            emit(format!("u permidx {} {}", size, rng.below(size)));
        }
    }
    // malformed: size not a power of two, index out of range
    for (s, i) in [(0u64, 0u64), (3, 1), (6, 5), (8, 8), (8, 9), (1, 1), (12, 3)] {
        emit(format!("u permidx {} {}", s, i));
    }
    for (fi, (f, exts, m)) in fields.iter().enumerate() {
        let (gen_c, root_c, adicity) = fconsts[fi];
        // offsets: 1, GENERATOR, GENERATOR^-1, -1, an element of order 4, an element of the subgroup of order 2^j, random
        let special_offsets = |rng: &mut Rng, j: u32| -> Vec<String> {
            let w = |k: u32| powmod(root_c, 1u128 << (adicity - k.min(adicity)), *m);
            vec![
                "1".to_string(),
                "g".to_string(),
                format!("{}", invmod(gen_c, *m)),
                format!("{}", *m - 1),
                format!("{}", w(2)),
                format!("{}", w(j.max(1))),
                format!("{}", mulmod(gen_c, w(j.max(1)), *m)),
                rnd_off(rng, *m),
            ]
        };
        for &d in exts.iter() {
            let base = d == 1;
            // ---- structured data: zero, constants, monomials, zero high coefficients, all-equal / alternating / single
            // non-zero vectors, boundary values, interior zeros — as coefficients and as evaluations
            let shape_ks: &[u32] = if base { &[1, 2, 3, 5, 8] } else { &[2, 5] };
            for &k in shape_ks {
                let n = 1usize << k;
                let shapes: Vec<String> = vec![
                    "z".into(), "a".into(), "t".into(), "b".into(), "i".into(), "m0".into(), "m1".into(), format!("m{}", n - 1),
                    format!("m{}", n / 2), "s0".into(), format!("s{}", n - 1), format!("s{}", n / 2), "0".into(), "1".into(),
                    format!("{}", n / 2), format!("{}", n - 2),
                ];
                let offs = special_offsets(rng, k + 2);
                for (j, sh) in shapes.iter().enumerate() {
                    let off = &offs[(j + k as usize) % offs.len()];
                    emit(format!("{} {} evalo {} {} {} {} {} {}", f, d, n, n, rng.u64(), sh, 1usize << (j % 4), off));
                    emit(format!("{} {} deg {} {} {} {}", f, d, n, rng.u64(), sh, off));
                    if j % 2 == 0 || k == 3 {
                        emit(format!("{} {} eval {} {} {} {}", f, d, n, n, rng.u64(), sh));
                        emit(format!("{} {} rt {} {} {} {}", f, d, n, rng.u64(), sh, off));
                    }
                    if j < 12 {
                        emit(format!("{} {} interp {} {} {} {}", f, d, n, n, rng.u64(), sh));
                        emit(format!("{} {} interpo {} {} {} {} {}", f, d, n, n, rng.u64(), off, sh));
                    }
                }
            }
            // ---- every offset class for every offset-taking entry point (offset inside / outside the subgroup, -1, g^-1)
            for k in [1u32, 3, 6] {
                let n = 1usize << k;
                for bk in [0u32, 2] {
                    for off in special_offsets(rng, k + bk) {
                        emit(format!("{} {} evalo {} {} {} r {} {}", f, d, n, n, rng.u64(), 1usize << bk, off));
                        if bk == 0 {
                            emit(format!("{} {} interpo {} {} {} {}", f, d, n, n, rng.u64(), off));
                            emit(format!("{} {} rt {} {} r {}", f, d, n, rng.u64(), off));
                            emit(format!("{} {} deg {} {} {} {}", f, d, n, rng.u64(), n / 2, off));
                        } else if k <= 3 {
                            emit(format!("{} {} rowmat {} 3 {} {} {} 4", f, d, n.max(2), rng.u64(), 1usize << bk, off));
                            emit(format!("{} {} colmat {} 3 {} {} {}", f, d, n.max(2), rng.u64(), 1usize << bk, off));
                        }
                    }
                }
            }
            // ---- MAX_LOOP = 256 (`stride == count && count < MAX_LOOP`): count/stride on, below and above it
            if base || d == 2 {
                for (n, cnt, st, of) in [
                    (2048usize, 128usize, 128usize, 0usize), (2048, 255, 256, 0), (2048, 255, 256, 1), (2048, 256, 256, 0), (2048, 1, 256, 255),
                    (2048, 256, 512, 0), (2048, 257, 512, 0), (2048, 257, 512, 255), (2048, 512, 512, 0), (1024, 256, 256, 0), (1024, 255, 256, 1),
                    (1024, 128, 128, 0), (1024, 127, 128, 1), (512, 256, 256, 0), (512, 128, 128, 0), (4096, 256, 256, 0), (4096, 512, 512, 0),
                ] {
                    if !base && n > 1024 {
                        continue;
                    }
                    emit(format!("{} {} fftraw {} {} {} {} {}", f, d, n, rng.u64(), cnt, st, of));
                }
            }
            // ---- segment width N: number of base columns on, below and above N and 2N
            for w in [1usize, 3, 4, 8, 16] {
                for cols in [w - 1, w, w + 1, 2 * w - 1, 2 * w, 2 * w + 1] {
                    if cols == 0 || (!base && (cols + w) % 2 == 1) {
                        continue;
                    }
                    emit(format!("{} {} rowmat 8 {} {} 2 g {}", f, d, cols, rng.u64(), w));
                }
            }
            // ---- caller-supplied storage: Segment::new_with_buffer over zeroed / garbage / reused buffers, base-column
            // counts 1..2N+1 for every width, columns that are random, all-zero, sparse, padded with zero high
            // coefficients, or have a single zero coefficient; blowups 2..16
            {
                let shapes = ["r", "z", "i", "2", "0", "h0", "h3", "h7", "m1", "5", "t", "s4"];
                let mut j = 0usize;
                for w in [1usize, 2, 3, 4, 8, 16] {
                    let max_cols = (2 * w + 1 + d - 1) / d + 1;
                    for cols in 1..=max_cols {
                        for fill in 0..3usize {
                            j += 1;
                            // the library's own width and every partially filled shape in full; the others in rotation
                            if w != 8 && !base && (j + fill) % 2 == 0 {
                                continue;
                            }
                            let sh = shapes[j % shapes.len()];
                            let blowup = [2usize, 4, 8, 16][j % 4];
                            let off = if j % 3 == 0 { rnd_off(rng, *m) } else { "g".to_string() };
                            emit(format!("{} {} segbuf 8 {} {} {} {} {} {} {}", f, d, cols, rng.u64(), blowup, off, w, fill, sh));
                        }
                    }
                }
                // a single zero coefficient at each position, zero / padded columns, in a partially filled segment of the
                // library's width, garbage and reused storage
                for fill in 1..3usize {
                    for k in 0..8usize {
                        emit(format!("{} {} segbuf 8 3 {} 4 g 8 {} h{}", f, d, rng.u64(), fill, k));
                    }
                    for sh in ["z", "0", "3", "i", "r"] {
                        emit(format!("{} {} segbuf 16 3 {} 4 g 8 {} {}", f, d, rng.u64(), fill, sh));
                        emit(format!("{} {} segbuf 8 11 {} 2 g 8 {} {}", f, d, rng.u64(), fill, sh));
                    }
                }
                if base {
                    emit(format!("{} {} segbuf 256 9 {} 8 g 8 2 3", f, d, rng.u64()));
                    emit(format!("{} {} segbuf 512 3 {} 2 g 8 1 100", f, d, rng.u64()));
                }
                // malformed: buffer-independent preconditions
                emit(format!("{} {} segbuf 8 0 {} 2 g 8 1 r", f, d, rng.u64()));
                emit(format!("{} {} segbuf 8 3 {} 1 g 8 1 r", f, d, rng.u64()));
                emit(format!("{} {} segbuf 6 3 {} 2 g 8 1 r", f, d, rng.u64()));
            }
            // ---- LDE domain size on both sides of 1024 (segments' MIN_CONCURRENT_SIZE) with a ragged last segment
            if base || d == 2 {
                for (k, blowup) in [(7u32, 4usize), (7, 8), (8, 2), (8, 4), (8, 8), (9, 2), (9, 4)] {
                    if !base && blowup != 4 {
                        continue;
                    }
                    emit(format!("{} {} rowmat {} 9 {} {} g 8", f, d, 1usize << k, rng.u64(), blowup));
                }
            }
            // ---- sizes beyond 2^16 (casts to u32 / u16-sized quantities): oracle on sampled positions, not modelled
            if *f != "f128" && d <= 2 {
                for n in [65536usize, 131072] {
                    if !base && n > 65536 {
                        continue;
                    }
                    emit(format!("{} {} interp {} {} {}", f, d, n, n, rng.u64()));
                    emit(format!("{} {} interpo {} {} {} g", f, d, n, n, rng.u64()));
                    emit(format!("{} {} evalo {} {} {} r 2 g", f, d, n, n, rng.u64()));
                    if base {
                        emit(format!("{} {} eval {} {} {} {}", f, d, n, n, rng.u64(), n / 2));
                        emit(format!("{} {} rt {} {} r g", f, d, n, rng.u64()));
                        emit(format!("{} {} deg {} {} {} g", f, d, n, rng.u64(), n - 1));
                    }
                }
            }
            if !base {
                emit(format!("{} {} perm 8 {}", f, d, rng.u64()));
                emit(format!("{} {} perm 1024 {}", f, d, rng.u64()));
                if d == 2 {
                    emit(format!("{} {} rowmat 1024 5 {} 2 g 8", f, d, rng.u64()));
                    emit(format!("{} {} colmat 1024 5 {} 2 g", f, d, rng.u64()));
                }
            }
            // ---- the building blocks of FftInputs directly (public trait methods), on both container kinds: a slice of
            // elements (W = 0) and a slice of rows [E; W] (the column-batched form; Segment only ever uses base-field rows)
            {
                let tws = [0u128, 1, *m - 1, rng.u128() % *m, gen_c];
                let mut j = 0usize;
                for w in [0usize, 1, 3, 8, 2, 4] {
                    for (i, st) in [(0usize, 1usize), (0, 4), (3, 4), (6, 1), (2, 2), (7, 1), (0, 8), (8, 1)] {
                        j += 1;
                        if w > 1 && w != 8 && j % 2 == 0 {
                            continue;
                        }
                        emit(format!("{} {} bfly 8 {} {} {} {} {}", f, d, rng.u64(), i, st, tws[j % tws.len()], w));
                    }
                    emit(format!("{} {} bfly 2 {} 0 1 {} {}", f, d, rng.u64(), tws[(j + 1) % tws.len()], w));
                    for n in [0usize, 1, 2, 8, 33] {
                        for (oi, (off, inc)) in [("1", "1"), ("g", "1"), ("1", "g"), ("0", "5"), ("r", "r"), ("-1", "-1")].iter().enumerate() {
                            if (n + oi + w) % 2 == 0 && !(n == 8 && w == 0) {
                                continue;
                            }
                            let val = |rng: &mut Rng, s: &str| match s {
                                "r" => rnd_off(rng, *m),
                                "-1" => format!("{}", *m - 1),
                                _ => s.to_string(),
                            };
                            emit(format!("{} {} shift {} {} {} {} {}", f, d, n, rng.u64(), val(rng, off), val(rng, inc), w));
                        }
                    }
                }
                for k in 1..=8u32 {
                    let w = [1usize, 2, 3, 4, 8][(k as usize + d) % 5];
                    emit(format!("{} {} fftn {} {} {}", f, d, 1usize << k, rng.u64(), w));
                    if k <= 4 {
                        emit(format!("{} {} fftn {} {} 8", f, d, 1usize << k, rng.u64()));
                    }
                }
                if base {
                    emit(format!("{} {} fftn 512 {} 8", f, d, rng.u64()));
                    emit(format!("{} {} fftn 1024 {} 3", f, d, rng.u64()));
                }
                for n in [0usize, 1, 3, 6] {
                    emit(format!("{} {} fftn {} {} 4", f, d, n, rng.u64()));
                }
            }
            // ---- every size, every transform, offsets 1 / generator / random
            for k in 1..=maxk {
                let n = 1usize << k;
                // the extension fields run every second size above 2^8 in the quick tier
                if !base && !thorough && k > 8 && k % 2 == 1 && k != 9 && k != 11 {
                    continue;
                }
                let s = rng.u64();
                emit(format!("{} {} eval {} {} {} r", f, d, n, n, s));
                emit(format!("{} {} fft {} {} {}", f, d, n, n, rng.u64()));
                emit(format!("{} {} interp {} {} {}", f, d, n, n, rng.u64()));
                for off in ["1".to_string(), "g".to_string(), rnd_off(rng, *m)] {
                    emit(format!("{} {} evalo {} {} {} r 1 {}", f, d, n, n, rng.u64(), off));
                    emit(format!("{} {} interpo {} {} {} {}", f, d, n, n, rng.u64(), off));
                }
                emit(format!("{} {} rt {} {} r {}", f, d, n, rng.u64(), rnd_off(rng, *m)));
                if base {
                    emit(format!("{} {} tw {}", f, d, n));
                    emit(format!("{} {} perm {} {}", f, d, n, rng.u64()));
                }
            }
            // ---- blowups 1..128 (domain kept ≤ 2^16 quick / 2^18 thorough), each offset class
            let dom_cap: usize = if thorough { 1 << 18 } else { 1 << 16 };
            for bk in 0..=7u32 {
                let blowup = 1usize << bk;
                for k in [1u32, 2, 3, 5, 8, 9, 10, 11, 12] {
                    let n = 1usize << k;
                    if n * blowup > dom_cap || (!base && k > 10 && !thorough) {
                        continue;
                    }
                    let off = match (k + bk) % 3 {
                        0 => "1".to_string(),
                        1 => "g".to_string(),
                        _ => rnd_off(rng, *m),
                    };
                    emit(format!("{} {} evalo {} {} {} r {} {}", f, d, n, n, rng.u64(), blowup, off));
                }
            }
            // ---- degrees: every degree (and the zero polynomial) for n ≤ 32, boundary degrees above
            for k in 1..=5u32 {
                let n = 1usize << k;
                for deg in 0..n {
                    emit(format!("{} {} deg {} {} {} {}", f, d, n, rng.u64(), deg, if deg % 2 == 0 { "g".to_string() } else { rnd_off(rng, *m) }));
                }
                emit(format!("{} {} deg {} {} z g", f, d, n, rng.u64()));
                emit(format!("{} {} deg {} {} r 1", f, d, n, rng.u64()));
            }
            for k in [6u32, 8, 9, 10, 11] {
                let n = 1usize << k;
                if !base && k > 9 && !thorough {
                    continue;
                }
                for deg in [0, 1, 2, n / 2 - 1, n / 2, n / 2 + 1, n - 2, n - 1] {
                    emit(format!("{} {} deg {} {} {} {}", f, d, n, rng.u64(), deg, rnd_off(rng, *m)));
                }
                emit(format!("{} {} deg {} {} z 1", f, d, n, rng.u64()));
                emit(format!("{} {} eval {} {} {} {}", f, d, n, n, rng.u64(), n / 2));
                emit(format!("{} {} eval {} {} {} z", f, d, n, n, rng.u64()));
            }
            // ---- the strided recursion directly: count/stride/offset, around the MAX_LOOP switch (256)
            for k in [1u32, 2, 3, 4, 6, 9, 10, 11] {
                let n = 1usize << k;
                if !base && k > 9 && !thorough {
                    continue;
                }
                for sk in 0..k {
                    let stride = 1usize << sk;
                    // whole array (count = stride), a single sub-sequence, a proper window
                    emit(format!("{} {} fftraw {} {} {} {} 0", f, d, n, rng.u64(), stride, stride));
                    if stride > 1 {
                        let c = rng.below(stride as u64) as usize;
                        emit(format!("{} {} fftraw {} {} 1 {} {}", f, d, n, rng.u64(), stride, c));
                        let cnt = rng.range(1, stride as u64) as usize;
                        let o2 = rng.below((stride - cnt + 1) as u64) as usize;
                        emit(format!("{} {} fftraw {} {} {} {} {}", f, d, n, rng.u64(), cnt, stride, o2));
                    }
                }
            }
            // ---- matrices: 1,7,8,9,16,17,255 columns; segment widths 8 (the prover's) and others
            let mat_ks: &[u32] = if thorough { &[1, 3, 5, 8, 10] } else { &[1, 3, 5, 8] };
            for &cols in [1usize, 7, 8, 9, 16, 17, 255].iter() {
                for &k in mat_ks {
                    let n = 1usize << k;
                    if cols == 255 && k > 5 && !(thorough && k == 8) {
                        continue;
                    }
                    if !base && cols > 17 && k > 3 {
                        continue;
                    }
                    for (ci, (blowup, w)) in [(2usize, 8usize), (8, 8), (4, 4), (2, 1), (16, 16), (4, 3)].into_iter().enumerate() {
                        if (w != 8 && k > 5) || (n * blowup * cols > (1 << 19)) {
                            continue;
                        }
                        // quick tier: the prover's shape (blowup 2, width 8) always, the others in rotation
                        if !thorough && ci != 0 && (ci + k as usize + cols) % 3 != 0 {
                            continue;
                        }
                        let off = if (k + cols as u32) % 2 == 0 { "g".to_string() } else { rnd_off(rng, *m) };
                        emit(format!("{} {} rowmat {} {} {} {} {} {}", f, d, n, cols, rng.u64(), blowup, off, w));
                    }
                    emit(format!("{} {} rowmat {} {} {} 2 g! 8", f, d, n, cols, rng.u64()));
                    if cols <= 17 || k <= 3 {
                        emit(format!("{} {} colmat {} {} {} {} {}", f, d, n, cols, rng.u64(), 1usize << (k % 4), rnd_off(rng, *m)));
                    }
                }
            }
            // ---- domains built by StarkDomain::new(&air): the constraint-evaluation blowup (from the constraint degree)
            // is in general smaller than the LDE blowup; every (ce, lde) pair with ce <= lde, several shapes
            for (deg, ce) in [(1usize, 2usize), (2, 2), (3, 2), (4, 4), (5, 4), (6, 8), (9, 8), (10, 16), (17, 16), (33, 32), (65, 64), (66, 128)] {
                let mut lde = 2usize;
                while lde <= 128 {
                    if lde >= ce {
                        let k = if lde >= 32 { 3 } else { 3 + ((deg + lde.trailing_zeros() as usize) % 3) as u32 };
                        let cols = [1usize, 3, 7, 8, 9, 17][(deg + lde.trailing_zeros() as usize) % 6];
                        let w = [8usize, 8, 4, 3, 1, 16][(deg * 7 + lde.trailing_zeros() as usize) % 6];
                        if base || (deg + lde.trailing_zeros() as usize) % 2 == 0 || thorough {
                            emit(format!("{} {} airdom {} {} {} {} {} {}", f, d, 1usize << k, cols, rng.u64(), lde, deg, w));
                        }
                    }
                    lde *= 2;
                }
            }
            if base {
                // the prover's shapes: degree-2 constraints with blowup 8 / 16, the trace sizes around the thresholds
                for (k, lde, deg) in [(8u32, 8usize, 2usize), (9, 8, 3), (10, 4, 2), (10, 16, 5)] {
                    emit(format!("{} {} airdom {} 9 {} {} {} 8", f, d, 1usize << k, rng.u64(), lde, deg));
                }
            }
            // malformed: blowup below the constraint-evaluation blowup, short trace, zero degree, blowup out of range
            for (n, cols, lde, deg) in [(8usize, 2usize, 2usize, 5usize), (4, 2, 4, 2), (8, 2, 4, 0), (8, 2, 256, 2), (8, 2, 1, 2), (8, 0, 4, 2), (12, 2, 4, 2), (8, 2, 6, 2)] {
                emit(format!("{} {} airdom {} {} {} {} {} 8", f, d, n, cols, rng.u64(), lde, deg));
            }
            // large matrices on both sides of the thresholds (prover's width)
            if base {
                for (k, cols) in [(9u32, 9usize), (10, 8), (10, 17), (11, 7)] {
                    emit(format!("{} {} rowmat {} {} {} 2 g 8", f, d, 1usize << k, cols, rng.u64()));
                    emit(format!("{} {} colmat {} {} {} 2 g", f, d, 1usize << k, cols, rng.u64()));
                }
                emit(format!("{} {} rowmat 8 16 {} 128 g 8", f, d, rng.u64()));
                emit(format!("{} {} rowmat 512 3 {} 128 g 8", f, d, rng.u64()));
            }
            // ---- malformed stream: documented panics
            let s = rng.u64();
            for n in [0usize, 1, 3, 6, 12, 1000] {
                emit(format!("{} {} eval {} {} {} r", f, d, n, n, s));
                emit(format!("{} {} evalo {} {} {} r 2 g", f, d, n, n, s));
                emit(format!("{} {} interp {} {} {}", f, d, n, n, s));
                emit(format!("{} {} interpo {} {} {} g", f, d, n, n, s));
                emit(format!("{} {} fft {} {} {}", f, d, n, n, s));
                emit(format!("{} {} perm {} {}", f, d, n, s));
                emit(format!("{} {} deg {} {} r g", f, d, n, s));
                if base {
                    emit(format!("{} {} tw {}", f, d, n));
                }
            }
            for (n, twn) in [(8usize, 4usize), (8, 16), (4, 2), (2, 4), (16, 8)] {
                emit(format!("{} {} eval {} {} {} r", f, d, n, twn, s));
                emit(format!("{} {} evalo {} {} {} r 4 g", f, d, n, twn, s));
                emit(format!("{} {} interp {} {} {}", f, d, n, twn, s));
                emit(format!("{} {} interpo {} {} {} g", f, d, n, twn, s));
                emit(format!("{} {} fft {} {} {}", f, d, n, twn, s));
            }
            emit(format!("{} {} evalo 8 8 {} r 2 0", f, d, s));
            emit(format!("{} {} evalo 8 8 {} r 2 {}", f, d, s, m));
            emit(format!("{} {} interpo 8 8 {} 0", f, d, s));
            emit(format!("{} {} deg 8 {} 3 0", f, d, s));
            emit(format!("{} {} rt 8 {} r 0", f, d, s));
            for b in [0usize, 3, 6, 12] {
                emit(format!("{} {} evalo 8 8 {} r {} g", f, d, s, b));
            }
            emit(format!("{} {} rowmat 8 3 {} 1 g 8", f, d, s));
            emit(format!("{} {} rowmat 8 0 {} 2 g 8", f, d, s));
            emit(format!("{} {} rowmat 1 3 {} 2 g 8", f, d, s));
            emit(format!("{} {} rowmat 6 3 {} 2 g 8", f, d, s));
            emit(format!("{} {} rowmat 8 3 {} 3 g 8", f, d, s));
            emit(format!("{} {} rowmat 8 3 {} 2 0 8", f, d, s));
            emit(format!("{} {} colmat 8 0 {} 2 g", f, d, s));
            emit(format!("{} {} colmat 1 2 {} 2 g", f, d, s));
            emit(format!("{} {} colmat 8 2 {} 2 0", f, d, s));
            for (cnt, st, of) in [(1usize, 1usize, 1usize), (2, 2, 1), (1, 2, 2), (1, 0, 0), (1, 3, 0), (1, 8, 0), (1, 16, 0), (3, 4, 2)] {
                emit(format!("{} {} fftraw 8 {} {} {} {}", f, d, s, cnt, st, of));
            }
            if base {
                // no subgroup of that size (the assertion fires before anything is allocated)
                let too_big = match *f {
                    "f64" => 1u64 << 33,
                    "f62" => 1u64 << 40,
                    _ => 1u64 << 41,
                };
                emit(format!("{} {} tw {}", f, d, too_big));
            }
        }
    }
    // ---- seeded random cases
    for i in 0..nrand {
        let (f, exts, m) = fields[rng.below(3) as usize];
        let d = *rng.pick(exts);
        let k = if rng.chance(1, 8) { rng.range(9, maxk.min(12) as u64) } else { rng.range(1, 8) } as u32;
        let n = 1usize << k;
        let off = match rng.below(3) {
            0 => "1".to_string(),
            1 => "g".to_string(),
            _ => rnd_off(rng, m),
        };
        let deg = match rng.below(4) {
            0 => "r".to_string(),
            1 => "z".to_string(),
            _ => format!("{}", rng.below(n as u64)),
        };
        match i % 8 {
            0 => emit(format!("{} {} eval {} {} {} {}", f, d, n, n, rng.u64(), deg)),
            1 | 2 => {
                let bk = rng.below(8.min(17 - k as u64));
                emit(format!("{} {} evalo {} {} {} {} {} {}", f, d, n, n, rng.u64(), deg, 1usize << bk, off))
            },
            3 => emit(format!("{} {} interpo {} {} {} {}", f, d, n, n, rng.u64(), off)),
            4 => emit(format!("{} {} deg {} {} {} {}", f, d, n, rng.u64(), deg, off)),
            5 => {
                let sk = rng.below(k as u64) as u32;
                let stride = 1usize << sk;
                let cnt = rng.range(1, stride as u64) as usize;
                let o2 = rng.below((stride - cnt + 1) as u64) as usize;
                emit(format!("{} {} fftraw {} {} {} {} {}", f, d, n, rng.u64(), cnt, stride, o2))
            },
            6 if i % 16 == 6 => {
                let kk = rng.range(3, 6) as u32;
                let cols = rng.range(1, 20) as usize;
                let deg = rng.range(1, 20) as usize;
                let ce = ce_blowup_of(deg);
                let lde = ce << rng.range(0, 3);
                let w = *rng.pick(&[1usize, 3, 4, 8, 8, 16]);
                emit(format!("{} {} airdom {} {} {} {} {} {}", f, d, 1usize << kk, cols, rng.u64(), lde.min(128), deg, w))
            },
            6 => {
                let kk = rng.range(1, 6) as u32;
                let cols = rng.range(1, 40) as usize;
                let w = *rng.pick(&[1usize, 2, 3, 4, 8, 8, 8, 16]);
                emit(format!("{} {} rowmat {} {} {} {} {} {}", f, d, 1usize << kk, cols, rng.u64(), 1usize << rng.range(1, 4), off, w))
            },
            _ => {
                let kk = rng.range(1, 6) as u32;
                let cols = rng.range(1, 20) as usize;
                emit(format!("{} {} colmat {} {} {} {} {}", f, d, 1usize << kk, cols, rng.u64(), 1usize << rng.range(0, 4), off))
            },
        }
    }
}

impl Prop for P {
    fn id(&self) -> &'static str {
        "C09"
    }
    fn gen(&self, rng: &mut Rng, tier: Tier, n: usize, emit: &mut dyn FnMut(String)) {
        let n = default_n(tier, 480, 6000, n);
        // the supervisor (and the model run) hand out contiguous blocks of lines: shuffle so that the
        // expensive cases are spread over the workers
        let mut lines: Vec<String> = vec![];
        gen_all(rng, tier, n, &mut |l| lines.push(l));
        for i in (1..lines.len()).rev() {
            let j = rng.below(i as u64 + 1) as usize;
            lines.swap(i, j);
        }
        for s in 0..4u64 {
            emit(format!("u selfcheck {}", s));
        }
        for l in lines {
            emit(l);
        }
    }
    fn exec(&self, line: &str) -> Outcome {
        let t: Vec<&str> = line.split(' ').collect();
        if t.len() < 2 {
            return Outcome::ok("bad-op");
        }
        type Q<B> = QuadExtension<B>;
        type C<B> = CubeExtension<B>;
        match (t[0], t[1]) {
            ("u", _) => exec_u(&t[1..]),
            ("f64", "1") => exec_e::<f64::BaseElement, f64::BaseElement>(&t[2..]),
            ("f64", "2") => exec_e::<f64::BaseElement, Q<f64::BaseElement>>(&t[2..]),
            ("f64", "3") => exec_e::<f64::BaseElement, C<f64::BaseElement>>(&t[2..]),
            ("f62", "1") => exec_e::<f62::BaseElement, f62::BaseElement>(&t[2..]),
            ("f62", "2") => exec_e::<f62::BaseElement, Q<f62::BaseElement>>(&t[2..]),
            ("f62", "3") => exec_e::<f62::BaseElement, C<f62::BaseElement>>(&t[2..]),
            ("f128", "1") => exec_e::<f128::BaseElement, f128::BaseElement>(&t[2..]),
            ("f128", "2") => exec_e::<f128::BaseElement, Q<f128::BaseElement>>(&t[2..]),
            _ => Outcome::ok("bad-op"),
        }
    }
    fn timeout_ms(&self) -> u64 {
        120_000
    }
    fn panic_site(&self, line: &str) -> Option<String> {
        // exec() catches the implementation's panics itself and decides per call whether the documented
        // preconditions allow them; a panic that escapes is a failure of the harness, reported as such
        let t: Vec<&str> = line.split(' ').collect();
        Some(format!("{}.{}.harness-panic", t.first().unwrap_or(&""), t.get(2).unwrap_or(&"")))
    }
    fn rule(&self) -> &'static str {
        "every transform (evaluate_poly, evaluate_poly_with_offset, interpolate_poly(_with_offset), fft_in_place(_raw), permute, \
         get_(inv_)twiddles, infer_degree, RowMatrix::evaluate_polys(_over), ColMatrix::interpolate_columns/evaluate_columns_over, StarkDomain::from_twiddles and \
         StarkDomain::new(&air) with every pair constraint-evaluation blowup <= LDE blowup and all domain accessors) \
         at every size 2^1..2^12 (2^14 thorough) over f64/f62/f128 and their quadratic/cubic extensions, offsets 1/generator/random, \
         blowups 1..128, 1/7/8/9/16/17/255 columns with segment widths 1/3/4/8/16, every degree for n ≤ 32 and boundary degrees \
         above, count/stride/offset windows of the strided recursion, plus a malformed stream (sizes not powers of two, wrong \
         twiddle length, zero offset, blowup 1 for segments) and seeded random cases; judged by Horner evaluation at off·ω^i \
         (all positions while n·len ≤ budget, sampled positions above); a case is non-trivial when it is distinct and did not panic"
    }
    fn nontrivial(&self, _line: &str, out: &str) -> bool {
        out != "panic" && out != "bad-op"
    }
    fn class(&self, line: &str, out: &str) -> String {
        let t: Vec<&str> = line.split(' ').collect();
        let o = if out == "panic" || out == "hang" || out == "abort" || out == "bad-op" { out } else { "ok" };
        if t.first() == Some(&"u") {
            return format!("u.permidx:{}", o);
        }
        let size = t.get(3).and_then(|s| s.parse::<usize>().ok()).unwrap_or(0);
        let sz = if size >= 1024 { "ge1024" } else { "lt1024" };
        format!("{}.{}.{}.{}:{}", t.first().unwrap_or(&""), t.get(1).unwrap_or(&""), t.get(2).unwrap_or(&""), sz, o)
    }
}

fn main() {
    wf_harness::core::main_for(&P);
}
