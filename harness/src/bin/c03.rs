//! C03: proof integrity — any change to the decoded content of an accepted proof causes rejection.
//!
//! Every op line regenerates one honest proof (deterministic in the configuration), checks that it is
//! accepted, applies a FAMILY of mutations to its serialization and judges every mutant:
//!   * the mutant does not parse (`Proof::from_bytes` fails)                          -> fine
//!   * it parses and its decoded content equals the original's                       -> must be accepted
//!   * it parses, the content differs                                                -> must not be accepted
//! "Content" is the decoded `Proof` structure (`==` of the parsed structures, i.e. equality of the
//! canonical re-encoding), with the two exemptions the property states: the FRI partition count when it
//! maps every queried position to the same committed leaf (decided with the verifier's own query
//! positions), and alternative byte encodings of the same digest (algebraic hashers reduce the words
//! they read; digest-carrying blocks are compared after decoding and re-encoding every digest).
//! The query positions are read off the verifier's own code path: `verify` runs with a recording coin.
//!
//! Op lines (`<cfg>` = `<field> <hasher> <q.b.g.x.f.r> <trace seed> <AirDesc line> <trace meta hex|->`):
//!   flips <cfg> <from bit> <to bit> <step>     single-bit flips of the serialized proof
//!   bytes <cfg> <from byte> <to byte> <step>   every byte replaced by 00, ff, +1, -1
//!   fields <cfg>          every fixed-size field and length prefix x boundary / random values
//!   resize <cfg>          truncation / extension of every length-prefixed block (prefix kept consistent)
//!   sresize <cfg>         structured resize: whole ELEMENTS (field elements, rows, digests, coefficients) dropped
//!                         from / appended to every length-prefixed component — k = 1, a quarter, half, all but
//!                         one; trailing elements dropped, zero elements or copies appended — with every
//!                         enclosing length / count prefix (block lengths, `num_unique_queries`, node counts,
//!                         Lagrange row count, layer count) rewritten so that the mutant parses; in particular
//!                         the remainder truncated to / zero-extended to every power-of-two number of coefficients
//!                         (also run on proofs of DEGENERATE valid traces whose remainder has zero top coefficients)
//!   reorder <cfg>         swapped / substituted / duplicated openings, rows, nodes, layers, commitments
//!   remainder <cfg>       adaptive: remainder + c * (vanishing polynomial of the folded queried points)
//!   partitions <cfg>      every value of the FRI partition-count byte
//!   nonces <cfg> <k>      k other proof-of-work nonces
//!   extras <cfg>          content outside what the verifier consumes: GKR bytes, trace metadata padding,
//!                         trailing bytes inside blocks, extra FRI layers
//!   chan <field> <hasher> <AirDesc line> <proof bytes hex>   `Proof::from_bytes` and the sub-structure
//!                         parse (what `VerifierChannel::new` does) of one structurally mutated proof;
//!                         COMPARED WITH THE LEAN MODEL (`channelParse` of Winter/Model/VerifierChecks.lean)
//!   refv <field> <hasher> <q.b.g.x.f.r> <trace seed> <AirDesc line> <acceptable> <public inputs> <tag> <proof bytes hex>
//!                         ONE proof (honest or mutated, bytes in the line) given to `Proof::from_bytes` and the
//!                         real `verify`; output = verdict class `ok` | `parse-err` | `err:<VerifierError kind>` |
//!                         `panic`; COMPARED WITH THE EXECUTABLE REFERENCE VERIFIER IN LEAN (`refVerify` of
//!                         Winter/Model/RefVerifier.lean) on exactly the same bytes.  <acceptable> = `os:<opts>,..`
//!                         (OptionSet) | `mc:<bits>` (MinConjecturedSecurity); <tag> = mutation family (not read)
//! output: `n=<mutants> parsefail=.. rejected=.. same=.. exempt=.. panic=.. accepted=..`
//!
//! Sites: `c03.accepted-mutation.<component>`, `c03.rejected-same-content.<component>`,
//! `c03.panic@<file>` (a panic is neither a rejection nor a parse failure), `c03.harness.*`.
#![allow(dead_code, unused_variables, unused_imports, unused_mut)]
use std::sync::Arc;

use wf_harness::core::*;
use wf_harness::fields::Fld;
use wf_harness::genair::*;
use winter_air::{proof::Proof, Air, ProofOptions};
use winter_crypto::{
    hashers::{Blake3_192, Blake3_256, Rp62_248, Rp64_256, RpJive64_256, Sha3_256},
    ElementHasher, Hasher,
};
use winter_fri::{folding::fold_positions, utils::map_positions_to_indexes};
use winter_math::{
    fields::{f128, f62, f64},
    FieldElement, StarkField,
};
use winter_utils::{ByteWriter, Deserializable, Serializable};
use winter_verifier::AcceptableOptions;

#[path = "../adv.rs"]
mod adv;
use adv::*;

pub struct P;

// ------------------------------------------------------------------------------------ configuration
#[derive(Clone)]
struct Cfg {
    field: FieldId,
    hash: HashId,
    opts: OptSpec,
    seed: u64,
    desc: Arc<AirDesc>,
    meta: Vec<u8>,
}

fn parse_cfg(t: &[&str]) -> Result<Cfg, String> {
    if t.len() < 6 {
        return Err("arity".into());
    }
    let field = FieldId::parse(t[0]).ok_or("field")?;
    let hash = HashId::parse(t[1]).ok_or("hasher")?;
    let opts = OptSpec::parse(t[2]).ok_or("options")?;
    let seed = t[3].parse::<u64>().map_err(|_| "seed")?;
    let desc = AirDesc::parse(t[4])?;
    if t[5] != "-" && (t[5].len() % 2 != 0 || !t[5].bytes().all(|b| b.is_ascii_hexdigit())) {
        return Err("meta".into());
    }
    let meta = unhex(t[5]);
    if !hash.compatible(field) || !opts.accepted() || !field.supports_ext(opts.ext) || opts.blowup < desc.min_blowup() {
        return Err("config".into());
    }
    Ok(Cfg { field, hash, opts, seed, desc: Arc::new(desc), meta })
}

fn cfg_text(c: &Cfg) -> String {
    format!("{} {} {} {} {} {}", c.field.name(), c.hash.name(), c.opts.to_text(), c.seed, c.desc.to_line(), hex(&c.meta))
}

fn elem_bytes(f: FieldId) -> usize {
    match f {
        FieldId::F128 => 16,
        _ => 8,
    }
}

// ------------------------------------------------------------------------------------ byte layout
/// the serialized proof as a tree of blocks (the format of air/src/proof and fri/src/proof.rs)
#[derive(Clone, PartialEq, Eq, Debug)]
struct PT {
    trace_info: Vec<u8>, // main width, aux width, aux rands, log2 length
    meta: Vec<u8>,       // u16 length prefix
    modulus: Vec<u8>,    // u8 length prefix
    options: Vec<u8>,    // 6 bytes
    nuq: u8,
    commitments: Vec<u8>,                 // u16
    trace_queries: Vec<(Vec<u8>, Vec<u8>)>, // (values u32, paths u32) per segment
    constraint_queries: (Vec<u8>, Vec<u8>),
    ood_trace: Vec<u8>,    // u16
    ood_lagrange: Vec<u8>, // u16
    ood_evals: Vec<u8>,    // u16
    layers: Vec<(Vec<u8>, Vec<u8>)>, // u8 count; (values u32, paths u32)
    remainder: Vec<u8>,    // u16
    num_partitions: u8,
    nonce: Vec<u8>, // 8 bytes
    gkr: Option<Vec<u8>>, // bool, vint64 length
}

struct Rd<'a> {
    b: &'a [u8],
    p: usize,
}

impl<'a> Rd<'a> {
    fn take(&mut self, n: usize) -> Option<&'a [u8]> {
        if self.p + n > self.b.len() {
            return None;
        }
        let s = &self.b[self.p..self.p + n];
        self.p += n;
        Some(s)
    }
    fn uint(&mut self, n: usize) -> Option<usize> {
        let s = self.take(n)?;
        let mut v = 0usize;
        for (i, x) in s.iter().enumerate() {
            v |= (*x as usize) << (8 * i);
        }
        Some(v)
    }
    fn block(&mut self, prefix: usize) -> Option<Vec<u8>> {
        let n = self.uint(prefix)?;
        Some(self.take(n)?.to_vec())
    }
}

fn put_uint(o: &mut Vec<u8>, n: usize, v: usize) {
    for i in 0..n {
        o.push((v >> (8 * i)) as u8);
    }
}

fn put_block(o: &mut Vec<u8>, prefix: usize, b: &[u8]) {
    put_uint(o, prefix, b.len());
    o.extend_from_slice(b);
}

impl PT {
    fn parse(bytes: &[u8]) -> Option<PT> {
        let mut r = Rd { b: bytes, p: 0 };
        let trace_info = r.take(4)?.to_vec();
        let meta = r.block(2)?;
        let modulus = r.block(1)?;
        let options = r.take(6)?.to_vec();
        let nuq = r.take(1)?[0];
        let commitments = r.block(2)?;
        let segs = if trace_info[1] > 0 { 2 } else { 1 };
        let mut trace_queries = vec![];
        for _ in 0..segs {
            trace_queries.push((r.block(4)?, r.block(4)?));
        }
        let constraint_queries = (r.block(4)?, r.block(4)?);
        let ood_trace = r.block(2)?;
        let ood_lagrange = r.block(2)?;
        let ood_evals = r.block(2)?;
        let nl = r.uint(1)?;
        let mut layers = vec![];
        for _ in 0..nl {
            layers.push((r.block(4)?, r.block(4)?));
        }
        let remainder = r.block(2)?;
        let num_partitions = r.take(1)?[0];
        let nonce = r.take(8)?.to_vec();
        let flag = r.take(1)?[0];
        let gkr = if flag == 1 {
            // vint64 length as winter-utils writes it: only lengths below 128 are used here
            let l = r.take(1)?[0];
            if l & 1 != 1 {
                return None;
            }
            Some(r.take((l >> 1) as usize)?.to_vec())
        } else {
            None
        };
        if r.p != bytes.len() {
            return None;
        }
        Some(PT {
            trace_info,
            meta,
            modulus,
            options,
            nuq,
            commitments,
            trace_queries,
            constraint_queries,
            ood_trace,
            ood_lagrange,
            ood_evals,
            layers,
            remainder,
            num_partitions,
            nonce,
            gkr,
        })
    }

    /// serialization together with the component name of every byte
    fn spans(&self) -> (Vec<u8>, Vec<(usize, &'static str)>) {
        let mut o: Vec<u8> = vec![];
        let mut sp: Vec<(usize, &'static str)> = vec![];
        macro_rules! mark {
            ($name:expr) => {
                sp.push((o.len(), $name));
            };
        }
        mark!("context.trace_info");
        o.extend_from_slice(&self.trace_info);
        mark!("context.trace_meta.len");
        put_uint(&mut o, 2, self.meta.len());
        mark!("context.trace_meta");
        o.extend_from_slice(&self.meta);
        mark!("context.modulus.len");
        put_uint(&mut o, 1, self.modulus.len());
        mark!("context.modulus");
        o.extend_from_slice(&self.modulus);
        mark!("context.options");
        o.extend_from_slice(&self.options);
        mark!("num_unique_queries");
        o.push(self.nuq);
        mark!("commitments.len");
        put_uint(&mut o, 2, self.commitments.len());
        mark!("commitments");
        o.extend_from_slice(&self.commitments);
        for q in &self.trace_queries {
            mark!("trace_queries.values.len");
            put_uint(&mut o, 4, q.0.len());
            mark!("trace_queries.values");
            o.extend_from_slice(&q.0);
            mark!("trace_queries.paths.len");
            put_uint(&mut o, 4, q.1.len());
            mark!("trace_queries.paths");
            o.extend_from_slice(&q.1);
        }
        mark!("constraint_queries.values.len");
        put_uint(&mut o, 4, self.constraint_queries.0.len());
        mark!("constraint_queries.values");
        o.extend_from_slice(&self.constraint_queries.0);
        mark!("constraint_queries.paths.len");
        put_uint(&mut o, 4, self.constraint_queries.1.len());
        mark!("constraint_queries.paths");
        o.extend_from_slice(&self.constraint_queries.1);
        mark!("ood.trace.len");
        put_uint(&mut o, 2, self.ood_trace.len());
        mark!("ood.trace");
        o.extend_from_slice(&self.ood_trace);
        mark!("ood.lagrange.len");
        put_uint(&mut o, 2, self.ood_lagrange.len());
        mark!("ood.lagrange");
        o.extend_from_slice(&self.ood_lagrange);
        mark!("ood.evaluations.len");
        put_uint(&mut o, 2, self.ood_evals.len());
        mark!("ood.evaluations");
        o.extend_from_slice(&self.ood_evals);
        mark!("fri.num_layers");
        put_uint(&mut o, 1, self.layers.len());
        for l in &self.layers {
            mark!("fri.layer.values.len");
            put_uint(&mut o, 4, l.0.len());
            mark!("fri.layer.values");
            o.extend_from_slice(&l.0);
            mark!("fri.layer.paths.len");
            put_uint(&mut o, 4, l.1.len());
            mark!("fri.layer.paths");
            o.extend_from_slice(&l.1);
        }
        mark!("fri.remainder.len");
        put_uint(&mut o, 2, self.remainder.len());
        mark!("fri.remainder");
        o.extend_from_slice(&self.remainder);
        mark!("fri.num_partitions");
        o.push(self.num_partitions);
        mark!("pow_nonce");
        o.extend_from_slice(&self.nonce);
        mark!("gkr_proof");
        match &self.gkr {
            None => o.push(0),
            Some(g) => {
                o.push(1);
                let mut v: Vec<u8> = vec![];
                v.write_usize(g.len());
                o.extend_from_slice(&v);
                o.extend_from_slice(g);
            },
        }
        (o, sp)
    }

    fn to_bytes(&self) -> Vec<u8> {
        self.spans().0
    }
}

fn component_at(sp: &[(usize, &'static str)], offset: usize) -> &'static str {
    let mut name = "?";
    for (start, n) in sp {
        if *start <= offset {
            name = n;
        } else {
            break;
        }
    }
    name
}

/// first component in which two block trees differ
fn diff_component(a: &PT, b: &PT) -> &'static str {
    if a.trace_info != b.trace_info {
        return "context.trace_info";
    }
    if a.meta != b.meta {
        return "context.trace_meta";
    }
    if a.modulus != b.modulus {
        return "context.modulus";
    }
    if a.options != b.options {
        return "context.options";
    }
    if a.nuq != b.nuq {
        return "num_unique_queries";
    }
    if a.commitments != b.commitments {
        return "commitments";
    }
    if a.trace_queries.len() != b.trace_queries.len() {
        return "trace_queries";
    }
    for (x, y) in a.trace_queries.iter().zip(b.trace_queries.iter()) {
        if x.0 != y.0 {
            return "trace_queries.values";
        }
        if x.1 != y.1 {
            return "trace_queries.paths";
        }
    }
    if a.constraint_queries.0 != b.constraint_queries.0 {
        return "constraint_queries.values";
    }
    if a.constraint_queries.1 != b.constraint_queries.1 {
        return "constraint_queries.paths";
    }
    if a.ood_trace != b.ood_trace {
        return "ood.trace";
    }
    if a.ood_lagrange != b.ood_lagrange {
        return "ood.lagrange";
    }
    if a.ood_evals != b.ood_evals {
        return "ood.evaluations";
    }
    if a.layers.len() != b.layers.len() {
        return "fri.num_layers";
    }
    for (x, y) in a.layers.iter().zip(b.layers.iter()) {
        if x.0 != y.0 {
            return "fri.layer.values";
        }
        if x.1 != y.1 {
            return "fri.layer.paths";
        }
    }
    if a.remainder != b.remainder {
        return "fri.remainder";
    }
    if a.num_partitions != b.num_partitions {
        return "fri.num_partitions";
    }
    if a.nonce != b.nonce {
        return "pow_nonce";
    }
    if a.gkr != b.gkr {
        return "gkr_proof";
    }
    "none"
}

// ------------------------------------------------------------------------------------ digests
fn canon_digest_g<B: GField, H: ElementHasher<BaseField = B>>(chunk: &[u8]) -> Option<Vec<u8>> {
    <H::Digest as Deserializable>::read_from_bytes(chunk).ok().map(|d| d.to_bytes())
}

fn canon_digest(field: FieldId, hash: HashId, chunk: &[u8]) -> Option<Vec<u8>> {
    adv_dispatch!(field, hash, canon_digest_g, (chunk))
}

/// a block that is a plain concatenation of digests: every digest decoded and re-encoded
fn canon_digests(c: &Cfg, block: &[u8]) -> Vec<u8> {
    let db = c.hash.digest_bytes();
    if block.len() % db != 0 {
        return block.to_vec();
    }
    let mut o = vec![];
    for ch in block.chunks(db) {
        match canon_digest(c.field, c.hash, ch) {
            Some(d) => o.extend_from_slice(&d),
            None => return block.to_vec(),
        }
    }
    o
}

/// a serialized node block `[n][k_1, digests…]…[k_n, digests…]`: every digest decoded and re-encoded
fn canon_paths(c: &Cfg, block: &[u8]) -> Vec<u8> {
    let db = c.hash.digest_bytes();
    let mut o = vec![];
    let mut r = Rd { b: block, p: 0 };
    let n = match r.uint(1) {
        Some(n) => n,
        None => return block.to_vec(),
    };
    o.push(n as u8);
    for _ in 0..n {
        let k = match r.uint(1) {
            Some(k) => k,
            None => return block.to_vec(),
        };
        o.push(k as u8);
        for _ in 0..k {
            match r.take(db).and_then(|ch| canon_digest(c.field, c.hash, ch)) {
                Some(d) => o.extend_from_slice(&d),
                None => return block.to_vec(),
            }
        }
    }
    if r.p != block.len() {
        return block.to_vec();
    }
    o
}

fn canon_pt(c: &Cfg, t: &PT) -> PT {
    let mut t = t.clone();
    t.commitments = canon_digests(c, &t.commitments);
    for q in t.trace_queries.iter_mut() {
        q.1 = canon_paths(c, &q.1);
    }
    t.constraint_queries.1 = canon_paths(c, &t.constraint_queries.1);
    for l in t.layers.iter_mut() {
        l.1 = canon_paths(c, &l.1);
    }
    t
}

fn algebraic(h: HashId) -> bool {
    matches!(h, HashId::Rp64_256 | HashId::RpJive64_256 | HashId::Rp62_248)
}

// ------------------------------------------------------------------------------------ the base proof
struct Base {
    cfg: Cfg,
    proof: Proof,
    bytes: Vec<u8>,
    pt: PT,
    spans: Vec<(usize, &'static str)>,
    pubs: Vec<u128>,
    /// the verifier's query positions (sorted, de-duplicated) for the honest proof
    positions: Vec<usize>,
    /// every column of the trace is constant: every committed tree is fully symmetric, every position opens
    /// with the same values and nodes, so the proof is position-independent
    constant_trace: bool,
}

fn make_base(c: &Cfg) -> Result<Base, Outcome> {
    let trace = gen_trace(&c.desc, c.field, c.seed);
    let pubs = pub_inputs(&c.desc, c.field, &trace);
    if let Err(v) = is_valid(&c.desc, c.field, &trace, &pubs) {
        return Err(Outcome::ok(format!("gen-invalid:{}", v)).fail("c03.harness.gen-invalid", format!("generated trace violates {}", v)));
    }
    let excl_possible = c.field == FieldId::F62 && c.opts.ext == 3;
    let desc = c.desc.clone();
    let proof = match guarded(|| prove_adv(&desc, &trace, c.field, &c.opts, c.hash, None, &c.meta, None)) {
        Err(info) => {
            if excl_possible && is_sampling_limit(&info) {
                return Err(Outcome::ok("excluded"));
            }
            return Err(Outcome::ok("prove-panic").fail("c03.harness.prove-panic", info));
        },
        Ok(out) => match out.proof {
            Ok(p) => p,
            Err(e) => return Err(Outcome::ok("prove-err").fail("c03.harness.prove-err", format!("{:?}", e))),
        },
    };
    let bytes = proof.to_bytes();
    let pt = match PT::parse(&bytes) {
        Some(pt) => pt,
        None => return Err(Outcome::ok("layout").fail("c03.harness.layout", "the harness cannot walk the serialized proof")),
    };
    let (b2, spans) = pt.spans();
    if b2 != bytes {
        return Err(Outcome::ok("layout").fail("c03.harness.layout", "the harness's layout does not reproduce the serialized proof"));
    }
    let acceptable = AcceptableOptions::OptionSet(vec![c.opts.to_options()]);
    let p2 = proof.clone();
    let r = guarded(|| verify_rec(&desc, c.field, c.hash, &pubs, p2, &acceptable));
    let rec = rec_take();
    match r {
        Ok(Ok(())) => {},
        Ok(Err(e)) => {
            let k = verifier_error_kind(&e);
            if excl_possible && k == "RandomCoinError" {
                return Err(Outcome::ok("excluded"));
            }
            return Err(Outcome::ok("honest-rejected").fail("c03.harness.honest-rejected", format!("{:?}", e)));
        },
        Err(info) => {
            if excl_possible && is_sampling_limit(&info) {
                return Err(Outcome::ok("excluded"));
            }
            return Err(Outcome::ok("honest-panic").fail("c03.harness.honest-panic", info));
        },
    }
    let mut positions = rec.ints.last().cloned().unwrap_or_default();
    positions.sort_unstable();
    positions.dedup();
    let constant_trace = trace.iter().all(|col| col.iter().all(|v| *v == col[0]));
    Ok(Base { cfg: c.clone(), proof, bytes, pt, spans, pubs, positions, constant_trace })
}

// ------------------------------------------------------------------------------------ judging
#[derive(Default)]
struct Tally {
    n: usize,
    parsefail: usize,
    rejected: usize,
    same: usize,
    exempt: usize,
    panic: usize,
    accepted: usize,
    fails: Vec<(String, String)>,
}

impl Tally {
    fn outcome(self) -> Outcome {
        let mut o = Outcome::ok(format!(
            "n={} parsefail={} rejected={} same={} exempt={} panic={} accepted={}",
            self.n, self.parsefail, self.rejected, self.same, self.exempt, self.panic, self.accepted
        ));
        // keep the report small: at most 12 failures per op, the count is in the output
        for (s, d) in self.fails.into_iter().take(12) {
            o = o.fail(s, d);
        }
        o
    }
}

/// do the FRI partition counts map every queried position of every layer to the same leaf?
/// the opened values of every FRI layer are one repeated element and the remainder is a constant
fn fri_constant(b: &Base) -> bool {
    let e = elem_bytes(b.cfg.field) * b.cfg.opts.ext as usize;
    let rep = |blk: &[u8]| blk.len() >= e && blk.len() % e == 0 && blk.chunks(e).all(|c| c == &blk[..e]);
    b.pt.layers.iter().all(|l| rep(&l.0)) && b.pt.remainder.len() >= e && b.pt.remainder[e..].iter().all(|x| *x == 0)
}

/// only the partition count differs: in every FRI layer it either maps the folded queried positions to the same
/// leaves as the original count, or the opened values of that layer are one repeated element (a constant layer,
/// whose leaves all coincide) — what explains the acceptance of such a mutant
fn partitions_explained_by_constant_layers(b: &Base, positions: &[usize], np1: u8, np2: u8) -> bool {
    if np1 >= 64 || np2 >= 64 {
        return false;
    }
    let (n1, n2) = (1usize << np1, 1usize << np2);
    let o = &b.cfg.opts;
    let e = elem_bytes(b.cfg.field) * o.ext as usize;
    let rep = |blk: &[u8]| blk.len() >= e && blk.len() % e == 0 && blk.chunks(e).all(|c| c == &blk[..e]);
    let lde = b.cfg.desc.trace_len * o.blowup;
    let layers = o.to_options().to_fri_options().num_fri_layers(lde);
    let mut dom = lde;
    let mut pos = positions.to_vec();
    for i in 0..layers {
        let folded = fold_positions(&pos, dom, o.folding);
        let same = map_positions_to_indexes(&folded, dom, o.folding, n1) == map_positions_to_indexes(&folded, dom, o.folding, n2);
        let constant = b.pt.layers.get(i).map(|l| rep(&l.0)).unwrap_or(false);
        if !same && !constant {
            return false;
        }
        pos = folded;
        dom /= o.folding;
    }
    true
}

fn partitions_equivalent(b: &Base, positions: &[usize], np1: u8, np2: u8) -> bool {
    if np1 >= 64 || np2 >= 64 {
        return false;
    }
    let (n1, n2) = (1usize << np1, 1usize << np2);
    let o = &b.cfg.opts;
    let lde = b.cfg.desc.trace_len * o.blowup;
    let layers = o.to_options().to_fri_options().num_fri_layers(lde);
    let mut dom = lde;
    let mut pos = positions.to_vec();
    for _ in 0..layers {
        let folded = fold_positions(&pos, dom, o.folding);
        if dom / o.folding / n1.max(1) == 0 || dom / o.folding / n2.max(1) == 0 {
            // a partition count beyond the layer size: the mappings are compared as computed
        }
        if map_positions_to_indexes(&folded, dom, o.folding, n1) != map_positions_to_indexes(&folded, dom, o.folding, n2) {
            return false;
        }
        pos = folded;
        dom /= o.folding;
    }
    true
}

thread_local! {
    /// when set, `judge` records the mutants it is handed instead of judging them (generation of `refv` lines)
    static COLLECT: std::cell::RefCell<Option<Vec<(&'static str, Vec<u8>)>>> = const { std::cell::RefCell::new(None) };
}

/// the mutants a family produces for `b`, with the component each one touches
fn collect_mutants(f: impl FnOnce() -> Tally) -> Vec<(&'static str, Vec<u8>)> {
    COLLECT.with(|c| *c.borrow_mut() = Some(vec![]));
    let _ = f();
    COLLECT.with(|c| c.borrow_mut().take()).unwrap_or_default()
}

/// judge one mutant; `what` describes the mutation for the failure detail
fn judge(b: &Base, t: &mut Tally, mutant: &[u8], what: &str, hint: &'static str) {
    if mutant == &b.bytes[..] {
        return;
    }
    let collecting = COLLECT.with(|c| {
        if let Some(v) = c.borrow_mut().as_mut() {
            v.push((hint, mutant.to_vec()));
            true
        } else {
            false
        }
    });
    if collecting {
        return;
    }
    t.n += 1;
    let c = &b.cfg;
    let p2 = match guarded(|| Proof::from_bytes(mutant)) {
        Err(info) => {
            t.panic += 1;
            t.fails.push((format!("c03.panic@{}", panic_file(&info)), format!("Proof::from_bytes panicked on {}: {}", what, info)));
            return;
        },
        Ok(Err(_)) => {
            t.parsefail += 1;
            return;
        },
        Ok(Ok(p)) => p,
    };
    let same_struct = p2 == b.proof;
    // what differs, on the block level
    let pt2 = PT::parse(&p2.to_bytes());
    let comp: &'static str = match &pt2 {
        Some(x) => {
            let d = diff_component(&b.pt, x);
            if d == "none" {
                hint
            } else {
                d
            }
        },
        None => hint,
    };
    // exemption: alternative encodings of the same digests
    let same_digests = !same_struct
        && algebraic(c.hash)
        && match &pt2 {
            Some(x) => canon_pt(c, x) == canon_pt(c, &b.pt),
            None => false,
        };
    let options_same = p2.options() == b.proof.options();
    let desc = c.desc.clone();
    let acceptable = if options_same {
        AcceptableOptions::OptionSet(vec![c.opts.to_options()])
    } else {
        // a changed option set is refused by an option whitelist at once; let it reach the protocol
        AcceptableOptions::MinConjecturedSecurity(0)
    };
    let np2 = pt2.as_ref().map(|x| x.num_partitions).unwrap_or(0);
    let r = guarded(|| verify_rec(&desc, c.field, c.hash, &b.pubs, p2, &acceptable));
    let rec = rec_take();
    match r {
        Err(info) => {
            if c.field == FieldId::F62 && c.opts.ext == 3 && is_sampling_limit(&info) {
                t.rejected += 1;
                return;
            }
            t.panic += 1;
            t.fails.push((format!("c03.panic@{}", panic_file(&info)), format!("verify panicked on {} ({}): {}", what, comp, info)));
        },
        Ok(Err(_)) => {
            if same_struct {
                t.fails.push((format!("c03.rejected-same-content.{}", comp), format!("{}: decoded content identical but rejected", what)));
            }
            t.rejected += 1;
        },
        Ok(Ok(())) => {
            if same_struct {
                t.same += 1;
                return;
            }
            if same_digests {
                t.exempt += 1;
                return;
            }
            // exemption: only the partition count differs and it maps the queried positions identically
            let mut partition_constant_layers = false;
            if let Some(x) = &pt2 {
                let mut y = x.clone();
                y.num_partitions = b.pt.num_partitions;
                if y == b.pt {
                    let mut pos = rec.ints.last().cloned().unwrap_or_default();
                    pos.sort_unstable();
                    pos.dedup();
                    if partitions_equivalent(b, &pos, b.pt.num_partitions, np2) {
                        t.exempt += 1;
                        return;
                    }
                    partition_constant_layers = partitions_explained_by_constant_layers(b, &pos, b.pt.num_partitions, np2);
                }
            }
            t.accepted += 1;
            t.fails.push((
                // a proof of a constant trace verifies at every query position; data that only steers the
                // transcript / positions / layout is then not bound by anything (distinct site)
                if b.constant_trace && ["context.options", "pow_nonce"].contains(&comp) {
                    format!("c03.accepted-mutation.{}.constant-trace", comp)
                } else if comp == "fri.num_partitions" && partition_constant_layers {
                    // in every FRI layer the partition count either selects the same leaves or the layer is one
                    // repeated value (the folded DEEP composition has become a constant there): all leaves of
                    // such a layer tree coincide, whichever leaf a partition count selects
                    "c03.accepted-mutation.fri.num_partitions.constant-fri".to_string()
                } else {
                    format!("c03.accepted-mutation.{}", comp)
                },
                format!("{}: decoded content differs in {} and the proof was accepted; mutant={}", what, comp, if mutant.len() <= 6000 { hex(mutant) } else { format!("({} bytes)", mutant.len()) }),
            ));
        },
    }
}

// ------------------------------------------------------------------------------------ mutation families
fn run_flips(b: &Base, from: usize, to: usize, step: usize) -> Tally {
    let mut t = Tally::default();
    let nbits = b.bytes.len() * 8;
    let mut i = from;
    while i < to.min(nbits) {
        let mut m = b.bytes.clone();
        m[i / 8] ^= 1 << (i % 8);
        judge(b, &mut t, &m, &format!("bit {} flipped", i), component_at(&b.spans, i / 8));
        i += step.max(1);
    }
    t
}

fn run_bytes(b: &Base, from: usize, to: usize, step: usize) -> Tally {
    let mut t = Tally::default();
    let mut i = from;
    while i < to.min(b.bytes.len()) {
        let v = b.bytes[i];
        for nv in [0u8, 0xff, v.wrapping_add(1), v.wrapping_sub(1)] {
            let mut m = b.bytes.clone();
            m[i] = nv;
            judge(b, &mut t, &m, &format!("byte {} set to {:02x}", i, nv), component_at(&b.spans, i));
        }
        i += step.max(1);
    }
    t
}

/// every fixed-size field and length prefix x boundary and random values
fn run_fields(b: &Base) -> Tally {
    let mut t = Tally::default();
    let mut rng = Rng::new(b.cfg.seed ^ 0xf1e1d);
    // fields = maximal runs of bytes of one component whose name is not a payload block
    let payload = ["context.trace_meta", "context.modulus", "commitments", "trace_queries.values", "trace_queries.paths", "constraint_queries.values", "constraint_queries.paths", "ood.trace", "ood.lagrange", "ood.evaluations", "fri.layer.values", "fri.layer.paths", "fri.remainder"];
    let mut bounds: Vec<(usize, usize, &'static str)> = vec![];
    for (k, (start, name)) in b.spans.iter().enumerate() {
        let end = if k + 1 < b.spans.len() { b.spans[k + 1].0 } else { b.bytes.len() };
        if end > *start && !payload.contains(name) {
            bounds.push((*start, end, name));
        }
    }
    for (start, end, name) in bounds {
        let w = end - start;
        // single bytes of multi-byte composite fields are covered by `bytes`; here the field as one integer
        let widths: Vec<(usize, usize)> = if *name == *"context.trace_info" || *name == *"context.options" {
            (start..end).map(|p| (p, 1)).collect()
        } else if *name == *"gkr_proof" {
            vec![(start, 1)]
        } else {
            vec![(start, w)]
        };
        for (p, w) in widths {
            let mut cur: u128 = 0;
            for i in 0..w {
                cur |= (b.bytes[p + i] as u128) << (8 * i);
            }
            let max: u128 = if w >= 16 { u128::MAX } else { (1u128 << (8 * w)) - 1 };
            let mut vals = vec![0u128, 1, 2, max, max - 1, cur.wrapping_add(1) & max, cur.wrapping_sub(1) & max, cur ^ 1, cur << 1 & max, cur >> 1, max >> 1, (max >> 1) + 1];
            for _ in 0..4 {
                vals.push(rng.u128() & max);
            }
            if w == 1 {
                vals.extend([3, 4, 7, 8, 15, 16, 31, 32, 63, 64, 127, 128, 254]);
            }
            vals.sort();
            vals.dedup();
            for v in vals {
                if v == cur {
                    continue;
                }
                let mut m = b.bytes.clone();
                for i in 0..w {
                    m[p + i] = (v >> (8 * i)) as u8;
                }
                judge(b, &mut t, &m, &format!("{} at byte {} set to {}", name, p, v), name);
            }
        }
    }
    t
}

/// all blocks of the tree as (name, accessor)
fn blocks(pt: &PT) -> Vec<(&'static str, Box<dyn Fn(&mut PT) -> &mut Vec<u8>>)> {
    let mut v: Vec<(&'static str, Box<dyn Fn(&mut PT) -> &mut Vec<u8>>)> = vec![
        ("context.trace_meta", Box::new(|p: &mut PT| &mut p.meta)),
        ("context.modulus", Box::new(|p: &mut PT| &mut p.modulus)),
        ("commitments", Box::new(|p: &mut PT| &mut p.commitments)),
        ("constraint_queries.values", Box::new(|p: &mut PT| &mut p.constraint_queries.0)),
        ("constraint_queries.paths", Box::new(|p: &mut PT| &mut p.constraint_queries.1)),
        ("ood.trace", Box::new(|p: &mut PT| &mut p.ood_trace)),
        ("ood.lagrange", Box::new(|p: &mut PT| &mut p.ood_lagrange)),
        ("ood.evaluations", Box::new(|p: &mut PT| &mut p.ood_evals)),
        ("fri.remainder", Box::new(|p: &mut PT| &mut p.remainder)),
    ];
    for i in 0..pt.trace_queries.len() {
        v.push(("trace_queries.values", Box::new(move |p: &mut PT| &mut p.trace_queries[i].0)));
        v.push(("trace_queries.paths", Box::new(move |p: &mut PT| &mut p.trace_queries[i].1)));
    }
    for i in 0..pt.layers.len() {
        v.push(("fri.layer.values", Box::new(move |p: &mut PT| &mut p.layers[i].0)));
        v.push(("fri.layer.paths", Box::new(move |p: &mut PT| &mut p.layers[i].1)));
    }
    if pt.gkr.is_some() {
        v.push(("gkr_proof", Box::new(|p: &mut PT| p.gkr.as_mut().unwrap())));
    }
    v
}

/// truncation / extension of every length-prefixed block with a consistent prefix
fn run_resize(b: &Base) -> Tally {
    let mut t = Tally::default();
    let mut rng = Rng::new(b.cfg.seed ^ 0x5e51);
    let eb = elem_bytes(b.cfg.field);
    let db = b.cfg.hash.digest_bytes();
    for (name, acc) in blocks(&b.pt) {
        let len = {
            let mut p = b.pt.clone();
            acc(&mut p).len()
        };
        let mut deltas: Vec<i64> = vec![-1, 1, -2, 2, -(eb as i64), eb as i64, -(db as i64), db as i64, -(eb as i64) * (b.cfg.opts.ext as i64), eb as i64 * (b.cfg.opts.ext as i64), -(len as i64), len as i64];
        deltas.sort();
        deltas.dedup();
        for d in deltas {
            if d == 0 || (d < 0 && (-d) as usize > len) {
                continue;
            }
            for fill in 0..3 {
                let mut p = b.pt.clone();
                {
                    let blk = acc(&mut p);
                    if d < 0 {
                        if fill > 1 {
                            continue;
                        }
                        // cut at the end, or at the front
                        if fill == 0 {
                            blk.truncate(len - (-d) as usize);
                        } else {
                            blk.drain(0..(-d) as usize);
                        }
                    } else {
                        let extra: Vec<u8> = match fill {
                            0 => vec![0u8; d as usize],
                            1 => rng.bytes(d as usize),
                            _ => blk.iter().rev().take(d as usize).rev().cloned().collect(),
                        };
                        blk.extend_from_slice(&extra);
                    }
                }
                if p.gkr.as_ref().map(|g| g.len() >= 128).unwrap_or(false) {
                    continue;
                }
                judge(b, &mut t, &p.to_bytes(), &format!("{} resized by {} (fill {})", name, d, fill), name);
            }
        }
    }
    t
}

fn swap_chunks(v: &mut [u8], a: usize, bb: usize, w: usize) -> bool {
    if a == bb || (a + 1) * w > v.len() || (bb + 1) * w > v.len() {
        return false;
    }
    for i in 0..w {
        v.swap(a * w + i, bb * w + i);
    }
    true
}

/// offsets of the digests inside a serialized node block
fn node_offsets(block: &[u8], db: usize) -> Vec<usize> {
    let mut r = Rd { b: block, p: 0 };
    let mut v = vec![];
    let n = match r.uint(1) {
        Some(n) => n,
        None => return v,
    };
    for _ in 0..n {
        let k = match r.uint(1) {
            Some(k) => k,
            None => return v,
        };
        for _ in 0..k {
            v.push(r.p);
            if r.take(db).is_none() {
                return v;
            }
        }
    }
    v
}

/// reordered / substituted / duplicated openings
fn run_reorder(b: &Base) -> Tally {
    let mut t = Tally::default();
    let mut rng = Rng::new(b.cfg.seed ^ 0x0de5);
    let c = &b.cfg;
    let eb = elem_bytes(c.field);
    let db = c.hash.digest_bytes();
    let nuq = b.pt.nuq as usize;
    // ---- rows of the value blocks
    let value_blocks: Vec<(&'static str, Box<dyn Fn(&mut PT) -> &mut Vec<u8>>, usize)> = {
        let mut v: Vec<(&'static str, Box<dyn Fn(&mut PT) -> &mut Vec<u8>>, usize)> = vec![];
        for i in 0..b.pt.trace_queries.len() {
            v.push(("trace_queries.values", Box::new(move |p: &mut PT| &mut p.trace_queries[i].0), nuq));
        }
        v.push(("constraint_queries.values", Box::new(|p: &mut PT| &mut p.constraint_queries.0), nuq));
        for i in 0..b.pt.layers.len() {
            let rows = b.pt.layers[i].0.len() / (eb * c.opts.ext as usize * c.opts.folding).max(1);
            v.push(("fri.layer.values", Box::new(move |p: &mut PT| &mut p.layers[i].0), rows));
        }
        v
    };
    for (name, acc, rows) in value_blocks {
        if rows == 0 {
            continue;
        }
        let len = {
            let mut p = b.pt.clone();
            acc(&mut p).len()
        };
        let w = len / rows;
        // swap two rows; copy one row over another; swap two elements inside a row
        for (i, j) in [(0usize, 1usize), (0, rows - 1), (rows / 2, rows - 1)] {
            if i != j && j < rows {
                let mut p = b.pt.clone();
                if swap_chunks(acc(&mut p), i, j, w) {
                    judge(b, &mut t, &p.to_bytes(), &format!("{}: rows {} and {} swapped", name, i, j), name);
                }
                let mut p = b.pt.clone();
                {
                    let blk = acc(&mut p);
                    let src: Vec<u8> = blk[i * w..(i + 1) * w].to_vec();
                    blk[j * w..(j + 1) * w].copy_from_slice(&src);
                }
                judge(b, &mut t, &p.to_bytes(), &format!("{}: row {} copied over row {}", name, i, j), name);
            }
        }
        let e = eb * c.opts.ext as usize;
        if w >= 2 * eb {
            let mut p = b.pt.clone();
            if swap_chunks(acc(&mut p), 0, 1, eb.min(w / 2)) {
                judge(b, &mut t, &p.to_bytes(), &format!("{}: first two elements swapped", name), name);
            }
        }
        let _ = e;
    }
    // ---- nodes of the path blocks
    let path_blocks: Vec<(&'static str, Box<dyn Fn(&mut PT) -> &mut Vec<u8>>)> = {
        let mut v: Vec<(&'static str, Box<dyn Fn(&mut PT) -> &mut Vec<u8>>)> = vec![];
        for i in 0..b.pt.trace_queries.len() {
            v.push(("trace_queries.paths", Box::new(move |p: &mut PT| &mut p.trace_queries[i].1)));
        }
        v.push(("constraint_queries.paths", Box::new(|p: &mut PT| &mut p.constraint_queries.1)));
        for i in 0..b.pt.layers.len() {
            v.push(("fri.layer.paths", Box::new(move |p: &mut PT| &mut p.layers[i].1)));
        }
        v
    };
    let all_paths: Vec<Vec<u8>> = {
        let mut p = b.pt.clone();
        path_blocks.iter().map(|(_, acc)| acc(&mut p).clone()).collect()
    };
    for (k, (name, acc)) in path_blocks.iter().enumerate() {
        let blk0 = all_paths[k].clone();
        let offs = node_offsets(&blk0, db);
        for (ai, a) in offs.iter().enumerate() {
            // replace by random bytes, by the next node, by a node of another block
            let mut p = b.pt.clone();
            acc(&mut p)[*a..*a + db].copy_from_slice(&rng.bytes(db));
            judge(b, &mut t, &p.to_bytes(), &format!("{}: node {} replaced by random bytes", name, ai), name);
            if ai + 1 < offs.len() {
                let mut p = b.pt.clone();
                {
                    let blk = acc(&mut p);
                    let bb = offs[ai + 1];
                    for i in 0..db {
                        blk.swap(*a + i, bb + i);
                    }
                }
                judge(b, &mut t, &p.to_bytes(), &format!("{}: nodes {} and {} swapped", name, ai, ai + 1), name);
            }
        }
        // an extra node appended to the last vector / an extra empty vector / a node removed
        if blk0.len() >= 2 {
            let mut p = b.pt.clone();
            {
                let blk = acc(&mut p);
                blk[0] = blk[0].wrapping_add(1);
                blk.push(0);
            }
            judge(b, &mut t, &p.to_bytes(), &format!("{}: an empty node vector appended", name), name);
            let mut p = b.pt.clone();
            {
                let blk = acc(&mut p);
                blk[0] = blk[0].wrapping_add(1);
                blk.push(1);
                blk.extend_from_slice(&rng.bytes(db));
            }
            judge(b, &mut t, &p.to_bytes(), &format!("{}: a node vector with one extra node appended", name), name);
            // extra node inside the first vector
            let mut p = b.pt.clone();
            {
                let blk = acc(&mut p);
                if blk[0] > 0 {
                    let k1 = blk[1] as usize;
                    blk[1] = blk[1].wrapping_add(1);
                    let at = 2 + k1 * db;
                    if at <= blk.len() {
                        let extra = rng.bytes(db);
                        for (i, x) in extra.iter().enumerate() {
                            blk.insert(at + i, *x);
                        }
                    }
                }
            }
            judge(b, &mut t, &p.to_bytes(), &format!("{}: an extra node inserted into the first vector", name), name);
        }
        // the whole path block replaced by the path block of another opening
        let other = (k + 1) % all_paths.len();
        if other != k {
            let mut p = b.pt.clone();
            *acc(&mut p) = all_paths[other].clone();
            judge(b, &mut t, &p.to_bytes(), &format!("{}: replaced by the paths of opening {}", name, other), name);
        }
    }
    // ---- whole openings swapped between trace segments / trace and constraints
    {
        let mut p = b.pt.clone();
        std::mem::swap(&mut p.trace_queries[0].1, &mut p.constraint_queries.1);
        judge(b, &mut t, &p.to_bytes(), "paths of main trace and constraint openings swapped", "trace_queries.paths");
        let mut p = b.pt.clone();
        std::mem::swap(&mut p.trace_queries[0].0, &mut p.constraint_queries.0);
        judge(b, &mut t, &p.to_bytes(), "values of main trace and constraint openings swapped", "trace_queries.values");
        if b.pt.trace_queries.len() == 2 {
            let mut p = b.pt.clone();
            p.trace_queries.swap(0, 1);
            judge(b, &mut t, &p.to_bytes(), "main and auxiliary trace openings swapped", "trace_queries.values");
        }
    }
    // ---- commitments
    {
        let k = b.pt.commitments.len() / db;
        for i in 0..k {
            for j in i + 1..k {
                let mut p = b.pt.clone();
                if swap_chunks(&mut p.commitments, i, j, db) {
                    judge(b, &mut t, &p.to_bytes(), &format!("commitments {} and {} swapped", i, j), "commitments");
                }
            }
            let mut p = b.pt.clone();
            p.commitments[i * db..(i + 1) * db].copy_from_slice(&rng.bytes(db));
            judge(b, &mut t, &p.to_bytes(), &format!("commitment {} replaced by random bytes", i), "commitments");
            if k > 1 {
                let mut p = b.pt.clone();
                let src: Vec<u8> = p.commitments[((i + 1) % k) * db..((i + 1) % k + 1) * db].to_vec();
                p.commitments[i * db..(i + 1) * db].copy_from_slice(&src);
                judge(b, &mut t, &p.to_bytes(), &format!("commitment {} replaced by commitment {}", i, (i + 1) % k), "commitments");
            }
        }
        let mut p = b.pt.clone();
        let last: Vec<u8> = p.commitments[(k - 1) * db..].to_vec();
        p.commitments.extend_from_slice(&last);
        judge(b, &mut t, &p.to_bytes(), "last commitment duplicated", "commitments");
        let mut p = b.pt.clone();
        p.commitments.truncate((k - 1) * db);
        judge(b, &mut t, &p.to_bytes(), "last commitment dropped", "commitments");
    }
    // ---- FRI layers: duplicated, dropped, swapped
    {
        let nl = b.pt.layers.len();
        if nl > 0 {
            let mut p = b.pt.clone();
            let l = p.layers[nl - 1].clone();
            p.layers.push(l);
            judge(b, &mut t, &p.to_bytes(), "last FRI layer duplicated (appended)", "fri.num_layers");
            let mut p = b.pt.clone();
            let l = p.layers[0].clone();
            p.layers.insert(0, l);
            judge(b, &mut t, &p.to_bytes(), "first FRI layer duplicated (in front)", "fri.num_layers");
            let mut p = b.pt.clone();
            p.layers.pop();
            judge(b, &mut t, &p.to_bytes(), "last FRI layer dropped", "fri.num_layers");
            let mut p = b.pt.clone();
            p.layers.remove(0);
            judge(b, &mut t, &p.to_bytes(), "first FRI layer dropped", "fri.num_layers");
            if nl > 1 {
                let mut p = b.pt.clone();
                p.layers.swap(0, 1);
                judge(b, &mut t, &p.to_bytes(), "FRI layers 0 and 1 swapped", "fri.layer.values");
                let mut p = b.pt.clone();
                let v1 = p.layers[1].0.clone();
                p.layers[0].0 = v1;
                judge(b, &mut t, &p.to_bytes(), "values of FRI layer 0 replaced by those of layer 1", "fri.layer.values");
            }
        } else {
            // no layer expected: add one made of the constraint opening
            let mut p = b.pt.clone();
            p.layers.push((b.pt.constraint_queries.0.clone(), b.pt.constraint_queries.1.clone()));
            judge(b, &mut t, &p.to_bytes(), "a FRI layer added where none is expected", "fri.num_layers");
        }
    }
    // ---- OOD frames
    {
        let e = eb * c.opts.ext as usize;
        if b.pt.ood_trace.len() > 1 + 2 * e {
            let mut p = b.pt.clone();
            let body = &mut p.ood_trace[1..];
            swap_chunks(body, 0, 1, e);
            judge(b, &mut t, &p.to_bytes(), "OOD frame: current and next value of column 0 swapped", "ood.trace");
            let mut p = b.pt.clone();
            p.ood_trace[0] = 4;
            let extra = p.ood_trace[1..].to_vec();
            p.ood_trace.extend_from_slice(&extra);
            judge(b, &mut t, &p.to_bytes(), "OOD frame: frame size 4 with the data doubled", "ood.trace");
        }
        if b.pt.ood_evals.len() >= 2 * e {
            let mut p = b.pt.clone();
            swap_chunks(&mut p.ood_evals, 0, 1, e);
            judge(b, &mut t, &p.to_bytes(), "OOD evaluations 0 and 1 swapped", "ood.evaluations");
        }
        let mut p = b.pt.clone();
        std::mem::swap(&mut p.ood_trace, &mut p.ood_evals);
        judge(b, &mut t, &p.to_bytes(), "OOD trace states and evaluations swapped", "ood.trace");
    }
    t
}

// ---- adaptive remainder substitution
fn remainder_sub_g<B: GField, H: ElementHasher<BaseField = B>>(b: &Base, scale: u128) -> Option<Vec<u8>> {
    let o = &b.cfg.opts;
    let lde = b.cfg.desc.trace_len * o.blowup;
    let layers = o.to_options().to_fri_options().num_fri_layers(lde);
    let mut dom = lde;
    let mut pos = b.positions.clone();
    for _ in 0..layers {
        pos = fold_positions(&pos, dom, o.folding);
        dom /= o.folding;
    }
    // the remainder is checked at `offset * g_last^position`
    let g = B::get_root_of_unity(lde.ilog2());
    let mut g_last = g;
    for _ in 0..layers {
        g_last = g_last.exp((o.folding as u64).into());
    }
    let offset = B::GENERATOR;
    let xs: Vec<B> = pos.iter().map(|p| offset * g_last.exp((*p as u64).into())).collect();
    // V(X) = prod (X - x_j), coefficients in ascending order
    let mut v: Vec<B> = vec![B::ONE];
    for x in &xs {
        let mut nv = vec![B::ZERO; v.len() + 1];
        for (i, cf) in v.iter().enumerate() {
            nv[i + 1] += *cf;
            nv[i] -= *cf * *x;
        }
        v = nv;
    }
    let eb = B::ELEMENT_BYTES;
    let e = eb * o.ext as usize;
    let m = b.pt.remainder.len() / e;
    if v.len() > m {
        return None;
    }
    let s = B::from_word(scale % B::MOD);
    let mut rem = b.pt.remainder.clone();
    for (i, cf) in v.iter().enumerate() {
        let at = i * e;
        let mut cur: u128 = 0;
        for k in 0..eb {
            cur |= (rem[at + k] as u128) << (8 * k);
        }
        let nv = (B::from_word(cur) + s * *cf).canon();
        for k in 0..eb {
            rem[at + k] = (nv >> (8 * k)) as u8;
        }
    }
    Some(rem)
}

fn run_remainder(b: &Base) -> Tally {
    let mut t = Tally::default();
    let mut rng = Rng::new(b.cfg.seed ^ 0x4e3a);
    for scale in [1u128, 2, rng.u128() | 1] {
        let field = b.cfg.field;
        let hash = b.cfg.hash;
        let rem = adv_dispatch!(field, hash, remainder_sub_g, (b, scale));
        if let Some(rem) = rem {
            let mut p = b.pt.clone();
            p.remainder = rem;
            judge(
                b,
                &mut t,
                &p.to_bytes(),
                &format!("remainder + {} * vanishing polynomial of the {} folded queried points", scale, b.positions.len()),
                "fri.remainder",
            );
        }
    }
    // non-adaptive controls: constant added, coefficients permuted, zero remainder
    let eb = elem_bytes(b.cfg.field);
    let mut p = b.pt.clone();
    p.remainder[0] ^= 1;
    judge(b, &mut t, &p.to_bytes(), "remainder: constant coefficient changed", "fri.remainder");
    let mut p = b.pt.clone();
    for x in p.remainder.iter_mut() {
        *x = 0;
    }
    judge(b, &mut t, &p.to_bytes(), "remainder: all coefficients zero", "fri.remainder");
    let e = eb * b.cfg.opts.ext as usize;
    if b.pt.remainder.len() >= 2 * e {
        let mut p = b.pt.clone();
        swap_chunks(&mut p.remainder, 0, 1, e);
        judge(b, &mut t, &p.to_bytes(), "remainder: coefficients 0 and 1 swapped", "fri.remainder");
    }
    t
}

fn run_partitions(b: &Base) -> Tally {
    let mut t = Tally::default();
    for v in 0..=255u8 {
        // 2usize.pow(v) overflows from 64 on (a parser panic that belongs to C06): stay below
        if v >= 64 {
            continue;
        }
        let mut p = b.pt.clone();
        p.num_partitions = v;
        judge(b, &mut t, &p.to_bytes(), &format!("FRI partition count byte set to {}", v), "fri.num_partitions");
    }
    t
}

fn run_nonces(b: &Base, k: usize) -> Tally {
    let mut t = Tally::default();
    let mut rng = Rng::new(b.cfg.seed ^ 0x1107ce);
    for i in 0..k {
        let v = if i < 16 { i as u64 } else { rng.u64() };
        let mut p = b.pt.clone();
        p.nonce = v.to_le_bytes().to_vec();
        judge(b, &mut t, &p.to_bytes(), &format!("proof-of-work nonce set to {}", v), "pow_nonce");
    }
    t
}

/// content outside what the verifier consumes
fn run_extras(b: &Base) -> Tally {
    let mut t = Tally::default();
    let mut rng = Rng::new(b.cfg.seed ^ 0xe87a);
    // GKR bytes present / absent / changed
    match &b.pt.gkr {
        None => {
            for g in [vec![], vec![0u8], vec![1, 2, 3], rng.bytes(9)] {
                let mut p = b.pt.clone();
                p.gkr = Some(g.clone());
                judge(b, &mut t, &p.to_bytes(), &format!("GKR proof bytes `{}` added", hex(&g)), "gkr_proof");
            }
        },
        Some(g0) => {
            let mut p = b.pt.clone();
            p.gkr = None;
            judge(b, &mut t, &p.to_bytes(), "GKR proof removed", "gkr_proof");
            for extra in [vec![0u8], vec![7u8, 7], rng.bytes(8)] {
                let mut p = b.pt.clone();
                let mut g = g0.clone();
                g.extend_from_slice(&extra);
                p.gkr = Some(g);
                judge(b, &mut t, &p.to_bytes(), &format!("GKR proof extended by `{}`", hex(&extra)), "gkr_proof");
            }
            for i in 0..g0.len().min(16) {
                let mut p = b.pt.clone();
                let mut g = g0.clone();
                g[i] ^= 1;
                p.gkr = Some(g);
                judge(b, &mut t, &p.to_bytes(), &format!("GKR proof byte {} changed", i), "gkr_proof");
            }
        },
    }
    // trace metadata: zero bytes appended (the seed pads every chunk of metadata with zeros), changed, removed
    for extra in [vec![0u8], vec![0, 0], vec![0; 7], vec![0; 8], vec![0; 15], vec![0; 16], vec![1u8]] {
        let mut p = b.pt.clone();
        p.meta.extend_from_slice(&extra);
        judge(b, &mut t, &p.to_bytes(), &format!("trace metadata extended by `{}`", hex(&extra)), "context.trace_meta");
    }
    if !b.pt.meta.is_empty() {
        let mut p = b.pt.clone();
        p.meta.pop();
        judge(b, &mut t, &p.to_bytes(), "trace metadata: last byte removed", "context.trace_meta");
        let mut p = b.pt.clone();
        p.meta.clear();
        judge(b, &mut t, &p.to_bytes(), "trace metadata removed", "context.trace_meta");
        let mut p = b.pt.clone();
        p.meta[0] ^= 0x80;
        judge(b, &mut t, &p.to_bytes(), "trace metadata: first byte changed", "context.trace_meta");
    }
    // the Lagrange block: trailing bytes after the frame (or after the zero count)
    for extra in [vec![0u8], vec![1u8], rng.bytes(8), rng.bytes(16)] {
        let mut p = b.pt.clone();
        p.ood_lagrange.extend_from_slice(&extra);
        judge(b, &mut t, &p.to_bytes(), &format!("Lagrange frame block extended by `{}`", hex(&extra)), "ood.lagrange");
    }
    // more FRI layers than the schedule has
    {
        let src = if let Some(l) = b.pt.layers.last() { l.clone() } else { (b.pt.constraint_queries.0.clone(), b.pt.constraint_queries.1.clone()) };
        for k in 1..=2 {
            let mut p = b.pt.clone();
            for _ in 0..k {
                p.layers.push(src.clone());
            }
            judge(b, &mut t, &p.to_bytes(), &format!("{} surplus FRI layer(s) appended", k), "fri.num_layers");
        }
    }
    // trailing bytes after the proof: `from_bytes` ignores them, the decoded content is identical
    let mut m = b.bytes.clone();
    m.extend_from_slice(&[0, 1, 2]);
    judge(b, &mut t, &m, "three bytes appended to the serialized proof", "trailing");
    t
}

// ------------------------------------------------------------------------------------ chan (model tie)
/// structural mutants used for the correspondence of the sub-structure parse
fn chan_mutant(b: &Base, idx: usize) -> Vec<u8> {
    let mut rng = Rng::new(b.cfg.seed ^ (idx as u64).wrapping_mul(0x9e37_79b9));
    let mut p = b.pt.clone();
    let nblocks = blocks(&b.pt).len();
    match idx % 8 {
        0 => {},
        1 | 2 | 3 => {
            // resize one block
            let k = (idx / 8) % nblocks;
            let bl = blocks(&b.pt);
            let d = [1usize, 8, 16, 32, 2, 24, 31, 7][(idx / (8 * nblocks)) % 8];
            let blk = (bl[k].1)(&mut p);
            if idx % 8 == 1 {
                let l = blk.len();
                blk.truncate(l.saturating_sub(d));
            } else if idx % 8 == 2 {
                blk.extend_from_slice(&vec![0u8; d]);
            } else {
                blk.extend_from_slice(&rng.bytes(d));
            }
        },
        4 => {
            // one byte of one block changed
            let k = (idx / 8) % nblocks;
            let bl = blocks(&b.pt);
            let blk = (bl[k].1)(&mut p);
            if !blk.is_empty() {
                let at = rng.below(blk.len() as u64) as usize;
                blk[at] = if idx % 16 < 8 { 0xff } else { rng.u64() as u8 };
            }
        },
        5 => {
            if idx % 16 < 8 {
                if let Some(l) = p.layers.last().cloned() {
                    p.layers.push(l);
                }
            } else {
                p.layers.pop();
            }
        },
        6 => p.nuq = rng.below(8) as u8,
        _ => {
            p.ood_trace[0] = rng.below(5) as u8;
        },
    }
    p.to_bytes()
}

fn chan_parse_g<B: GField, H: ElementHasher<BaseField = B>>(desc: &Arc<AirDesc>, proof: Proof) -> String {
    use winter_math::fields::{CubeExtension, QuadExtension};
    match proof.options().field_extension() {
        winter_air::FieldExtension::None => chan_parse_e::<B, B, H>(desc, proof),
        winter_air::FieldExtension::Quadratic => chan_parse_e::<B, QuadExtension<B>, H>(desc, proof),
        winter_air::FieldExtension::Cubic => chan_parse_e::<B, CubeExtension<B>, H>(desc, proof),
    }
}

/// the checks and parse steps of `VerifierChannel::new`, in its order, made with the public parsers
/// (the channel type itself is private to the verifier crate)
fn chan_parse_e<B: GField, E: FieldElement<BaseField = B>, H: ElementHasher<BaseField = B>>(desc: &Arc<AirDesc>, proof: Proof) -> String {
    let air = GenericAir::<B>::new(proof.trace_info().clone(), GenPub { desc: desc.clone(), values: vec![] }, proof.options().clone());
    let Proof { context: _, num_unique_queries, commitments, mut trace_queries, constraint_queries, ood_frame, fri_proof, pow_nonce: _, gkr_proof } = proof;
    let lde = air.lde_domain_size();
    let fri_options = air.options().to_fri_options();
    let nuq = num_unique_queries as usize;
    let num_layers = fri_options.num_fri_layers(lde);
    let (troots, _croot, froots) = match commitments.parse::<H>(air.trace_info().num_segments(), num_layers) {
        Ok(x) => x,
        Err(_) => return "err:commitments".into(),
    };
    if nuq == 0 {
        return "err:queries".into();
    }
    if trace_queries.len() != air.trace_info().num_segments() {
        return "panic".into();
    }
    let main = trace_queries.remove(0);
    let (_, main_states) = match main.parse::<H, B>(lde, nuq, air.trace_info().main_trace_width()) {
        Ok(x) => x,
        Err(_) => return "err:trace-queries".into(),
    };
    let mut rows = main_states.num_rows();
    if air.trace_info().is_multi_segment() {
        let aux = trace_queries.remove(0);
        match aux.parse::<H, E>(lde, nuq, air.trace_info().get_aux_segment_width()) {
            Ok(x) => rows += x.1.num_rows(),
            Err(_) => return "err:aux-queries".into(),
        }
    }
    let (_, cevals) = match constraint_queries.parse::<H, E>(lde, nuq, air.context().num_constraint_composition_columns()) {
        Ok(x) => x,
        Err(_) => return "err:constraint-queries".into(),
    };
    if fri_proof.num_layers() != num_layers {
        return "err:fri-layer-count".into();
    }
    let remainder: Vec<E> = match fri_proof.parse_remainder() {
        Ok(r) => r,
        Err(_) => return "err:remainder".into(),
    };
    let (lq, _lp) = match fri_proof.parse_layers::<H, E>(lde, fri_options.folding_factor()) {
        Ok(x) => x,
        Err(_) => return "err:fri-layers".into(),
    };
    let (frame, evals) = match ood_frame.parse::<E>(air.trace_info().main_trace_width(), air.trace_info().aux_segment_width(), air.context().num_constraint_composition_columns()) {
        Ok(x) => x,
        Err(_) => return "err:ood".into(),
    };
    let expected_rows = if air.context().has_lagrange_kernel_aux_column() { Some(air.trace_length().ilog2() as usize + 1) } else { None };
    if frame.lagrange_kernel_frame().map(|f| f.num_rows()) != expected_rows {
        return "err:lagrange-rows".into();
    }
    if gkr_proof.is_some() && !air.context().has_lagrange_kernel_aux_column() {
        return "err:gkr".into();
    }
    format!(
        "ok roots={} fri={} rows={} crow={} rem={} layers={} lvals={} ood={} evals={}",
        troots.len(),
        froots.len(),
        rows,
        cevals.num_rows(),
        remainder.len(),
        lq.len(),
        lq.iter().map(|v| v.len().to_string()).collect::<Vec<_>>().join("."),
        frame.num_columns(),
        evals.len()
    )
}

fn exec_chan(t: &[&str]) -> Outcome {
    if t.len() != 4 {
        return Outcome::ok("bad-op");
    }
    let (field, hash, desc) = match (FieldId::parse(t[0]), HashId::parse(t[1]), AirDesc::parse(t[2])) {
        (Some(f), Some(h), Ok(d)) if h.compatible(f) => (f, h, Arc::new(d)),
        _ => return Outcome::ok("bad-op"),
    };
    if t[3] != "-" && (t[3].len() % 2 != 0 || !t[3].bytes().all(|b| b.is_ascii_hexdigit())) {
        return Outcome::ok("bad-op");
    }
    let m = unhex(t[3]);
    let p = match guarded(|| Proof::from_bytes(&m)) {
        Ok(Ok(p)) => p,
        _ => return Outcome::ok("noparse"),
    };
    let r = guarded(|| adv_dispatch!(field, hash, chan_parse_g, (&desc, p)));
    match r {
        Ok(s) => Outcome::ok(s),
        Err(_) => Outcome::ok("panic"),
    }
}

// ------------------------------------------------------------------------------------ refv (reference verifier tie)
/// verdict class of a verifier error: the variant name; FRI errors keep the inner variant and its layer depth
fn refv_kind(e: &winter_verifier::VerifierError) -> String {
    use winter_fri::VerifierError as F;
    use winter_verifier::VerifierError as V;
    match e {
        V::FriVerificationFailed(f) => match f {
            F::InvalidLayerFolding(d) => format!("err:FriVerificationFailed.InvalidLayerFolding:{}", d),
            F::DegreeTruncation(_, _, d) => format!("err:FriVerificationFailed.DegreeTruncation:{}", d),
            _ => format!("err:{}", verifier_error_kind(e)),
        },
        _ => format!("err:{}", verifier_error_kind(e)),
    }
}

fn parse_acceptable(s: &str) -> Option<AcceptableOptions> {
    if let Some(r) = s.strip_prefix("os:") {
        let mut v = vec![];
        for o in r.split(',') {
            let o = OptSpec::parse(o)?;
            if !o.accepted() {
                return None;
            }
            v.push(o.to_options());
        }
        Some(AcceptableOptions::OptionSet(v))
    } else if let Some(r) = s.strip_prefix("mc:") {
        Some(AcceptableOptions::MinConjecturedSecurity(r.parse::<u32>().ok()?))
    } else {
        None
    }
}

fn pubs_text(p: &[u128]) -> String {
    if p.is_empty() {
        "-".into()
    } else {
        p.iter().map(|v| v.to_string()).collect::<Vec<_>>().join(",")
    }
}

/// `refv <field> <hasher> <opts> <seed> <desc> <acceptable> <pubs> <tag> <hex>`
fn exec_refv(t: &[&str]) -> Outcome {
    if t.len() != 9 {
        return Outcome::ok("bad-op");
    }
    let (field, hash, desc) = match (FieldId::parse(t[0]), HashId::parse(t[1]), AirDesc::parse(t[4])) {
        (Some(f), Some(h), Ok(d)) if h.compatible(f) && d.validate().is_ok() => (f, h, Arc::new(d)),
        _ => return Outcome::ok("bad-op"),
    };
    let acceptable = match parse_acceptable(t[5]) {
        Some(a) => a,
        None => return Outcome::ok("bad-op"),
    };
    let pubs: Vec<u128> = if t[6] == "-" {
        vec![]
    } else {
        match t[6].split(',').map(|x| x.parse::<u128>().ok()).collect::<Option<Vec<_>>>() {
            Some(p) => p,
            None => return Outcome::ok("bad-op"),
        }
    };
    if t[8] != "-" && (t[8].len() % 2 != 0 || !t[8].bytes().all(|b| b.is_ascii_hexdigit())) {
        return Outcome::ok("bad-op");
    }
    let bytes = unhex(t[8]);
    let proof = match guarded(|| Proof::from_bytes(&bytes)) {
        Err(_) => return Outcome::ok("panic"),
        Ok(Err(_)) => return Outcome::ok("parse-err"),
        Ok(Ok(p)) => p,
    };
    match guarded(|| verify(&desc, field, hash, &pubs, proof, &acceptable)) {
        Ok(Ok(())) => Outcome::ok("ok"),
        Ok(Err(e)) => Outcome::ok(refv_kind(&e)),
        Err(_) => Outcome::ok("panic"),
    }
}

/// an auxiliary segment that uses everything the model has for it: two random elements, a periodic value and
/// main cells of both rows in the constraints, a running sum and a pointwise image, a single assertion whose value
/// is a random element, and a sequence assertion whose values are the public values of a main sequence assertion
/// (`w<i>`) under a random linear map
fn aux_rich_desc(n: usize) -> AirDesc {
    let e0 = Expr::add(Expr::mul(Expr::Per(0), Expr::Cur(0)), Expr::Const(3));
    // a0 = r0 * c1 + r1 (pointwise), a1' = a1 + p0 * c0 * r1 + n1 (running sum that reads the next main row too)
    let img = Expr::add(Expr::mul(Expr::Rand(0), Expr::Cur(1)), Expr::Rand(1));
    let step = Expr::add(Expr::add(Expr::AuxCur(1), Expr::mul(Expr::mul(Expr::Per(0), Expr::Cur(0)), Expr::Rand(1))), Expr::Nxt(1));
    let c0 = Expr::sub(Expr::AuxCur(0), img.clone());
    let c1 = Expr::sub(Expr::AuxNxt(1), step.clone());
    let mut d = AirDesc {
        width: 2,
        trace_len: n,
        exemptions: 1,
        tail_junk: false,
        periodic: vec![vec![3u128, 5, 7, 11]],
        cols: vec![ColGen::Step { init: None, expr: e0.clone() }, ColGen::Counter],
        constraints: vec![
            Constraint { degree: Degree { base: 1, cycles: vec![4] }, expr: Expr::sub(Expr::Nxt(0), e0) },
            Constraint { degree: Degree::new(1), expr: Expr::sub(Expr::Nxt(1), Expr::add(Expr::Cur(1), Expr::Const(1))) },
        ],
        // public inputs: [c0[0], c1[0], c1[4], ...]: the sequence starts at offset 1
        assertions: vec![AssertDesc::single(0, 0), AssertDesc::sequence(1, 0, 4)],
        aux: None,
    };
    let cycles = d.cycles();
    d.aux = Some(AuxDesc {
        width: 2,
        num_rands: 2,
        lagrange: false,
        cols: vec![AuxGen::Fn(img), AuxGen::Acc { init: Expr::Rand(0), step }],
        constraints: vec![
            Constraint { degree: c0.degree(&cycles, n), expr: c0 },
            Constraint { degree: c1.degree(&cycles, n), expr: c1 },
        ],
        assertions: vec![
            AuxAssertDesc { a: AssertDesc::single(1, 0), value: Expr::Rand(0) },
            AuxAssertDesc {
                a: AssertDesc::sequence(0, 0, 4),
                value: Expr::add(Expr::mul(Expr::Rand(0), Expr::PubSeq(1)), Expr::Rand(1)),
            },
        ],
    });
    d
}

/// a Lagrange kernel column next to a running product that uses NO auxiliary random element (`num_rands = 0`: the
/// GKR verifier's draws are the only ones of the auxiliary phase), 16 rows (four Lagrange random elements)
fn lagrange_norands_desc(n: usize) -> AirDesc {
    let r6 = Expr::add(Expr::Cur(0), Expr::Const(7));
    let step = Expr::mul(Expr::AuxCur(0), Expr::add(Expr::Cur(0), Expr::Const(3)));
    AirDesc {
        width: 1,
        trace_len: n,
        exemptions: 1,
        tail_junk: false,
        periodic: vec![],
        cols: vec![ColGen::Step { init: None, expr: r6.clone() }],
        constraints: vec![Constraint { degree: Degree::new(1), expr: Expr::sub(Expr::Nxt(0), r6) }],
        assertions: vec![AssertDesc::single(0, 0)],
        aux: Some(AuxDesc {
            width: 2,
            num_rands: 0,
            lagrange: true,
            cols: vec![AuxGen::Acc { init: Expr::Const(1), step: step.clone() }],
            constraints: vec![Constraint { degree: Degree::new(2), expr: Expr::sub(Expr::AuxNxt(0), step) }],
            assertions: vec![AuxAssertDesc { a: AssertDesc::single(0, 0), value: Expr::Const(1) }],
        }),
    }
}

/// descriptions for the reference-verifier tie: periodic columns, the three assertion kinds, more than one
/// exemption, (for a good third of them) an auxiliary segment, and among these Lagrange kernel columns with and
/// without additional auxiliary random elements all occur
fn refv_descs(rng: &mut Rng, count: usize, max_log_len: u32) -> Vec<AirDesc> {
    let mut v: Vec<AirDesc> = small_descs(8);
    v.push(lagrange_norands_desc(16));
    v.push(aux_rich_desc(8));
    // the rich auxiliary segment with a Lagrange kernel column appended (two auxiliary random elements)
    {
        let mut d = aux_rich_desc(8);
        if let Some(x) = d.aux.as_mut() {
            x.width += 1;
            x.lagrange = true;
        }
        v.push(d);
    }
    let p0 = vec![3u128, 5, 7, 11];
    // periodic column in a constraint (degree with a cycle), periodic assertion on a cyclic column, sequence assertion
    let e = Expr::add(Expr::mul(Expr::Per(0), Expr::Cur(0)), Expr::Const(3));
    let d = AirDesc {
        width: 2,
        trace_len: 8,
        exemptions: 1,
        tail_junk: false,
        periodic: vec![p0.clone()],
        cols: vec![ColGen::Step { init: None, expr: e.clone() }, ColGen::Cyc(2)],
        constraints: vec![Constraint { degree: Degree { base: 1, cycles: vec![4] }, expr: Expr::sub(Expr::Nxt(0), e) }],
        assertions: vec![AssertDesc::sequence(0, 1, 4), AssertDesc::periodic(1, 0, 2), AssertDesc::single(0, 0)],
        aux: None,
    };
    v.push(d);
    // two exemptions with a junk tail, degree 3
    let e = Expr::add(Expr::pow(Expr::Cur(0), 3), Expr::Cur(1));
    let mut d = AirDesc {
        width: 2,
        trace_len: 16,
        exemptions: 2,
        tail_junk: true,
        periodic: vec![],
        cols: vec![ColGen::Step { init: None, expr: e.clone() }, ColGen::Counter],
        constraints: vec![
            Constraint { degree: Degree::new(3), expr: Expr::sub(Expr::Nxt(0), e) },
            Constraint { degree: Degree::new(1), expr: Expr::sub(Expr::Nxt(1), Expr::add(Expr::Cur(1), Expr::Const(1))) },
        ],
        assertions: vec![AssertDesc::single(0, 0), AssertDesc::sequence(1, 0, 8)],
        aux: None,
    };
    v.push(d.clone());
    d.exemptions = 3;
    v.push(d);
    // periodic columns whose interpolants have vanishing leading coefficients: a cycle of 4 with period-2 values,
    // a constant cycle of 2 (the verifier derives the power of x from the NUMBER of coefficients; 16 rows: 16/3 != 16/4)
    let e = Expr::add(Expr::mul(Expr::Per(0), Expr::Cur(0)), Expr::Per(1));
    v.push(AirDesc {
        width: 1,
        trace_len: 16,
        exemptions: 1,
        tail_junk: false,
        periodic: vec![vec![3, 5, 3, 5], vec![7, 7]],
        cols: vec![ColGen::Step { init: None, expr: e.clone() }],
        constraints: vec![Constraint { degree: Degree { base: 1, cycles: vec![4] }, expr: Expr::sub(Expr::Nxt(0), e) }],
        assertions: vec![AssertDesc::single(0, 0), AssertDesc::single(0, 15)],
        aux: None,
    });
    // degree 5: the AIR constructor refuses blowup factors below 4 (a mutated blowup byte makes `verify` panic)
    let e = Expr::add(Expr::pow(Expr::Cur(0), 5), Expr::Const(5));
    v.push(AirDesc {
        width: 1,
        trace_len: 8,
        exemptions: 1,
        tail_junk: false,
        periodic: vec![],
        cols: vec![ColGen::Step { init: None, expr: e.clone() }],
        constraints: vec![Constraint { degree: Degree::new(5), expr: Expr::sub(Expr::Nxt(0), e) }],
        assertions: vec![AssertDesc::single(0, 0)],
        aux: None,
    });
    // random descriptions: with an auxiliary segment until a good third of all descriptions has one
    let bud = Budget { min_log_len: 3, max_log_len, max_width: 3, max_degree: 3, aux_pct: 0, lagrange_pct: 0, exemptions: true, degenerate: false, sequences: true };
    let bud_aux = Budget { aux_pct: 100, lagrange_pct: 40, ..bud.clone() };
    let mut guard = 0;
    while v.len() < count && guard < 10 * count {
        guard += 1;
        let naux = v.iter().filter(|d| d.aux.is_some()).count();
        let want_aux = 5 * naux < 2 * count;
        let d = random_desc(rng, if want_aux { &bud_aux } else { &bud });
        if d.aux.is_some() == want_aux && d.validate().is_ok() {
            v.push(d);
        }
    }
    v.into_iter().filter(|d| d.validate().is_ok()).take(count).collect()
}

/// the `refv` op lines: per configuration the honest proof, policy and public-input variants of it, and a
/// sample of every mutation family applied to its bytes
fn refv_lines(rng: &mut Rng, tier: Tier) -> Vec<String> {
    let quick = tier == Tier::Quick;
    let (ncfg, per) = if quick { (16, 2usize) } else { (88, 4usize) };
    let descs = refv_descs(rng, ncfg, if quick { 4 } else { 5 });
    let mut out = vec![];
    for (k, d) in descs.iter().enumerate() {
        let n = d.trace_len;
        let b = d.min_blowup().max(if k % 3 == 0 { 4 } else { 2 });
        let (f, r) = [(2usize, 1usize), (4, 1), (2, 3), (4, 3), (2, 0), (8, 1), (4, 7)][k % 7];
        let (f, r) = if fri_ok(n * b, b, f, r) { (f, r) } else { (2, 3) };
        let q = [1usize, 2, 3, 4][k % 4];
        let g = if k % 4 == 1 { 2 } else { 0 };
        let ext = [1u8, 2, 1, 2, 3][k % 5];
        let meta = match k % 3 {
            0 => vec![],
            1 => vec![7u8],
            _ => (1..=9u8).collect(),
        };
        // the instantiation of the verifier: about half the configurations the 64-bit field with Rp64_256, the others
        // the 64-bit field with RpJive64_256 and the 62-bit field with Rp62_248 (both with and without aux segment)
        let (field, hash) = match k % 5 {
            1 => (FieldId::F64, HashId::RpJive64_256),
            3 => (FieldId::F62, HashId::Rp62_248),
            0 if k > 0 => (FieldId::F62, HashId::Rp62_248),
            _ => (FieldId::F64, HashId::Rp64_256),
        };
        let ext = if field.supports_ext(ext) { ext } else { 1 };
        let c = Cfg { field, hash, opts: OptSpec::new(q, b, g, ext, f, r), seed: 7000 + k as u64, desc: Arc::new(d.clone()), meta };
        let head = format!("refv {} {} {} {} {}", c.field.name(), c.hash.name(), c.opts.to_text(), c.seed, c.desc.to_line());
        let base = match make_base(&c) {
            Ok(x) => x,
            Err(_) => {
                // the honest proof cannot be built or is not accepted: the `fields` op reports what is wrong with
                // the configuration (oracle site c03.harness.*), and the honest bytes still go to both verifiers
                out.push(format!("fields {}", cfg_text(&c)));
                let trace = gen_trace(&c.desc, c.field, c.seed);
                let pubs = pub_inputs(&c.desc, c.field, &trace);
                let desc = c.desc.clone();
                if let Ok(o) = guarded(|| prove_adv(&desc, &trace, c.field, &c.opts, c.hash, None, &c.meta, None)) {
                    if let Ok(p) = o.proof {
                        out.push(format!("{} os:{} {} honest {}", head, c.opts.to_text(), pubs_text(&pubs), hex(&p.to_bytes())));
                    }
                }
                continue;
            },
        };
        let os = format!("os:{}", c.opts.to_text());
        let pubs = pubs_text(&base.pubs);
        let hx = hex(&base.bytes);
        // honest proof under both kinds of policy
        out.push(format!("{} {} {} honest {}", head, os, pubs, hx));
        out.push(format!("{} mc:0 {} honest {}", head, pubs, hx));
        // policies that refuse it / just accept it
        let level = match c.hash {
            HashId::RpJive64_256 => base.proof.security_level::<RpJive64_256>(true),
            HashId::Rp62_248 => base.proof.security_level::<Rp62_248>(true),
            _ => base.proof.security_level::<Rp64_256>(true),
        };
        out.push(format!("{} mc:{} {} policy {}", head, level, pubs, hx));
        out.push(format!("{} mc:{} {} policy {}", head, level + 1, pubs, hx));
        let mut other = c.opts;
        other.queries += 1;
        out.push(format!("{} os:{} {} policy {}", head, other.to_text(), pubs, hx));
        out.push(format!("{} os:{},{} {} policy {}", head, other.to_text(), c.opts.to_text(), pubs, hx));
        // other public inputs: one value changed, one dropped, one appended
        let mut p2 = base.pubs.clone();
        p2[0] = (p2[0] + 1) % c.field.modulus();
        out.push(format!("{} {} {} pubs {}", head, os, pubs_text(&p2), hx));
        if k % 2 == 0 {
            let mut p3 = base.pubs.clone();
            p3.pop();
            out.push(format!("{} {} {} pubs {}", head, os, pubs_text(&p3), hx));
            let mut p4 = base.pubs.clone();
            p4.push(0);
            out.push(format!("{} {} {} pubs {}", head, os, pubs_text(&p4), hx));
        }
        // mutants of the serialized proof, sampled per family
        let nbits = base.bytes.len() * 8;
        let fams: Vec<(&'static str, usize, Vec<(&'static str, Vec<u8>)>)> = vec![
            ("flips", 3 * per, collect_mutants(|| run_flips(&base, (k * 7) % 61, nbits, 61))),
            ("bytes", per, collect_mutants(|| run_bytes(&base, (k * 5) % 97, base.bytes.len(), 97))),
            ("fields", 2 * per, collect_mutants(|| run_fields(&base))),
            ("resize", per, collect_mutants(|| run_resize(&base))),
            ("reorder", 2 * per, collect_mutants(|| run_reorder(&base))),
            ("remainder", if quick { 3 } else { 6 }, collect_mutants(|| run_remainder(&base))),
            ("partitions", per.min(2), collect_mutants(|| run_partitions(&base))),
            ("nonces", per.min(2), collect_mutants(|| run_nonces(&base, 6))),
            ("extras", per, collect_mutants(|| run_extras(&base))),
            ("chan", per, (0..24).map(|i| ("structure", chan_mutant(&base, i * 5 + k))).filter(|m| m.1 != base.bytes).collect()),
        ];
        // the context bytes that decide the shape of everything else: every byte of the trace info and of the
        // options x small / boundary values (these reach the AIR constructor and the channel with other shapes)
        let mut shape: Vec<(&'static str, Vec<u8>)> = vec![];
        for (name, len) in [("context.trace_info", 4usize), ("context.options", 6)] {
            for i in 0..len {
                let cur = if name == "context.trace_info" { base.pt.trace_info[i] } else { base.pt.options[i] };
                for v in [0u8, 1, 2, 3, 4, 5, 8, 16, 32, 255, cur.wrapping_add(1), cur.wrapping_sub(1), cur.wrapping_mul(2), cur / 2] {
                    if v == cur {
                        continue;
                    }
                    let mut p = base.pt.clone();
                    if name == "context.trace_info" {
                        p.trace_info[i] = v;
                    } else {
                        p.options[i] = v;
                    }
                    shape.push((name, p.to_bytes()));
                }
            }
        }
        // always: a blowup factor below what the AIR's degrees need (the AIR constructor panics inside `verify`)
        if c.desc.min_blowup() > 2 {
            let mut p = base.pt.clone();
            p.options[1] = 2;
            out.push(format!("{} mc:0 {} shape:context.options {}", head, pubs, hex(&p.to_bytes())));
        }
        // always: the remainder with as many zero coefficients appended / with its upper half dropped (length
        // prefix consistent): the order of the remainder checks and what exactly is hashed for the commitment
        {
            let mut p = base.pt.clone();
            let l = p.remainder.len();
            p.remainder.extend(std::iter::repeat(0u8).take(l));
            if p.remainder.len() <= 65535 {
                out.push(format!("{} {} {} remresize:fri.remainder {}", head, os, pubs, hex(&p.to_bytes())));
            }
            let e = elem_bytes(c.field) * c.opts.ext as usize;
            if l >= 2 * e && (l / e).is_power_of_two() {
                let mut p = base.pt.clone();
                p.remainder.truncate(l / 2);
                out.push(format!("{} {} {} remresize:fri.remainder {}", head, os, pubs, hex(&p.to_bytes())));
            }
        }
        // always (Lagrange kernel column): the GKR proof of the family's dummy GKR verifier is a vint64 `usize`, the
        // number of Lagrange random elements to draw: one less / one more than log2(n), 0, 64, 65 (refused by the
        // GKR verifier), the right number in a longer vint64 encoding, a trailing byte, no bytes, no GKR proof at all;
        // and the Lagrange kernel frame with a row dropped / duplicated (length prefix consistent)
        if c.desc.has_lagrange() {
            let l = n.trailing_zeros() as u64;
            let vint = |v: u64, len: u32| -> Vec<u8> {
                // `write_usize`: `len` bytes, the value shifted left by `len`, bit `len - 1` set
                let x: u128 = ((v as u128) << len) | (1u128 << (len - 1));
                (0..len).map(|i| (x >> (8 * i)) as u8).collect()
            };
            let mut variants: Vec<(&'static str, Option<Vec<u8>>)> = vec![
                ("fewer", Some(vint(l - 1, 1))),
                ("more", Some(vint(l + 1, 1))),
                ("zero", Some(vint(0, 1))),
                ("max", Some(vint(64, 1))),
                ("refused", Some(vint(65, 2))),
                ("wide", Some(vint(l, 2))),
                ("wider", Some(vint(l, 4))),
                ("empty", Some(vec![])),
                ("absent", None),
            ];
            let mut tr = vint(l, 1);
            tr.push(0);
            variants.push(("trailing", Some(tr)));
            for (name, g) in variants {
                let mut p = base.pt.clone();
                p.gkr = g;
                out.push(format!("{} {} {} gkr:{} {}", head, os, pubs, name, hex(&p.to_bytes())));
            }
            let e = elem_bytes(c.field) * c.opts.ext as usize;
            if base.pt.ood_lagrange.len() > 1 + e {
                let mut p = base.pt.clone();
                let rows = p.ood_lagrange[0];
                p.ood_lagrange[0] = rows - 1;
                p.ood_lagrange.truncate(1 + e * (rows as usize - 1));
                out.push(format!("{} {} {} lagframe:short {}", head, os, pubs, hex(&p.to_bytes())));
                let mut p = base.pt.clone();
                p.ood_lagrange[0] = rows + 1;
                let last = p.ood_lagrange[p.ood_lagrange.len() - e..].to_vec();
                p.ood_lagrange.extend(last);
                out.push(format!("{} {} {} lagframe:long {}", head, os, pubs, hex(&p.to_bytes())));
            }
        }
        // a prover that corrupts one cell of the auxiliary segment after building it (the auxiliary transition
        // constraints / boundary assertions are then violated): what the verifiers answer must be the same
        if let Some(x) = &c.desc.aux {
            for (col, row) in [(0usize, 1usize), (x.width - 1, n - 1)] {
                let trace = gen_trace(&c.desc, c.field, c.seed);
                let desc = c.desc.clone();
                if let Ok(o) = guarded(|| prove_adv(&desc, &trace, c.field, &c.opts, c.hash, None, &c.meta, Some((col, row)))) {
                    if let Ok(p) = o.proof {
                        out.push(format!("{} {} {} auxbad:aux.{}.{} {}", head, os, pubs, col, row, hex(&p.to_bytes())));
                    }
                }
            }
        }
        let mut fams = fams;
        fams.push(("shape", 5 * per, shape));
        for (fam, take, mut ms) in fams {
            // sample without replacement
            let mut taken = 0;
            while taken < take && !ms.is_empty() {
                let i = rng.below(ms.len() as u64) as usize;
                let (comp, m) = ms.swap_remove(i);
                taken += 1;
                let same_opts = match guarded(|| Proof::from_bytes(&m)) {
                    Ok(Ok(p)) => p.options() == base.proof.options(),
                    _ => true,
                };
                let acc = if same_opts { os.clone() } else { "mc:0".to_string() };
                out.push(format!("{} {} {} {}:{} {}", head, acc, pubs, fam, comp, hex(&m)));
            }
        }
    }
    // the honest proofs the Lean kernel checks (WinterProofs/RefVerifierWitness*.lean hold these bytes): the
    // smallest configuration with an auxiliary segment (running product, one random element; 16-point LDE
    // domain, one query, one FRI layer)
    for d in small_descs(8).into_iter().filter(|d| d.aux.is_some() && !d.has_lagrange()).take(1) {
        let c = Cfg { field: FieldId::F64, hash: HashId::Rp64_256, opts: OptSpec::new(1, 2, 0, 1, 4, 1), seed: 7100, desc: Arc::new(d), meta: vec![] };
        if let Ok(base) = make_base(&c) {
            out.push(format!(
                "refv {} {} {} {} {} os:{} {} honest {}",
                c.field.name(), c.hash.name(), c.opts.to_text(), c.seed, c.desc.to_line(), c.opts.to_text(), pubs_text(&base.pubs), hex(&base.bytes)
            ));
        }
    }
    out
}

// ------------------------------------------------------------------------------------ generators
fn ex(e: Expr) -> Expr {
    e
}

fn small_descs(n: usize) -> Vec<AirDesc> {
    let mut v = vec![];
    let sq = Expr::add(Expr::pow(Expr::Cur(0), 2), Expr::Const(5));
    // one column, degree 2
    v.push(AirDesc {
        width: 1,
        trace_len: n,
        exemptions: 1,
        tail_junk: false,
        periodic: vec![],
        cols: vec![ColGen::Step { init: None, expr: sq.clone() }],
        constraints: vec![Constraint { degree: Degree::new(2), expr: Expr::sub(Expr::Nxt(0), sq.clone()) }],
        assertions: vec![AssertDesc::single(0, 0)],
        aux: None,
    });
    // two columns (fibonacci), assertions first and last
    let f0 = Expr::Cur(1);
    let f1 = Expr::add(Expr::Cur(0), Expr::Cur(1));
    v.push(AirDesc {
        width: 2,
        trace_len: n,
        exemptions: 1,
        tail_junk: false,
        periodic: vec![],
        cols: vec![ColGen::Step { init: Some(1), expr: f0.clone() }, ColGen::Step { init: Some(1), expr: f1.clone() }],
        constraints: vec![
            Constraint { degree: Degree::new(1), expr: Expr::sub(Expr::Nxt(0), f0) },
            Constraint { degree: Degree::new(1), expr: Expr::sub(Expr::Nxt(1), f1) },
        ],
        assertions: vec![AssertDesc::single(0, 0), AssertDesc::single(1, n - 1)],
        aux: None,
    });
    // auxiliary segment (running product), with and without a Lagrange kernel column
    let r6 = Expr::add(Expr::Cur(0), Expr::Const(7));
    let step = Expr::mul(Expr::AuxCur(0), Expr::add(Expr::Cur(0), Expr::Rand(0)));
    let mut d = AirDesc {
        width: 2,
        trace_len: n,
        exemptions: 1,
        tail_junk: false,
        periodic: vec![],
        cols: vec![ColGen::Step { init: None, expr: r6.clone() }, ColGen::Rand],
        constraints: vec![Constraint { degree: Degree::new(1), expr: Expr::sub(Expr::Nxt(0), r6) }],
        assertions: vec![AssertDesc::single(0, 0)],
        aux: Some(AuxDesc {
            width: 1,
            num_rands: 1,
            lagrange: false,
            cols: vec![AuxGen::Acc { init: Expr::Const(1), step: step.clone() }],
            constraints: vec![Constraint { degree: Degree::new(2), expr: Expr::sub(Expr::AuxNxt(0), step) }],
            assertions: vec![AuxAssertDesc { a: AssertDesc::single(0, 0), value: Expr::Const(1) }],
        }),
    };
    v.push(d.clone());
    if let Some(x) = d.aux.as_mut() {
        x.width = 2;
        x.lagrange = true;
    }
    v.push(d);
    v.into_iter().filter(|d| d.validate().is_ok()).collect()
}

fn fri_ok(lde: usize, b: usize, f: usize, r: usize) -> bool {
    let mut d = lde;
    let maxr = (r + 1) * b;
    while d > maxr {
        d /= f;
        if d < 2 {
            return false;
        }
    }
    d / b >= 1
}

fn configs(rng: &mut Rng, tier: Tier) -> Vec<Cfg> {
    let quick = tier == Tier::Quick;
    let mut v = vec![];
    let mut k = 0usize;
    let lens: &[usize] = if quick { &[8, 16] } else { &[8, 16, 32] };
    for &n in lens {
        for d in small_descs(n) {
            for field in FieldId::ALL {
                let hashes = HashId::for_field(field);
                let reps = if quick { 1 } else { hashes.len() };
                for rep in 0..reps {
                    k += 1;
                    let hash = hashes[(k + rep) % hashes.len()];
                    let exts: Vec<u8> = (1..=3u8).filter(|x| field.supports_ext(*x)).collect();
                    let ext = exts[k % exts.len()];
                    let b = d.min_blowup().max(if k % 2 == 0 { 4 } else { 2 });
                    // schedules with 0, 1, 2 layers and remainders large enough for the adaptive substitution
                    let (f, r) = [(2usize, 3usize), (4, 3), (2, 7), (2, 1), (4, 7), (8, 3), (2, 0)][k % 7];
                    let (f, r) = if fri_ok(n * b, b, f, r) { (f, r) } else { (2, 3) };
                    let q = [1usize, 2, 3][k % 3];
                    let g = if k % 5 == 2 { 3 } else { 0 };
                    let meta = match k % 4 {
                        0 => vec![],
                        1 => vec![1u8],
                        2 => vec![0xab, 0xcd, 0x00],
                        _ => (1..=17u8).collect(),
                    };
                    v.push(Cfg { field, hash, opts: OptSpec::new(q, b, g, ext, f, r), seed: 3000 + k as u64, desc: Arc::new(d.clone()), meta });
                }
            }
        }
    }
    let _ = rng;
    v
}

// ------------------------------------------------------------------------------------ structured resize
/// drop `k` whole units from the end / append `k` units (zeros, or copies of the last units) to a block of
/// `unit`-byte elements that starts `skip` bytes into the block; None when not applicable
fn unit_edit(blk: &[u8], skip: usize, unit: usize, k: usize, mode: usize) -> Option<Vec<u8>> {
    if unit == 0 || k == 0 || blk.len() < skip || (blk.len() - skip) % unit != 0 {
        return None;
    }
    let n = (blk.len() - skip) / unit;
    let mut v = blk.to_vec();
    match mode {
        0 => {
            if k > n {
                return None;
            }
            v.truncate(blk.len() - k * unit);
        },
        1 => v.extend(std::iter::repeat(0u8).take(k * unit)),
        _ => {
            if k > n {
                return None;
            }
            let tail = blk[blk.len() - k * unit..].to_vec();
            v.extend_from_slice(&tail);
        },
    }
    Some(v)
}

/// the element counts to drop / append for a component of `n` elements
fn unit_counts(n: usize) -> Vec<usize> {
    let mut ks = vec![1, 2, n / 4, n / 2, n.saturating_sub(1), n, 2 * n, 3 * n];
    ks.retain(|k| *k > 0);
    ks.sort();
    ks.dedup();
    ks
}

/// structured resize: whole elements dropped / appended with every enclosing prefix rewritten
fn run_sresize(b: &Base) -> Tally {
    let mut t = Tally::default();
    let c = &b.cfg;
    let e = elem_bytes(c.field) * c.opts.ext as usize;
    let eb = elem_bytes(c.field);
    let db = c.hash.digest_bytes();
    let nuq = b.pt.nuq as usize;
    let modes = ["trailing elements dropped", "zero elements appended", "copies of the last elements appended"];
    // ---- remainder: every element count, in particular every power of two below and above
    {
        let n = b.pt.remainder.len() / e.max(1);
        let mut ks = unit_counts(n);
        let mut p2 = 1;
        while p2 < n {
            ks.push(n - p2); // keep p2 coefficients
            p2 *= 2;
        }
        ks.sort();
        ks.dedup();
        for k in ks {
            for mode in 0..3 {
                if let Some(v) = unit_edit(&b.pt.remainder, 0, e, k, mode) {
                    if v.len() > 65535 {
                        continue;
                    }
                    let mut p = b.pt.clone();
                    p.remainder = v;
                    judge(b, &mut t, &p.to_bytes(), &format!("remainder ({} coefficients): {} {}", n, k, modes[mode]), "fri.remainder");
                }
            }
        }
    }
    // ---- OOD blocks: trace states (after the frame-size byte), evaluations, Lagrange frame (row count rewritten)
    {
        let n = (b.pt.ood_trace.len().saturating_sub(1)) / e.max(1);
        for k in unit_counts(n) {
            for mode in 0..3 {
                if let Some(v) = unit_edit(&b.pt.ood_trace, 1, e, k, mode) {
                    if v.len() <= 65535 {
                        let mut p = b.pt.clone();
                        p.ood_trace = v;
                        judge(b, &mut t, &p.to_bytes(), &format!("OOD trace states ({} elements): {} {}", n, k, modes[mode]), "ood.trace");
                    }
                }
            }
        }
        let n = b.pt.ood_evals.len() / e.max(1);
        for k in unit_counts(n) {
            for mode in 0..3 {
                if let Some(v) = unit_edit(&b.pt.ood_evals, 0, e, k, mode) {
                    if v.len() <= 65535 {
                        let mut p = b.pt.clone();
                        p.ood_evals = v;
                        judge(b, &mut t, &p.to_bytes(), &format!("OOD evaluations ({} elements): {} {}", n, k, modes[mode]), "ood.evaluations");
                    }
                }
            }
        }
        if !b.pt.ood_lagrange.is_empty() {
            let n = (b.pt.ood_lagrange.len() - 1) / e.max(1);
            for k in unit_counts(n.max(1)) {
                for mode in 0..3 {
                    if let Some(mut v) = unit_edit(&b.pt.ood_lagrange, 1, e, k, mode) {
                        let rows = (v.len() - 1) / e.max(1);
                        if rows < 256 && v.len() <= 65535 {
                            v[0] = rows as u8;
                            let mut p = b.pt.clone();
                            p.ood_lagrange = v;
                            judge(b, &mut t, &p.to_bytes(), &format!("Lagrange frame ({} rows): {} {}, row count rewritten", n, k, modes[mode]), "ood.lagrange");
                        }
                    }
                }
            }
        }
    }
    // ---- commitments: whole digests
    {
        let n = b.pt.commitments.len() / db;
        for k in unit_counts(n) {
            for mode in 0..3 {
                if let Some(v) = unit_edit(&b.pt.commitments, 0, db, k, mode) {
                    if v.len() < 65535 {
                        let mut p = b.pt.clone();
                        p.commitments = v;
                        judge(b, &mut t, &p.to_bytes(), &format!("commitments ({} digests): {} {}", n, k, modes[mode]), "commitments");
                    }
                }
            }
        }
    }
    // ---- query vectors: whole rows of every opening at once, `num_unique_queries` rewritten consistently
    if nuq > 0 {
        for k in unit_counts(nuq) {
            for mode in 0..3 {
                let new_rows = match mode {
                    0 => {
                        if k >= nuq {
                            continue;
                        }
                        nuq - k
                    },
                    _ => nuq + k,
                };
                if new_rows == 0 || new_rows > 255 || (mode == 2 && k > nuq) {
                    continue;
                }
                let mut p = b.pt.clone();
                let mut ok = true;
                for q in p.trace_queries.iter_mut() {
                    let w = q.0.len() / nuq;
                    match unit_edit(&q.0, 0, w, k, mode) {
                        Some(v) => q.0 = v,
                        None => ok = false,
                    }
                }
                let w = p.constraint_queries.0.len() / nuq;
                match unit_edit(&p.constraint_queries.0, 0, w, k, mode) {
                    Some(v) => p.constraint_queries.0 = v,
                    None => ok = false,
                }
                if !ok {
                    continue;
                }
                p.nuq = new_rows as u8;
                judge(b, &mut t, &p.to_bytes(), &format!("all query vectors ({} rows): {} {}, num_unique_queries rewritten", nuq, k, modes[mode]), "trace_queries.values");
                // one opening only (the count then disagrees with the other openings)
                let mut p1 = b.pt.clone();
                let w = p1.constraint_queries.0.len() / nuq;
                if let Some(v) = unit_edit(&p1.constraint_queries.0, 0, w, k, mode) {
                    p1.constraint_queries.0 = v;
                    judge(b, &mut t, &p1.to_bytes(), &format!("constraint query vector ({} rows): {} {}", nuq, k, modes[mode]), "constraint_queries.values");
                }
            }
        }
        // single elements inside the value blocks (rows become narrower / wider)
        for mode in 0..3 {
            let mut p = b.pt.clone();
            if let Some(v) = unit_edit(&p.trace_queries[0].0, 0, eb, 1, mode) {
                p.trace_queries[0].0 = v;
                judge(b, &mut t, &p.to_bytes(), &format!("main trace query values: one element, {}", modes[mode]), "trace_queries.values");
            }
            let mut p = b.pt.clone();
            if let Some(v) = unit_edit(&p.constraint_queries.0, 0, e, 1, mode) {
                p.constraint_queries.0 = v;
                judge(b, &mut t, &p.to_bytes(), &format!("constraint query values: one element, {}", modes[mode]), "constraint_queries.values");
            }
        }
    }
    // ---- Merkle node blocks: whole digests in the last vector / whole vectors, counts rewritten
    {
        let mut path_blocks: Vec<(&'static str, Box<dyn Fn(&mut PT) -> &mut Vec<u8>>)> = vec![];
        for i in 0..b.pt.trace_queries.len() {
            path_blocks.push(("trace_queries.paths", Box::new(move |p: &mut PT| &mut p.trace_queries[i].1)));
        }
        path_blocks.push(("constraint_queries.paths", Box::new(|p: &mut PT| &mut p.constraint_queries.1)));
        for i in 0..b.pt.layers.len() {
            path_blocks.push(("fri.layer.paths", Box::new(move |p: &mut PT| &mut p.layers[i].1)));
        }
        for (name, acc) in path_blocks {
            let blk0 = {
                let mut p = b.pt.clone();
                acc(&mut p).clone()
            };
            // parse into vectors
            let mut r = Rd { b: &blk0, p: 0 };
            let nv = match r.uint(1) {
                Some(n) => n,
                None => continue,
            };
            let mut vecs: Vec<Vec<u8>> = vec![];
            let mut good = true;
            for _ in 0..nv {
                match r.uint(1).and_then(|k| r.take(k * db)) {
                    Some(x) => vecs.push(x.to_vec()),
                    None => good = false,
                }
            }
            if !good || r.p != blk0.len() || vecs.is_empty() {
                continue;
            }
            let ser = |vs: &Vec<Vec<u8>>| -> Option<Vec<u8>> {
                if vs.len() > 255 || vs.iter().any(|v| v.len() / db > 255) {
                    return None;
                }
                let mut o = vec![vs.len() as u8];
                for v in vs {
                    o.push((v.len() / db) as u8);
                    o.extend_from_slice(v);
                }
                Some(o)
            };
            let last = vecs.len() - 1;
            let nl = vecs[last].len() / db;
            for k in unit_counts(nl.max(1)) {
                for mode in 0..3 {
                    if let Some(v) = unit_edit(&vecs[last], 0, db, k, mode) {
                        let mut vs = vecs.clone();
                        vs[last] = v;
                        if let Some(o) = ser(&vs) {
                            let mut p = b.pt.clone();
                            *acc(&mut p) = o;
                            judge(b, &mut t, &p.to_bytes(), &format!("{}: last node vector ({} nodes): {} {}, counts rewritten", name, nl, k, modes[mode]), name);
                        }
                    }
                }
            }
            // whole vectors dropped / an empty or duplicated vector appended
            let mut vs = vecs.clone();
            vs.pop();
            if let Some(o) = ser(&vs) {
                let mut p = b.pt.clone();
                *acc(&mut p) = o;
                judge(b, &mut t, &p.to_bytes(), &format!("{}: last node vector dropped, count rewritten", name), name);
            }
            for extra in [vec![], vecs[last].clone()] {
                let mut vs = vecs.clone();
                vs.push(extra);
                if let Some(o) = ser(&vs) {
                    let mut p = b.pt.clone();
                    *acc(&mut p) = o;
                    judge(b, &mut t, &p.to_bytes(), &format!("{}: a node vector appended, count rewritten", name), name);
                }
            }
        }
    }
    // ---- FRI layer values: whole rows of `folding` elements; whole layers (count rewritten by the layout)
    for i in 0..b.pt.layers.len() {
        let w = e * c.opts.folding;
        let n = b.pt.layers[i].0.len() / w.max(1);
        for k in unit_counts(n) {
            for mode in 0..3 {
                if mode == 0 && k >= n {
                    continue;
                }
                if let Some(v) = unit_edit(&b.pt.layers[i].0, 0, w, k, mode) {
                    let mut p = b.pt.clone();
                    p.layers[i].0 = v;
                    judge(b, &mut t, &p.to_bytes(), &format!("FRI layer {} values ({} rows): {} {}", i, n, k, modes[mode]), "fri.layer.values");
                }
            }
        }
        for mode in 0..3 {
            if let Some(v) = unit_edit(&b.pt.layers[i].0, 0, e, 1, mode) {
                let mut p = b.pt.clone();
                p.layers[i].0 = v;
                judge(b, &mut t, &p.to_bytes(), &format!("FRI layer {} values: one element, {}", i, modes[mode]), "fri.layer.values");
            }
        }
    }
    t
}

/// descriptions whose valid traces are degenerate: constant columns, low-degree columns, the all-zero
/// Fibonacci trace, the powers of the trace-domain generator (x' = g x, trace polynomial X)
fn degenerate_descs(n: usize, field: FieldId) -> Vec<AirDesc> {
    use winter_math::StarkField;
    let g: u128 = match field {
        FieldId::F62 => f62::BaseElement::get_root_of_unity(n.ilog2()).canon(),
        FieldId::F64 => f64::BaseElement::get_root_of_unity(n.ilog2()).canon(),
        FieldId::F128 => f128::BaseElement::get_root_of_unity(n.ilog2()).canon(),
    };
    let base = |width: usize, cols: Vec<ColGen>, constraints: Vec<Constraint>, assertions: Vec<AssertDesc>| AirDesc {
        width,
        trace_len: n,
        exemptions: 1,
        tail_junk: false,
        periodic: vec![],
        cols,
        constraints,
        assertions,
        aux: None,
    };
    let lin = |e: Expr| Constraint { degree: Degree::new(1), expr: e };
    let mut v = vec![];
    // x' = g x from 1: the trace is g^i, its polynomial is X
    let gx = Expr::mul(Expr::Const(g), Expr::Cur(0));
    v.push(base(1, vec![ColGen::Step { init: Some(1), expr: gx.clone() }], vec![lin(Expr::sub(Expr::Nxt(0), gx))], vec![AssertDesc::single(0, 0)]));
    // constant columns
    v.push(base(
        2,
        vec![ColGen::Const(Some(7)), ColGen::Const(None)],
        vec![lin(Expr::sub(Expr::Nxt(0), Expr::Cur(0))), lin(Expr::sub(Expr::Nxt(1), Expr::Cur(1)))],
        vec![AssertDesc::single(0, 0), AssertDesc::single(1, n - 1)],
    ));
    // the all-zero Fibonacci trace
    let f0 = Expr::Cur(1);
    let f1 = Expr::add(Expr::Cur(0), Expr::Cur(1));
    v.push(base(
        2,
        vec![ColGen::Step { init: Some(0), expr: f0.clone() }, ColGen::Step { init: Some(0), expr: f1.clone() }],
        vec![lin(Expr::sub(Expr::Nxt(0), f0)), lin(Expr::sub(Expr::Nxt(1), f1))],
        vec![AssertDesc::single(0, 0), AssertDesc::single(1, n - 1)],
    ));
    // a constant column and low-degree columns (degree 1 and 2) that no constraint reads
    v.push(base(
        3,
        vec![ColGen::Const(Some(1)), ColGen::LowDeg(1), ColGen::LowDeg(2)],
        vec![lin(Expr::sub(Expr::Nxt(0), Expr::Cur(0)))],
        vec![AssertDesc::single(0, 3), AssertDesc::single(1, 0)],
    ));
    v.into_iter().filter(|d| d.validate().is_ok()).collect()
}

fn degenerate_configs(tier: Tier) -> Vec<Cfg> {
    let quick = tier == Tier::Quick;
    let mut v = vec![];
    let mut k = 0usize;
    let lens: &[usize] = if quick { &[8, 16] } else { &[8, 16, 32, 64] };
    for &n in lens {
        for field in FieldId::ALL {
            for d in degenerate_descs(n, field) {
                let hashes = HashId::for_field(field);
                let reps = if quick { 1 } else { hashes.len() };
                for rep in 0..reps {
                    k += 1;
                    let hash = hashes[(k + rep) % hashes.len()];
                    let exts: Vec<u8> = (1..=3u8).filter(|x| field.supports_ext(*x)).collect();
                    let ext = exts[k % exts.len()];
                    let b = d.min_blowup().max(if k % 2 == 0 { 4 } else { 2 });
                    // remainders of 4 .. 16 coefficients after 0, 1 or 2 layers
                    let (f, r) = [(2usize, 7usize), (2, 3), (4, 7), (2, 15), (4, 3)][k % 5];
                    let (f, r) = if fri_ok(n * b, b, f, r) { (f, r) } else { (2, 3) };
                    let q = [1usize, 2, 3][k % 3];
                    v.push(Cfg { field, hash, opts: OptSpec::new(q, b, 0, ext, f, r), seed: 5000 + k as u64, desc: Arc::new(d.clone()), meta: vec![] });
                }
            }
        }
    }
    v
}

impl Prop for P {
    fn id(&self) -> &'static str {
        "C03"
    }

    fn gen(&self, rng: &mut Rng, tier: Tier, n: usize, emit: &mut dyn FnMut(String)) {
        let quick = tier == Tier::Quick;
        let cfgs = configs(rng, tier);
        // the reference-verifier lines are spread over the run: the model side of the check evaluates
        // contiguous pieces of the op list in parallel, and these lines are the expensive ones there
        let mut refv_rng = rng.fork();
        let mut refv = refv_lines(&mut refv_rng, tier);
        // mixed, so that every piece gets cheap and expensive lines of every configuration
        for i in (1..refv.len()).rev() {
            let j = refv_rng.below(i as u64 + 1) as usize;
            refv.swap(i, j);
        }
        let refv_chunk = (refv.len() + cfgs.len().max(1) - 1) / cfgs.len().max(1);
        let mut refv_next = 0usize;
        let exhaustive_budget = default_n(tier, 6, 1_000_000, n);
        for (ci, c) in cfgs.iter().enumerate() {
            while refv_next < refv.len().min((ci + 1) * refv_chunk) {
                emit(refv[refv_next].clone());
                refv_next += 1;
            }
            let ct = cfg_text(c);
            // the size of the proof is needed to lay out the flip ranges
            let b = match make_base(c) {
                Ok(b) => b,
                Err(_) => {
                    // the op reports what is wrong with the configuration
                    emit(format!("fields {}", ct));
                    continue;
                },
            };
            let nbits = b.bytes.len() * 8;
            // exhaustive single-bit flips for the first `exhaustive_budget` configurations (all of them in
            // the thorough tier), sampled otherwise: all bits of the structural fields + every 13th bit
            if ci < exhaustive_budget {
                let mut from = 0;
                while from < nbits {
                    emit(format!("flips {} {} {} 1", ct, from, (from + 768).min(nbits)));
                    from += 768;
                }
            } else {
                let mut from = 0;
                while from < nbits {
                    emit(format!("flips {} {} {} 13", ct, from + (ci % 13), (from + 13 * 400).min(nbits)));
                    from += 13 * 400;
                }
                // structural fields: every bit
                let payload = ["commitments", "trace_queries.values", "trace_queries.paths", "constraint_queries.values", "constraint_queries.paths", "ood.trace", "ood.lagrange", "ood.evaluations", "fri.layer.values", "fri.layer.paths", "fri.remainder"];
                for (k, (start, name)) in b.spans.iter().enumerate() {
                    let end = if k + 1 < b.spans.len() { b.spans[k + 1].0 } else { b.bytes.len() };
                    if end > *start && !payload.contains(name) {
                        emit(format!("flips {} {} {} 1", ct, start * 8, end * 8));
                    }
                }
            }
            let bstep = if quick { 5 } else { 1 };
            let mut from = 0;
            while from < b.bytes.len() {
                emit(format!("bytes {} {} {} {}", ct, from + (ci % bstep), (from + bstep * 150).min(b.bytes.len()), bstep));
                from += bstep * 150;
            }
            for fam in ["fields", "resize", "sresize", "reorder", "remainder", "partitions", "extras"] {
                emit(format!("{} {}", fam, ct));
            }
            emit(format!("nonces {} {}", ct, if quick { 64 } else { 1024 }));
            let nchan = if quick { 24 } else { 200 };
            for i in 0..nchan {
                let m = chan_mutant(&b, i * 7 + ci);
                emit(format!("chan {} {} {} {}", c.field.name(), c.hash.name(), c.desc.to_line(), hex(&m)));
            }
        }
        while refv_next < refv.len() {
            emit(refv[refv_next].clone());
            refv_next += 1;
        }
        // proofs of degenerate valid traces (constant / low-degree / all-zero columns, x' = g x): their DEEP
        // composition has low degree, so the FRI remainder ends in zero coefficients
        for c in degenerate_configs(tier) {
            let ct = cfg_text(&c);
            for fam in ["sresize", "remainder", "resize", "reorder", "extras", "fields"] {
                emit(format!("{} {}", fam, ct));
            }
            emit(format!("nonces {} {}", ct, if tier == Tier::Quick { 16 } else { 256 }));
        }
        emit("flips f64".into());
        emit("fields f64 blake3_256 1.2.0.1.2.3 1 garbage -".into());
        emit("refv f64 rp64_256 1.2.0.1.2.3 1 garbage os:1.2.0.1.2.3 - honest 00".into());
    }

    fn exec(&self, line: &str) -> Outcome {
        let t: Vec<&str> = line.split(' ').filter(|x| !x.is_empty()).collect();
        let op = match t.first().copied() {
            Some(op) => op,
            None => return Outcome::ok("bad-op"),
        };
        if !["flips", "bytes", "fields", "resize", "sresize", "reorder", "remainder", "partitions", "nonces", "extras", "chan", "refv"].contains(&op) {
            return Outcome::ok("bad-op");
        }
        if op == "chan" {
            return exec_chan(&t[1..]);
        }
        if op == "refv" {
            return exec_refv(&t[1..]);
        }
        let c = match parse_cfg(&t[1..]) {
            Ok(c) => c,
            Err(e) => return Outcome::ok(format!("bad-op:{}", e.split(' ').next().unwrap_or(""))),
        };
        let rest = &t[7..];
        let nums: Option<Vec<usize>> = rest.iter().map(|x| x.parse::<usize>().ok()).collect();
        let nums = match nums {
            Some(n) => n,
            None => return Outcome::ok("bad-op"),
        };
        let b = match make_base(&c) {
            Ok(b) => b,
            Err(o) => return o,
        };
        let tally = match (op, nums.len()) {
            ("flips", 3) => run_flips(&b, nums[0], nums[1], nums[2]),
            ("bytes", 3) => run_bytes(&b, nums[0], nums[1], nums[2]),
            ("fields", 0) => run_fields(&b),
            ("resize", 0) => run_resize(&b),
            ("sresize", 0) => run_sresize(&b),
            ("reorder", 0) => run_reorder(&b),
            ("remainder", 0) => run_remainder(&b),
            ("partitions", 0) => run_partitions(&b),
            ("nonces", 1) => run_nonces(&b, nums[0]),
            ("extras", 0) => run_extras(&b),
            _ => return Outcome::ok("bad-op"),
        };
        tally.outcome()
    }

    fn timeout_ms(&self) -> u64 {
        300_000
    }

    fn nontrivial(&self, _line: &str, out: &str) -> bool {
        !out.starts_with("bad-op")
    }

    fn class(&self, line: &str, out: &str) -> String {
        let t: Vec<&str> = line.split(' ').collect();
        let op = t.first().copied().unwrap_or("");
        if op == "refv" {
            // mutation family x verdict class
            let fam = t.get(8).map(|x| x.split(':').next().unwrap_or("")).unwrap_or("");
            return format!("refv.{}:{}", fam, out.split(':').take(2).collect::<Vec<_>>().join(":"));
        }
        let o = if out.starts_with("n=") {
            let acc = out.split(' ').find(|x| x.starts_with("accepted=")).unwrap_or("accepted=?");
            if acc == "accepted=0" {
                "no-mutant-accepted"
            } else {
                "mutant-accepted"
            }
        } else {
            out.split(|c| c == ' ' || c == ':').next().unwrap_or("")
        };
        format!("{}.{}.{}:{}", op, t.get(1).unwrap_or(&""), t.get(2).unwrap_or(&""), o)
    }

    fn rule(&self) -> &'static str {
        "distinct op lines that are not bad-op; one op = one accepted honest proof and one family of mutants of its serialization (the number of mutants judged is the n= field of the output; evaluations counts op lines, not mutants)"
    }

    fn panic_site(&self, _line: &str) -> Option<String> {
        Some("c03.harness.panic".into())
    }
}

fn main() {
    main_for(&P);
}
