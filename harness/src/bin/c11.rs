//! C11: hash functions implement their specification on every input.
//! Op lines mirror lean/Winter/Drv/C11.lean.
//!
//! Oracle (independent of the Lean model and of the implementation's arithmetic): a reference
//! Rescue permutation written from the specification (naive matrix-vector product with u128
//! modular arithmetic, x^alpha and x^(alpha^-1 mod p-1) by square-and-multiply, the published
//! MDS/ARK tables as canonical integers) and a reference sponge (absorb / pad as documented).
//! For BLAKE3 / SHA3 the hash itself is opaque; the oracle says which bytes must be fed and
//! checks `hash_elements(es) == hash(those bytes)` with the same crate.
#![allow(dead_code, unused_variables, unused_imports, unused_mut)]
use std::sync::OnceLock;

use wf_harness::core::*;
use wf_harness::fields::*;
use wf_harness::oracle::*;
use winter_crypto::{
    hashers::{Blake3_192, Blake3_256, Rp62_248, Rp64_256, RpJive64_256, Sha3_256},
    Digest, ElementHasher, Hasher,
};
use winter_math::{
    fields::{f128, f62, f64, CubeExtension, QuadExtension},
    FieldElement, StarkField,
};
use winter_utils::{Deserializable, Serializable, SliceReader};

pub struct P;

// ------------------------------------------------------------------------------------ specification

/// the parameters and tables of one Rescue instance, as canonical integers
struct Spec {
    name: &'static str,
    m: u128,
    width: usize,
    rate_start: usize,
    rate_w: usize,
    cap_idx: usize,
    digest_start: usize,
    rounds: usize,
    alpha: u128,
    inv_alpha: u128,
    mds: Vec<Vec<u128>>,
    ark1: Vec<Vec<u128>>,
    ark2: Vec<Vec<u128>>,
    jive: bool,
}

/// modular inverse by the extended Euclidean algorithm (signed 256-bit not needed: values < 2^64)
fn inv_mod_euclid(a: u128, n: u128) -> u128 {
    let (mut r0, mut r1) = (n as i128, (a % n) as i128);
    let (mut t0, mut t1) = (0i128, 1i128);
    while r1 != 0 {
        let q = r0 / r1;
        (r0, r1) = (r1, r0 - q * r1);
        (t0, t1) = (t1, t0 - q * t1);
    }
    assert!(r0 == 1, "alpha is not invertible modulo p-1");
    (((t0 % n as i128) + n as i128) % n as i128) as u128
}

impl Spec {
    /// the reference permutation: for each round S-box, MDS, constants, inverse S-box, MDS, constants
    fn perm(&self, st: &mut Vec<u128>) {
        for r in 0..self.rounds {
            self.round(st, r);
        }
    }
    fn round(&self, st: &mut Vec<u128>, r: usize) {
        for x in st.iter_mut() {
            *x = powmod(*x, self.alpha, self.m);
        }
        self.mds_mul(st);
        for (x, k) in st.iter_mut().zip(&self.ark1[r]) {
            *x = addmod(*x, *k, self.m);
        }
        for x in st.iter_mut() {
            *x = powmod(*x, self.inv_alpha, self.m);
        }
        self.mds_mul(st);
        for (x, k) in st.iter_mut().zip(&self.ark2[r]) {
            *x = addmod(*x, *k, self.m);
        }
    }
    fn mds_mul(&self, st: &mut Vec<u128>) {
        let mut out = vec![0u128; self.width];
        for i in 0..self.width {
            let mut acc = 0u128;
            for j in 0..self.width {
                acc = addmod(acc, mulmod(self.mds[i][j], st[j], self.m), self.m);
            }
            out[i] = acc;
        }
        *st = out;
    }
    /// 7-byte chunks, little endian; the last chunk is followed by a byte of value 1
    fn bytes_to_elems(&self, bytes: &[u8]) -> Vec<u128> {
        let n = (bytes.len() + 6) / 7;
        let mut out = vec![];
        for k in 0..n {
            let chunk = &bytes[7 * k..bytes.len().min(7 * k + 7)];
            let mut v: u128 = 0;
            for (j, b) in chunk.iter().enumerate() {
                v |= (*b as u128) << (8 * j);
            }
            if k == n - 1 {
                v |= 1u128 << (8 * chunk.len());
            }
            out.push(v % self.m);
        }
        out
    }
    /// the documented sponge over base-field elements
    fn sponge(&self, elems: &[u128]) -> Vec<u128> {
        let mut st = vec![0u128; self.width];
        if self.jive {
            if elems.len() % self.rate_w != 0 {
                st[self.cap_idx] = 1;
            }
        } else {
            st[self.cap_idx] = (elems.len() as u128) % self.m;
        }
        let mut i = 0;
        for e in elems {
            st[self.rate_start + i] = addmod(st[self.rate_start + i], *e, self.m);
            i += 1;
            if i == self.rate_w {
                self.perm(&mut st);
                i = 0;
            }
        }
        if i > 0 {
            if self.jive {
                // Hirose padding: a one followed by zeros, written over the rate
                st[self.rate_start + i] = 1;
                for k in i + 1..self.rate_w {
                    st[self.rate_start + k] = 0;
                }
            }
            self.perm(&mut st);
        }
        st[self.digest_start..self.digest_start + 4].to_vec()
    }
    fn hash_bytes(&self, bytes: &[u8]) -> Vec<u128> {
        self.sponge(&self.bytes_to_elems(bytes))
    }
    fn jive_compress(&self, init: &[u128]) -> Vec<u128> {
        let mut st = init.to_vec();
        self.perm(&mut st);
        (0..4)
            .map(|i| addmod(addmod(init[i], init[4 + i], self.m), addmod(st[i], st[4 + i], self.m), self.m))
            .collect()
    }
    fn merge(&self, a: &[u128], b: &[u128]) -> Vec<u128> {
        let mut v = a.to_vec();
        v.extend_from_slice(b);
        if self.jive {
            self.jive_compress(&v)
        } else {
            self.sponge(&v)
        }
    }
    /// hash(seed || value): the value contributes `v mod p`, and `v div p` when it is not below p
    fn merge_int(&self, seed: &[u128], v: u128) -> Vec<u128> {
        let mut e = seed.to_vec();
        e.push(v % self.m);
        if v >= self.m {
            e.push((v / self.m) % self.m);
        }
        if self.jive {
            let n = e.len() as u128;
            e.resize(8, 0);
            e[7] = n;
            self.jive_compress(&e)
        } else {
            self.sponge(&e)
        }
    }
}

fn repo_dir() -> String {
    std::env::var("VERIF_REPO").unwrap_or_else(|_| "/repo".into())
}

/// the numbers of `const NAME: ... = [ ... BaseElement::new(N) ... ];` in a source file
fn table_from_source(src: &str, name: &str, cols: usize) -> Vec<Vec<u128>> {
    let key = format!("const {}:", name);
    let at = src.find(&key).unwrap_or_else(|| panic!("table {} not found", name));
    let body = &src[at..];
    let end = body.find("];\n").unwrap_or(body.len());
    let body = &body[..end];
    let mut nums = vec![];
    let pat = "BaseElement::new(";
    let mut rest = body;
    while let Some(p) = rest.find(pat) {
        rest = &rest[p + pat.len()..];
        let q = rest.find(')').unwrap();
        nums.push(rest[..q].trim().replace('_', "").parse::<u128>().unwrap());
    }
    nums.chunks(cols).map(|c| c.to_vec()).collect()
}

fn tab64<const W: usize, const R: usize>(t: &[[f64::BaseElement; W]; R]) -> Vec<Vec<u128>> {
    t.iter().map(|r| r.iter().map(|x| x.as_int() as u128).collect()).collect()
}

fn spec_rp64() -> &'static Spec {
    static S: OnceLock<Spec> = OnceLock::new();
    S.get_or_init(|| Spec {
        name: "rp64",
        m: M64,
        width: 12,
        rate_start: 4,
        rate_w: 8,
        cap_idx: 0,
        digest_start: 4,
        rounds: 7,
        alpha: 7,
        inv_alpha: inv_mod_euclid(7, M64 - 1),
        mds: tab64(&Rp64_256::MDS),
        ark1: tab64(&Rp64_256::ARK1),
        ark2: tab64(&Rp64_256::ARK2),
        jive: false,
    })
}

fn spec_jive() -> &'static Spec {
    static S: OnceLock<Spec> = OnceLock::new();
    S.get_or_init(|| Spec {
        name: "rpjive",
        m: M64,
        width: 8,
        rate_start: 4,
        rate_w: 4,
        cap_idx: 0,
        digest_start: 4,
        rounds: 7,
        alpha: 7,
        inv_alpha: inv_mod_euclid(7, M64 - 1),
        mds: tab64(&RpJive64_256::MDS),
        ark1: tab64(&RpJive64_256::ARK1),
        ark2: tab64(&RpJive64_256::ARK2),
        jive: true,
    })
}

fn spec_rp62() -> &'static Spec {
    static S: OnceLock<Spec> = OnceLock::new();
    S.get_or_init(|| {
        // the tables of this instance are private constants: read them from the source
        let path = format!("{}/crypto/src/hash/rescue/rp62_248/mod.rs", repo_dir());
        let src = std::fs::read_to_string(&path).unwrap_or_else(|_| panic!("cannot read {}", path));
        Spec {
            name: "rp62",
            m: M62,
            width: 12,
            rate_start: 0,
            rate_w: 8,
            cap_idx: 11,
            digest_start: 0,
            rounds: 7,
            alpha: 3,
            inv_alpha: inv_mod_euclid(3, M62 - 1),
            mds: table_from_source(&src, "MDS", 12),
            ark1: table_from_source(&src, "ARK1", 12),
            ark2: table_from_source(&src, "ARK2", 12),
            jive: false,
        }
    })
}

// ------------------------------------------------------------------------------------ implementation view

/// a base field with both extension formulas
trait XFld: Fld + winter_math::ExtensibleField<2> + winter_math::ExtensibleField<3> {}
impl XFld for f64::BaseElement {}
impl XFld for f62::BaseElement {}
impl XFld for f128::BaseElement {}

/// uniform view of the three Rescue hashers
trait RH {
    type F: XFld;
    const NAME: &'static str;
    fn spec() -> &'static Spec;
    fn hash(b: &[u8]) -> Vec<Self::F>;
    fn hash_base(e: &[Self::F]) -> Vec<Self::F>;
    fn hash_quad(e: &[QuadExtension<Self::F>]) -> Vec<Self::F>;
    fn hash_cube(e: &[CubeExtension<Self::F>]) -> Vec<Self::F>;
    fn merge(a: &[Self::F], b: &[Self::F]) -> Vec<Self::F>;
    fn merge_int(a: &[Self::F], v: u64) -> Vec<Self::F>;
    /// the public permutation / round function, when the hasher exposes one
    fn perm(s: &mut Vec<Self::F>) -> bool;
    fn round(s: &mut Vec<Self::F>, r: usize) -> bool;
    fn digest_eq(a: &[Self::F], b: &[Self::F]) -> bool;
    fn digest_bytes(a: &[Self::F]) -> [u8; 32];
    fn digest_ser(a: &[Self::F]) -> Vec<u8>;
    fn digest_de(b: &[u8]) -> Result<(Vec<Self::F>, usize), String>;
    /// the conversion impls of the digest type: (`[u8; 32]` from the digest, the elements back out of a digest made
    /// `From` the array), `as_bytes` / `as_elements` where the type has no such impls
    fn digest_conv(a: &[Self::F]) -> ([u8; 32], Vec<Self::F>);
    /// `digests_as_elements` of the two digests, the default digest, `write_into` on a writer that already holds a byte
    fn digest_slices(a: &[Self::F], b: &[Self::F]) -> (Vec<Self::F>, Vec<Self::F>, Vec<u8>);
    /// `apply_jive_summation` where the hasher has one
    fn jive_sum(init: &[Self::F], fin: &[Self::F]) -> Option<Vec<Self::F>>;
}

macro_rules! impl_rh {
    ($t:ident, $h:ty, $f:ty, $name:expr, $spec:ident, $w:expr, $perm:expr, $round:expr, $conv:expr, $jsum:expr) => {
        struct $t;
        impl RH for $t {
            type F = $f;
            const NAME: &'static str = $name;
            fn spec() -> &'static Spec {
                $spec()
            }
            fn hash(b: &[u8]) -> Vec<$f> {
                <$h as Hasher>::hash(b).as_elements().to_vec()
            }
            fn hash_base(e: &[$f]) -> Vec<$f> {
                <$h as ElementHasher>::hash_elements(e).as_elements().to_vec()
            }
            fn hash_quad(e: &[QuadExtension<$f>]) -> Vec<$f> {
                <$h as ElementHasher>::hash_elements(e).as_elements().to_vec()
            }
            fn hash_cube(e: &[CubeExtension<$f>]) -> Vec<$f> {
                <$h as ElementHasher>::hash_elements(e).as_elements().to_vec()
            }
            fn merge(a: &[$f], b: &[$f]) -> Vec<$f> {
                type D = <$h as Hasher>::Digest;
                let v = [D::new(a.try_into().unwrap()), D::new(b.try_into().unwrap())];
                <$h as Hasher>::merge(&v).as_elements().to_vec()
            }
            fn merge_int(a: &[$f], v: u64) -> Vec<$f> {
                type D = <$h as Hasher>::Digest;
                <$h as Hasher>::merge_with_int(D::new(a.try_into().unwrap()), v).as_elements().to_vec()
            }
            fn perm(s: &mut Vec<$f>) -> bool {
                let f: Option<fn(&mut [$f; $w])> = $perm;
                match f {
                    Some(f) => {
                        let mut a: [$f; $w] = s.as_slice().try_into().unwrap();
                        f(&mut a);
                        *s = a.to_vec();
                        true
                    },
                    None => false,
                }
            }
            fn round(s: &mut Vec<$f>, r: usize) -> bool {
                let f: Option<fn(&mut [$f; $w], usize)> = $round;
                match f {
                    Some(f) => {
                        let mut a: [$f; $w] = s.as_slice().try_into().unwrap();
                        f(&mut a, r);
                        *s = a.to_vec();
                        true
                    },
                    None => false,
                }
            }
            fn digest_eq(a: &[$f], b: &[$f]) -> bool {
                type D = <$h as Hasher>::Digest;
                D::new(a.try_into().unwrap()) == D::new(b.try_into().unwrap())
            }
            fn digest_bytes(a: &[$f]) -> [u8; 32] {
                type D = <$h as Hasher>::Digest;
                D::new(a.try_into().unwrap()).as_bytes()
            }
            fn digest_ser(a: &[$f]) -> Vec<u8> {
                type D = <$h as Hasher>::Digest;
                D::new(a.try_into().unwrap()).to_bytes()
            }
            fn digest_de(b: &[u8]) -> Result<(Vec<$f>, usize), String> {
                type D = <$h as Hasher>::Digest;
                let mut rd = SliceReader::new(b);
                match D::read_from(&mut rd) {
                    Ok(d) => {
                        use winter_utils::ByteReader;
                        let mut rest = 0;
                        while rd.has_more_bytes() {
                            let _ = rd.read_u8();
                            rest += 1;
                        }
                        Ok((d.as_elements().to_vec(), rest))
                    },
                    Err(winter_utils::DeserializationError::UnexpectedEOF) => Err("eof".into()),
                    Err(_) => Err("err".into()),
                }
            }
            fn digest_conv(a: &[$f]) -> ([u8; 32], Vec<$f>) {
                let f: fn([$f; 4]) -> ([u8; 32], [$f; 4]) = $conv;
                let (b, e) = f(a.try_into().unwrap());
                (b, e.to_vec())
            }
            fn digest_slices(a: &[$f], b: &[$f]) -> (Vec<$f>, Vec<$f>, Vec<u8>) {
                type D = <$h as Hasher>::Digest;
                let ds = [D::new(a.try_into().unwrap()), D::new(b.try_into().unwrap())];
                let mut w: Vec<u8> = vec![0xa5];
                ds[0].write_into(&mut w);
                (D::digests_as_elements(&ds).to_vec(), D::default().as_elements().to_vec(), w)
            }
            fn jive_sum(init: &[$f], fin: &[$f]) -> Option<Vec<$f>> {
                let f: Option<fn(&[$f; $w], &[$f; $w]) -> <$h as Hasher>::Digest> = $jsum;
                f.map(|f| f(init.try_into().unwrap(), fin.try_into().unwrap()).as_elements().to_vec())
            }
        }
    };
}

fn conv_rp64(a: [f64::BaseElement; 4]) -> ([u8; 32], [f64::BaseElement; 4]) {
    type D = <Rp64_256 as Hasher>::Digest;
    let d = D::from(a);
    (<[u8; 32]>::from(d), <[f64::BaseElement; 4]>::from(d))
}
fn conv_jive(a: [f64::BaseElement; 4]) -> ([u8; 32], [f64::BaseElement; 4]) {
    type D = <RpJive64_256 as Hasher>::Digest;
    let d = D::from(a);
    (<[u8; 32]>::from(d), <[f64::BaseElement; 4]>::from(d))
}
fn conv_rp62(a: [f62::BaseElement; 4]) -> ([u8; 32], [f62::BaseElement; 4]) {
    // the 62-bit digest has no From impls: new / as_bytes / as_elements
    type D = <Rp62_248 as Hasher>::Digest;
    let d = D::new(a);
    (d.as_bytes(), d.as_elements().try_into().unwrap())
}

impl_rh!(
    HRp64,
    Rp64_256,
    f64::BaseElement,
    "rp64",
    spec_rp64,
    12,
    Some(Rp64_256::apply_permutation),
    Some(Rp64_256::apply_round),
    conv_rp64,
    None
);
impl_rh!(
    HJive,
    RpJive64_256,
    f64::BaseElement,
    "rpjive",
    spec_jive,
    8,
    Some(RpJive64_256::apply_permutation),
    Some(RpJive64_256::apply_round),
    conv_jive,
    Some(RpJive64_256::apply_jive_summation)
);
impl_rh!(HRp62, Rp62_248, f62::BaseElement, "rp62", spec_rp62, 12, None, None, conv_rp62, None);

// ------------------------------------------------------------------------------------ judging

fn pu(s: &str) -> Option<u128> {
    s.parse::<u128>().ok()
}

/// a list of integers; the empty list is written `-`
fn nums(t: &[&str]) -> Option<Vec<u128>> {
    if t == ["-"] {
        return Some(vec![]);
    }
    if t.is_empty() {
        return None;
    }
    t.iter().map(|s| pu(s)).collect()
}

fn canon<F: Fld>(v: &[F]) -> Vec<u128> {
    v.iter().map(|x| x.canon()).collect()
}

fn join<T: ToString>(v: &[T]) -> String {
    if v.is_empty() {
        return "-".into();
    }
    v.iter().map(|x| x.to_string()).collect::<Vec<_>>().join(" ")
}

/// canonical integers followed by the raw internal words
fn show<F: Fld>(v: &[F]) -> String {
    let mut parts: Vec<String> = v.iter().map(|x| x.canon().to_string()).collect();
    parts.extend(v.iter().map(|x| x.raw_word().to_string()));
    parts.join(" ")
}

/// the elements must denote `expect`; their raw words must satisfy the representation invariant;
/// as a digest they must compare equal to, and serialise like, the digest built from the residues
fn judge<H: RH>(mut o: Outcome, site: &str, got: &[H::F], expect: &[u128], is_digest: bool) -> Outcome {
    let g = canon(got);
    if g != expect {
        o = o.fail(format!("{}.{}.reference", H::NAME, site), format!("got {} but the reference gives {}", join(&g), join(expect)));
    }
    if got.iter().any(|x| !H::F::raw_ok(x.raw_word())) {
        o = o.fail(
            format!("{}.{}.raw-out-of-range", H::NAME, site),
            format!("raw words {} violate the representation invariant", join(&got.iter().map(|x| x.raw_word()).collect::<Vec<_>>())),
        );
    }
    if is_digest {
        let c: Vec<H::F> = g.iter().map(|v| H::F::from_word(*v)).collect();
        if !H::digest_eq(got, &c) {
            o = o.fail(format!("{}.{}.digest-eq", H::NAME, site), "digest != digest of the same residues");
        }
        if H::digest_bytes(got) != H::digest_bytes(&c) {
            o = o.fail(format!("{}.{}.digest-bytes", H::NAME, site), "digest bytes differ from those of the same residues");
        }
    }
    o
}

fn exec_rescue<H: RH>(t: &[&str]) -> Outcome {
    let sp = H::spec();
    let m = sp.m;
    match t {
        ["hash", h] => {
            let bytes = unhex(h);
            let d = H::hash(&bytes);
            let mut o = judge::<H>(Outcome::ok(show(&d)), "hash", &d, &sp.hash_bytes(&bytes), true);
            if canon(&H::hash(&bytes)) != canon(&d) {
                o = o.fail(format!("{}.hash.determinism", H::NAME), "two calls differ");
            }
            // an appended zero byte, and a dropped last byte, must change the digest
            let mut longer = bytes.clone();
            longer.push(0);
            if let Ok(d2) = guarded(|| H::hash(&longer)) {
                if canon(&d2) == canon(&d) {
                    o = o.fail(format!("{}.hash.trailing-zero", H::NAME), "hash(x) == hash(x || 00)");
                }
            }
            if let Some((_, shorter)) = bytes.split_last() {
                if let Ok(d2) = guarded(|| H::hash(shorter)) {
                    if canon(&d2) == canon(&d) {
                        o = o.fail(format!("{}.hash.length", H::NAME), "hash(x) == hash(x without its last byte)");
                    }
                }
            }
            o
        },
        ["hashel", rest @ ..] | ["hashraw", rest @ ..] => {
            let raw = t[0] == "hashraw";
            let Some(v) = nums(rest) else { return Outcome::ok("bad-op") };
            let es: Vec<H::F> = v.iter().map(|x| if raw { H::F::from_raw_word(*x) } else { H::F::from_word(*x) }).collect();
            let res: Vec<u128> = v.iter().map(|x| if raw { raw_val::<H::F>(*x) } else { *x % m }).collect();
            let d = H::hash_base(&es);
            let mut o = judge::<H>(Outcome::ok(show(&d)), t[0], &d, &sp.sponge(&res), true);
            // the digest depends on the residues only
            let cs: Vec<H::F> = res.iter().map(|x| H::F::from_word(*x)).collect();
            let dc = H::hash_base(&cs);
            if !H::digest_eq(&d, &dc) || H::digest_bytes(&d) != H::digest_bytes(&dc) {
                o = o.fail(format!("{}.{}.representation", H::NAME, t[0]), "digest differs from that of the same residues built with new()");
            }
            // appending a zero element must change the digest
            let mut longer = es.clone();
            longer.push(H::F::from_word(0));
            if canon(&H::hash_base(&longer)) == canon(&d) {
                o = o.fail(format!("{}.{}.trailing-zero", H::NAME, t[0]), "hash_elements(es) == hash_elements(es || 0)");
            }
            o
        },
        ["hashext", deg, rest @ ..] => {
            let Some(v) = nums(rest) else { return Outcome::ok("bad-op") };
            let base: Vec<H::F> = v.iter().map(|x| H::F::from_word(*x)).collect();
            let res: Vec<u128> = v.iter().map(|x| *x % m).collect();
            let d = match *deg {
                "2" if v.len() % 2 == 0 => {
                    let es: Vec<QuadExtension<H::F>> = base.chunks(2).map(|c| QuadExtension::new(c[0], c[1])).collect();
                    H::hash_quad(&es)
                },
                "3" if v.len() % 3 == 0 => {
                    let es: Vec<CubeExtension<H::F>> = base.chunks(3).map(|c| CubeExtension::new(c[0], c[1], c[2])).collect();
                    H::hash_cube(&es)
                },
                _ => return Outcome::ok("bad-op"),
            };
            let mut o = judge::<H>(Outcome::ok(show(&d)), "hashext", &d, &sp.sponge(&res), true);
            if canon(&H::hash_base(&base)) != canon(&d) {
                o = o.fail(format!("{}.hashext.flattening", H::NAME), "differs from hashing the base-field flattening");
            }
            o
        },
        ["merge", rest @ ..] | ["mergeraw", rest @ ..] if rest.len() == 8 => {
            let raw = t[0] == "mergeraw";
            let Some(v) = nums(rest) else { return Outcome::ok("bad-op") };
            let es: Vec<H::F> = v.iter().map(|x| if raw { H::F::from_raw_word(*x) } else { H::F::from_word(*x) }).collect();
            let res: Vec<u128> = v.iter().map(|x| if raw { raw_val::<H::F>(*x) } else { *x % m }).collect();
            let d = H::merge(&es[..4], &es[4..]);
            let mut o = judge::<H>(Outcome::ok(show(&d)), t[0], &d, &sp.merge(&res[..4], &res[4..]), true);
            if !sp.jive && canon(&H::hash_base(&es)) != canon(&d) {
                o = o.fail(format!("{}.merge.concat", H::NAME), "merge([a, b]) != hash_elements(a || b)");
            }
            o
        },
        ["mergeint", a, b, c, d4, v] => {
            let Some(s) = nums(&[*a, *b, *c, *d4]) else { return Outcome::ok("bad-op") };
            let Some(v) = pu(v).filter(|v| *v <= u64::MAX as u128) else { return Outcome::ok("bad-op") };
            let seed: Vec<H::F> = s.iter().map(|x| H::F::from_word(*x)).collect();
            let res: Vec<u128> = s.iter().map(|x| *x % m).collect();
            let d = H::merge_int(&seed, v as u64);
            let mut o = judge::<H>(Outcome::ok(show(&d)), "mergeint", &d, &sp.merge_int(&res, v), true);
            // injective in the integer: integers congruent modulo p, and neighbours, give other digests
            let mut others = vec![v ^ 1, v.wrapping_add(m), v.wrapping_sub(m), v.wrapping_add(2 * m), v / m, v % m];
            others.retain(|w| *w <= u64::MAX as u128 && *w != v);
            for w in others {
                if canon(&H::merge_int(&seed, w as u64)) == canon(&d) {
                    o = o.fail(format!("{}.mergeint.injective", H::NAME), format!("same digest for {} and {}", v, w));
                }
            }
            o
        },
        ["perm", rest @ ..] | ["round", _, rest @ ..] if rest.len() == sp.width => {
            let Some(v) = nums(rest) else { return Outcome::ok("bad-op") };
            let mut st: Vec<H::F> = v.iter().map(|x| H::F::from_raw_word(*x)).collect();
            let mut rf: Vec<u128> = v.iter().map(|x| raw_val::<H::F>(*x)).collect();
            let ok = if t[0] == "perm" {
                sp.perm(&mut rf);
                H::perm(&mut st)
            } else {
                let Some(r) = pu(t[1]).filter(|r| (*r as usize) < sp.rounds) else { return Outcome::ok("bad-op") };
                sp.round(&mut rf, r as usize);
                H::round(&mut st, r as usize)
            };
            if !ok {
                return Outcome::ok("bad-op");
            }
            let mut o = judge::<H>(Outcome::ok(show(&st)), t[0], &st, &rf, false);
            // the result is the canonical element of its residue in every position
            for (x, e) in st.iter().zip(&rf) {
                if *x != H::F::from_word(*e) {
                    o = o.fail(format!("{}.{}.eq", H::NAME, t[0]), "state element != new(residue)");
                    break;
                }
            }
            o
        },
        ["digest", rest @ ..] if rest.len() == 4 => {
            let Some(v) = nums(rest) else { return Outcome::ok("bad-op") };
            let es: Vec<H::F> = v.iter().map(|x| H::F::from_raw_word(*x)).collect();
            let res: Vec<u128> = v.iter().map(|x| raw_val::<H::F>(*x)).collect();
            let ab = H::digest_bytes(&es);
            let ser = H::digest_ser(&es);
            let back = H::digest_de(&ser);
            let backs = match &back {
                Ok((d, rest)) => format!("{} {}", join(&canon(d)), rest),
                Err(e) => e.clone(),
            };
            let mut o = Outcome::ok(format!("{} {} {}", hex(&ab), hex(&ser), backs));
            // documented layout: the canonical integers, little endian, packed (64 or 62 bits each)
            let bits = if m == M62 { 62 } else { 64 };
            let mut acc = [0u8; 40];
            for (k, r) in res.iter().enumerate() {
                for b in 0..bits {
                    if (r >> b) & 1 == 1 {
                        let pos = k * bits + b;
                        acc[pos / 8] |= 1 << (pos % 8);
                    }
                }
            }
            if ab[..] != acc[..32] {
                o = o.fail(format!("{}.digest.as_bytes", H::NAME), "as_bytes is not the packed canonical little-endian encoding");
            }
            let n = if m == M62 { 31 } else { 32 };
            if ser[..] != acc[..n] {
                o = o.fail(format!("{}.digest.to_bytes", H::NAME), "serialisation is not the packed canonical encoding");
            }
            match back {
                Ok((d, 0)) if canon(&d) == res && H::digest_eq(&d, &es) => {},
                _ => o = o.fail(format!("{}.digest.roundtrip", H::NAME), "read_from(to_bytes(d)) != d"),
            }
            o
        },
        // twin entry points of the digest types (DESIGN 9.5 lesson 14): the From conversions next to new / as_bytes /
        // as_elements, digests_as_elements (slice reinterpretation), Default, write_into on a non-empty writer
        ["digconv", rest @ ..] if rest.len() == 8 => {
            let Some(v) = nums(rest) else { return Outcome::ok("bad-op") };
            if v.iter().any(|x| !H::F::raw_ok(*x)) {
                return Outcome::ok("bad-op");
            }
            let es: Vec<H::F> = v.iter().map(|x| H::F::from_raw_word(*x)).collect();
            let res: Vec<u128> = v.iter().map(|x| raw_val::<H::F>(*x)).collect();
            let (b32, back) = H::digest_conv(&es[..4]);
            let (flat, dflt, w) = H::digest_slices(&es[..4], &es[4..]);
            let mut o = Outcome::ok(format!("{} {}", hex(&b32), join(&canon(&flat))));
            if b32 != H::digest_bytes(&es[..4]) {
                o = o.fail(format!("{}.digconv.bytes", H::NAME), "[u8; 32]::from(digest) differs from as_bytes()");
            }
            if canon(&back) != res[..4] || back.iter().zip(&es[..4]).any(|(x, y)| x.raw_word() != y.raw_word()) {
                o = o.fail(format!("{}.digconv.elements", H::NAME), "the elements of Digest::from(array) are not the array");
            }
            if canon(&flat) != res || flat.iter().zip(&es).any(|(x, y)| x.raw_word() != y.raw_word()) {
                o = o.fail(format!("{}.digconv.digests_as_elements", H::NAME), "digests_as_elements is not the elements of the digests in order");
            }
            if canon(&dflt) != vec![0u128; 4] {
                o = o.fail(format!("{}.digconv.default", H::NAME), "the default digest is not all zero");
            }
            if w[0] != 0xa5 || w[1..] != H::digest_ser(&es[..4])[..] {
                o = o.fail(format!("{}.digconv.write_into", H::NAME), "write_into does not append to_bytes()");
            }
            o
        },
        // RpJive64_256::apply_jive_summation: digest[i] = init[i] + init[4+i] + final[i] + final[4+i]
        ["jivesum", rest @ ..] if rest.len() == 2 * sp.width => {
            let Some(v) = nums(rest) else { return Outcome::ok("bad-op") };
            if v.iter().any(|x| !H::F::raw_ok(*x)) {
                return Outcome::ok("bad-op");
            }
            let es: Vec<H::F> = v.iter().map(|x| H::F::from_raw_word(*x)).collect();
            let res: Vec<u128> = v.iter().map(|x| raw_val::<H::F>(*x)).collect();
            let w = sp.width;
            let Some(d) = H::jive_sum(&es[..w], &es[w..]) else { return Outcome::ok("bad-op") };
            let expect: Vec<u128> = (0..4).map(|i| addmod(addmod(res[i], res[4 + i], m), addmod(res[w + i], res[w + 4 + i], m), m)).collect();
            let mut o = judge::<H>(Outcome::ok(join(&canon(&d))), "jivesum", &d, &expect, true);
            // the digest is a value like any other: every word equals new(residue), it hashes like the canonical digest
            // and survives a byte round trip
            let c: Vec<H::F> = expect.iter().map(|v| H::F::from_word(*v)).collect();
            if d.iter().zip(&c).any(|(x, y)| x != y || x.raw_word() != y.raw_word()) {
                o = o.fail(format!("{}.jivesum.noncanonical-word", H::NAME), format!("internal words {} instead of {}", join(&d.iter().map(|x| x.raw_word()).collect::<Vec<_>>()), join(&c.iter().map(|x| x.raw_word()).collect::<Vec<_>>())));
            }
            match guarded(|| H::hash_base(&d)) {
                Ok(hd) if canon(&hd) == canon(&H::hash_base(&c)) => {},
                Ok(_) => o = o.fail(format!("{}.jivesum.rehash", H::NAME), "hash_elements of the digest's elements differs from that of the same residues"),
                Err(info) => o = o.fail(format!("{}.jivesum.rehash", H::NAME), format!("hash_elements of the digest's elements panics: {}", info)),
            }
            match H::digest_de(&H::digest_ser(&d)) {
                Ok((back, 0)) if H::digest_eq(&back, &d) => {},
                _ => o = o.fail(format!("{}.jivesum.roundtrip", H::NAME), "the digest differs from itself after write_into / read_from"),
            }
            o
        },
        ["digread", h] => {
            let bytes = unhex(h);
            match H::digest_de(&bytes) {
                Ok((d, rest)) => {
                    let mut o = Outcome::ok(format!("{} {}", show(&d), rest));
                    if d.iter().any(|x| !H::F::raw_ok(x.raw_word())) {
                        o = o.fail(format!("{}.digread.raw-out-of-range", H::NAME), "");
                    }
                    o
                },
                Err(e) => Outcome::ok(e),
            }
        },
        _ => Outcome::ok("bad-op"),
    }
}

// ------------------------------------------------------------------------------------ byte hashers

trait BH {
    const NAME: &'static str;
    const N: usize;
    fn hash(b: &[u8]) -> Vec<u8>;
    fn as_bytes32(b: &[u8]) -> [u8; 32];
    fn merge(a: &[u8], b: &[u8]) -> Vec<u8>;
    fn merge_int(a: &[u8], v: u64) -> Vec<u8>;
    fn hash_el<B: XFld, E: FieldElement<BaseField = B>>(e: &[E]) -> Vec<u8>;
    /// (digests_as_bytes(bytes_as_digests(arrs)), as_bytes of the first (zeros for none), names of failed self-consistency checks)
    fn digest_views(arrs: &[Vec<u8>]) -> (Vec<u8>, [u8; 32], Vec<&'static str>);
}

macro_rules! impl_bh {
    ($t:ident, $h:ident, $name:expr, $n:expr) => {
        struct $t;
        impl BH for $t {
            const NAME: &'static str = $name;
            const N: usize = $n;
            fn hash(b: &[u8]) -> Vec<u8> {
                <$h<f64::BaseElement> as Hasher>::hash(b).to_bytes()
            }
            fn as_bytes32(b: &[u8]) -> [u8; 32] {
                <$h<f64::BaseElement> as Hasher>::hash(b).as_bytes()
            }
            fn merge(a: &[u8], b: &[u8]) -> Vec<u8> {
                type D = <$h<f64::BaseElement> as Hasher>::Digest;
                let v = [D::new(a.try_into().unwrap()), D::new(b.try_into().unwrap())];
                <$h<f64::BaseElement> as Hasher>::merge(&v).to_bytes()
            }
            fn merge_int(a: &[u8], v: u64) -> Vec<u8> {
                type D = <$h<f64::BaseElement> as Hasher>::Digest;
                <$h<f64::BaseElement> as Hasher>::merge_with_int(D::new(a.try_into().unwrap()), v).to_bytes()
            }
            fn hash_el<B: XFld, E: FieldElement<BaseField = B>>(e: &[E]) -> Vec<u8> {
                <$h<B> as ElementHasher>::hash_elements(e).to_bytes()
            }
            fn digest_views(arrs: &[Vec<u8>]) -> (Vec<u8>, [u8; 32], Vec<&'static str>) {
                use winter_utils::ByteReader;
                type D = <$h<f64::BaseElement> as Hasher>::Digest;
                let raw: Vec<[u8; $n]> = arrs.iter().map(|a| a.as_slice().try_into().unwrap()).collect();
                let ds: &[D] = D::bytes_as_digests(&raw);
                let flat = D::digests_as_bytes(ds).to_vec();
                let mut bad = vec![];
                if ds.len() != raw.len() || ds.iter().zip(&raw).any(|(d, r)| *d != D::new(*r) || d.to_bytes() != r.to_vec()) {
                    bad.push("new");
                }
                if D::default() != D::new([0u8; $n]) {
                    bad.push("default");
                }
                // write_into appends exactly the N bytes; read_from takes exactly N bytes and refuses fewer
                let mut w: Vec<u8> = vec![0xa5];
                for d in ds {
                    d.write_into(&mut w);
                }
                if w[0] != 0xa5 || w[1..] != flat[..] {
                    bad.push("write_into");
                }
                let mut rd = SliceReader::new(&flat);
                for d in ds {
                    match D::read_from(&mut rd) {
                        Ok(x) if x == *d => {},
                        _ => {
                            bad.push("read_from");
                            break;
                        },
                    }
                }
                if rd.has_more_bytes() {
                    bad.push("read_from.rest");
                }
                if !flat.is_empty() && D::read_from(&mut SliceReader::new(&flat[..$n - 1])).is_ok() {
                    bad.push("read_from.short");
                }
                let first = ds.first().map(|d| d.as_bytes()).unwrap_or([0u8; 32]);
                (flat, first, bad)
            }
        }
    };
}

impl_bh!(B256, Blake3_256, "blake3_256", 32);
impl_bh!(B192, Blake3_192, "blake3_192", 24);
impl_bh!(S256, Sha3_256, "sha3_256", 32);

/// canonical little-endian bytes of residues
fn le_bytes(res: &[u128], n: usize) -> Vec<u8> {
    let mut out = vec![];
    for r in res {
        for i in 0..n {
            out.push((r >> (8 * i)) as u8);
        }
    }
    out
}

/// out: the bytes that are fed (those the documentation prescribes), checked against the digest
fn fed<X: BH>(o: Outcome, site: &str, digest: &[u8], bytes: &[u8]) -> Outcome {
    let mut o = o;
    o.out = hex(bytes);
    if X::hash(bytes) != digest {
        o.out = "nomatch".into();
        o = o.fail(format!("{}.{}.bytes-fed", X::NAME, site), "digest is not the hash of the documented byte string");
    }
    o
}

fn exec_bytes_f<X: BH, B: XFld>(t: &[&str]) -> Outcome {
    let m = B::MOD;
    let nb = B::ELEMENT_BYTES;
    match t {
        ["hashel", _, rest @ ..] | ["hashraw", _, rest @ ..] => {
            let raw = t[0] == "hashraw";
            let Some(v) = nums(rest) else { return Outcome::ok("bad-op") };
            let es: Vec<B> = v.iter().map(|x| if raw { B::from_raw_word(*x) } else { B::from_word(*x) }).collect();
            let res: Vec<u128> = v.iter().map(|x| if raw { raw_val::<B>(*x) } else { *x % m }).collect();
            fed::<X>(Outcome::default(), t[0], &X::hash_el::<B, B>(&es), &le_bytes(&res, nb))
        },
        ["hashext", _, deg, rest @ ..] => {
            let Some(v) = nums(rest) else { return Outcome::ok("bad-op") };
            let base: Vec<B> = v.iter().map(|x| B::from_word(*x)).collect();
            let res: Vec<u128> = v.iter().map(|x| *x % m).collect();
            let d = match *deg {
                "2" if v.len() % 2 == 0 && <B as winter_math::ExtensibleField<2>>::is_supported() => {
                    let es: Vec<QuadExtension<B>> = base.chunks(2).map(|c| QuadExtension::new(c[0], c[1])).collect();
                    X::hash_el::<B, QuadExtension<B>>(&es)
                },
                "3" if v.len() % 3 == 0 && <B as winter_math::ExtensibleField<3>>::is_supported() => {
                    let es: Vec<CubeExtension<B>> = base.chunks(3).map(|c| CubeExtension::new(c[0], c[1], c[2])).collect();
                    X::hash_el::<B, CubeExtension<B>>(&es)
                },
                _ => return Outcome::ok("bad-op"),
            };
            let mut o = fed::<X>(Outcome::default(), "hashext", &d, &le_bytes(&res, nb));
            if X::hash_el::<B, B>(&base) != d {
                o = o.fail(format!("{}.hashext.flattening", X::NAME), "differs from hashing the base-field flattening");
            }
            o
        },
        _ => Outcome::ok("bad-op"),
    }
}

fn exec_bytes<X: BH>(t: &[&str]) -> Outcome {
    match t {
        ["hash", h] => {
            let bytes = unhex(h);
            let d = X::hash(&bytes);
            let mut o = Outcome::ok(hex(&d));
            if d.len() != X::N {
                o = o.fail(format!("{}.hash.length", X::NAME), "digest length");
            }
            if X::hash(&bytes) != d {
                o = o.fail(format!("{}.hash.determinism", X::NAME), "two calls differ");
            }
            // the 192-bit variant is the 256-bit one truncated to 24 bytes; as_bytes pads with zeros
            if X::NAME.starts_with("blake3") && d[..] != B256::hash(&bytes)[..X::N] {
                o = o.fail(format!("{}.hash.truncation", X::NAME), "not a prefix of the 256-bit BLAKE3 digest");
            }
            let a = X::as_bytes32(&bytes);
            if a[..X::N] != d[..] || a[X::N..].iter().any(|b| *b != 0) {
                o = o.fail(format!("{}.hash.as_bytes", X::NAME), "as_bytes is not the digest padded with zeros");
            }
            let mut longer = bytes.clone();
            longer.push(0);
            if X::hash(&longer) == d {
                o = o.fail(format!("{}.hash.trailing-zero", X::NAME), "hash(x) == hash(x || 00)");
            }
            o
        },
        ["hashel", f, ..] | ["hashraw", f, ..] | ["hashext", f, ..] => match *f {
            "f64" => exec_bytes_f::<X, f64::BaseElement>(t),
            "f62" => exec_bytes_f::<X, f62::BaseElement>(t),
            "f128" => exec_bytes_f::<X, f128::BaseElement>(t),
            _ => Outcome::ok("bad-op"),
        },
        ["merge", a, b] => {
            let (a, b) = (unhex(a), unhex(b));
            if a.len() != X::N || b.len() != X::N {
                return Outcome::ok("bad-op");
            }
            let mut cat = a.clone();
            cat.extend_from_slice(&b);
            fed::<X>(Outcome::default(), "merge", &X::merge(&a, &b), &cat)
        },
        // ByteDigest: new / as_bytes / bytes_as_digests / digests_as_bytes / Default / write_into / read_from on a list of
        // N-byte values (judged by the oracle only: the type is a plain byte container)
        ["bdig", hs @ ..] => {
            let arrs: Vec<Vec<u8>> = hs.iter().map(|h| unhex(h)).collect();
            if arrs.iter().any(|a| a.len() != X::N) {
                return Outcome::ok("bad-op");
            }
            let (flat, first32, problems) = X::digest_views(&arrs);
            let mut o = Outcome::ok(format!("{} {}", hex(&flat), hex(&first32)));
            let cat: Vec<u8> = arrs.iter().flatten().cloned().collect();
            if flat != cat {
                o = o.fail(format!("{}.bdig.slices", X::NAME), "digests_as_bytes(bytes_as_digests(v)) is not the concatenation of v");
            }
            if let Some(a) = arrs.first() {
                if first32[..X::N] != a[..] || first32[X::N..].iter().any(|b| *b != 0) {
                    o = o.fail(format!("{}.bdig.as_bytes", X::NAME), "as_bytes is not the value padded with zeros");
                }
            }
            for pb in problems {
                o = o.fail(format!("{}.bdig.{}", X::NAME, pb), "");
            }
            o
        },
        ["mergeint", a, v] => {
            let a = unhex(a);
            let Some(v) = pu(v).filter(|v| *v <= u64::MAX as u128) else { return Outcome::ok("bad-op") };
            if a.len() != X::N {
                return Outcome::ok("bad-op");
            }
            let mut cat = a.clone();
            cat.extend_from_slice(&(v as u64).to_le_bytes());
            let d = X::merge_int(&a, v as u64);
            let mut o = fed::<X>(Outcome::default(), "mergeint", &d, &cat);
            for w in [v ^ 1, v ^ (1 << 63), v.wrapping_add(M64) & (u64::MAX as u128)] {
                if w != v && X::merge_int(&a, w as u64) == d {
                    o = o.fail(format!("{}.mergeint.injective", X::NAME), format!("same digest for {} and {}", v, w));
                }
            }
            o
        },
        _ => Outcome::ok("bad-op"),
    }
}

// ------------------------------------------------------------------------------------ generators

/// raw words with boundary limbs; for the 64-bit field the words >= p are non-canonical
fn limb_words(m: u128, with_noncanonical: bool) -> Vec<u128> {
    let mut v: Vec<u128> = vec![
        0,
        1,
        0xFFFFFFFF,
        0x1_0000_0000,
        0x1_0000_0001,
        0xFFFFFFFF_00000000 % m,
        m - 1,
        m - 2,
        (m - 1) / 2,
        0xFFFFFFFE_FFFFFFFF % m,
        0x7FFFFFFF_FFFFFFFF % m,
        (1u128 << 61) - 1,
        0x80000000_80000000 % m,
        0xFFFFFFFF % m + ((m >> 32) << 32),
    ];
    if with_noncanonical {
        v.extend_from_slice(&[m, m + 1, u64::MAX as u128, (u64::MAX as u128) - 1, 0xFFFFFFFF_7FFFFFFF, 0xFFFFFFFF_80000000]);
        v.retain(|x| *x <= u64::MAX as u128);
    } else {
        v.retain(|x| *x < m);
    }
    v.sort();
    v.dedup();
    v
}

/// a raw word whose `alpha`-th power (S-box) has the raw word `want`: lets the MDS step see chosen limbs
fn sbox_preimage<F: Fld>(sp: &Spec, want: u128) -> u128 {
    let r = (1u128 << 64) % sp.m;
    let val = raw_val::<F>(want % sp.m);
    let pre = powmod(val, sp.inv_alpha, sp.m);
    mulmod(pre, r, sp.m)
}

/// MDS inputs (raw words `< p`) whose product with row `i` is `s_hi * 2^64 + s_lo` for chosen patterns
fn mds_row_targets(sp: &Spec, i: usize, rng: &mut Rng) -> Vec<Vec<u128>> {
    let row = &sp.mds[i];
    let w = sp.width;
    let s: u128 = row.iter().sum();
    let (Some(j7), Some(j8)) = (row.iter().position(|c| *c == 7), row.iter().position(|c| *c == 8)) else {
        return vec![];
    };
    let two64 = 1u128 << 64;
    let top = s * (sp.m - 1);
    let hi_max = top >> 64;
    let mut out = vec![];
    let mut his: Vec<u128> = vec![0, 1, 2, 3, hi_max / 2, hi_max / 2 + 1, hi_max - 2, hi_max - 1, hi_max];
    his.push(rng.below(hi_max as u64) as u128);
    his.sort();
    his.dedup();
    for hi in his {
        let z = hi * 0xFFFF_FFFF;
        let mut los: Vec<u128> = vec![0, 1, 0xFFFF_FFFF, 1 << 32, two64 - 1, two64 - 2, (rng.u64() as u128)];
        for d in 0..3u128 {
            // carry boundary of s_lo + z, and the canonical boundary p
            los.push((two64 - z).wrapping_sub(d + 1) % two64);
            los.push((two64 - z + d) % two64);
            los.push((sp.m + two64 - z - d - 1) % two64);
            los.push((sp.m + two64 - z + d) % two64);
        }
        los.sort();
        los.dedup();
        for lo in los {
            let t = hi * two64 + lo;
            if t > top || t < 256 {
                continue;
            }
            let (mut q, mut r) = (t / s, t % s);
            // r = 7 a + 8 b with a, b >= 0
            while r < 8 * (r % 7) && q > 0 {
                q -= 1;
                r += s;
            }
            if r < 8 * (r % 7) {
                continue;
            }
            let b = r % 7;
            let a = (r - 8 * b) / 7;
            let mut x = vec![q; w];
            x[j7] += a;
            x[j8] += b;
            if x.iter().any(|v| *v >= sp.m) {
                continue;
            }
            debug_assert_eq!(row.iter().zip(&x).map(|(c, v)| c * v).sum::<u128>(), t);
            out.push(x);
        }
    }
    out
}

fn gen_rescue<H: RH>(rng: &mut Rng, tier: Tier, n: usize, emit: &mut dyn FnMut(String)) {
    let sp = H::spec();
    let h = H::NAME;
    let m = sp.m;
    let block = 7 * sp.rate_w;
    let big = tier == Tier::Thorough;
    let rawlim = if m == M62 { 2 * m } else { m };
    let elem = |rng: &mut Rng| -> u128 {
        match rng.below(8) {
            0 => *rng.pick(&[0u128, 1, 2, m - 1, m - 2, (m - 1) / 2]),
            _ => rng.u128() % m,
        }
    };
    // --- byte strings of every length up to four rate blocks (+1), several contents
    for len in 0..=4 * block + 8 {
        emit(format!("{} hash {}", h, hex(&rng.bytes(len))));
        emit(format!("{} hash {}", h, hex(&vec![0u8; len])));
        // all-ones, and random content ending in 0x01 / 0x00 (the padding byte and a trailing zero), for
        // every length
        emit(format!("{} hash {}", h, hex(&vec![0xffu8; len])));
        for tail in [1u8, 0u8] {
            let mut b = rng.bytes(len);
            if let Some(l) = b.last_mut() {
                *l = tail;
            }
            emit(format!("{} hash {}", h, hex(&b)));
        }
        if len >= 2 && (big || len % 7 <= 1) {
            // zeros ending in 0x01, and 0x01 followed by zeros: against the padded encoding of the shorter string
            let mut b = vec![0u8; len];
            b[len - 1] = 1;
            emit(format!("{} hash {}", h, hex(&b)));
            let mut b = vec![0u8; len];
            b[len - 2] = 1;
            emit(format!("{} hash {}", h, hex(&b)));
        }
    }
    for len in [5 * block - 1, 5 * block, 5 * block + 1, 8 * block + 3, 255, 256, 257, 511, 512, 1000, 7 * 147, 4096] {
        emit(format!("{} hash {}", h, hex(&rng.bytes(len))));
    }
    if big && m == M62 {
        // beyond 2^16 bytes (the element count in the capacity exceeds 2^13)
        emit(format!("{} hash {}", h, hex(&rng.bytes(65537))));
    }
    // --- element lists of every length around the rate boundaries
    for len in 0..=4 * sp.rate_w + 2 {
        for k in 0..(if big { 6 } else { 2 }) {
            let es: Vec<u128> = (0..len).map(|_| elem(rng)).collect();
            emit(format!("{} hashel {}", h, join(&es)));
        }
        emit(format!("{} hashel {}", h, join(&vec![0u128; len])));
        emit(format!("{} hashel {}", h, join(&vec![m - 1; len])));
        let raws: Vec<u128> = (0..len).map(|_| if rng.chance(1, 3) { *rng.pick(&[0u128, m - 1, m, m + 1, 2 * m - 1, 1]) % rawlim } else { rng.u128() % rawlim }).collect();
        emit(format!("{} hashraw {}", h, join(&raws)));
        if len % 2 == 0 {
            let es: Vec<u128> = (0..len).map(|_| elem(rng)).collect();
            emit(format!("{} hashext 2 {}", h, join(&es)));
        }
        if len % 3 == 0 {
            let es: Vec<u128> = (0..len).map(|_| elem(rng)).collect();
            emit(format!("{} hashext 3 {}", h, join(&es)));
        }
    }
    // boundary raw words (and for the 62-bit field both representatives) at every length 0..3*rate+1
    {
        let mut bw = limb_words(m, false);
        if m == M62 {
            bw.extend_from_slice(&[m, m + 1, 2 * m - 1, 2 * m - 2, (1u128 << 62) - 1, 1u128 << 62, (1u128 << 62) + 1]);
        }
        bw.retain(|x| *x < rawlim);
        for len in 0..=3 * sp.rate_w + 1 {
            let raws: Vec<u128> = (0..len).map(|k| bw[(k + len) % bw.len()]).collect();
            emit(format!("{} hashraw {}", h, join(&raws)));
            let raws: Vec<u128> = (0..len).map(|k| bw[(3 * k + 2 * len + 1) % bw.len()]).collect();
            emit(format!("{} hashraw {}", h, join(&raws)));
            if len > 0 {
                for w in [bw[len % bw.len()], *bw.last().unwrap()] {
                    // a single non-zero boundary word at the last / first position
                    let mut r = vec![0u128; len];
                    r[len - 1] = w;
                    emit(format!("{} hashraw {}", h, join(&r)));
                    let mut r = vec![0u128; len];
                    r[0] = w;
                    emit(format!("{} hashraw {}", h, join(&r)));
                }
            }
        }
    }
    // the padding element of the Jive sponge against explicit ones and zeros
    for len in 0..=2 * sp.rate_w {
        let mut es: Vec<u128> = (0..len).map(|_| elem(rng)).collect();
        emit(format!("{} hashel {}", h, join(&es)));
        es.push(1);
        emit(format!("{} hashel {}", h, join(&es)));
        es.push(0);
        emit(format!("{} hashel {}", h, join(&es)));
    }
    // --- merging
    let bd = [0u128, 1, m - 1, (m - 1) / 2];
    for a in bd {
        for b in bd {
            emit(format!("{} merge {} {}", h, join(&[a; 4]), join(&[b; 4])));
        }
    }
    for k in 0..(if big { 400 } else { 40 }) {
        let es: Vec<u128> = (0..8).map(|_| elem(rng)).collect();
        emit(format!("{} merge {}", h, join(&es)));
        let raws: Vec<u128> = (0..8).map(|_| if rng.chance(1, 4) { *rng.pick(&[0u128, m - 1, m, 2 * m - 1]) % rawlim } else { rng.u128() % rawlim }).collect();
        emit(format!("{} mergeraw {}", h, join(&raws)));
    }
    // digests with boundary limbs in every position (both representatives for the 62-bit field)
    {
        let mut bw = limb_words(m, false);
        if m == M62 {
            bw.extend_from_slice(&[m, m + 1, 2 * m - 1, (1u128 << 62) - 1, 1u128 << 62]);
        }
        bw.retain(|x| *x < rawlim);
        for (wi, w) in bw.iter().enumerate() {
            emit(format!("{} mergeraw {} {}", h, join(&[*w; 4]), join(&[bw[(wi + 1) % bw.len()]; 4])));
            let pos = wi % 8;
            let mut d: Vec<u128> = (0..8).map(|_| rng.u128() % m).collect();
            d[pos] = *w;
            emit(format!("{} mergeraw {}", h, join(&d)));
            let mut d = vec![0u128; 8];
            d[7 - pos] = *w;
            emit(format!("{} mergeraw {}", h, join(&d)));
        }
    }
    // --- merging with an integer: below / at / above the modulus and its multiples
    let mut ints: Vec<u128> = vec![0, 1, 2, 4, 5, 6, 7, 0xFFFFFFFF, 1 << 32, u64::MAX as u128, u64::MAX as u128 - 1];
    // k * M + d for k = 0..4 and small |d|, for every base-field modulus (the code compares with, divides by
    // and reduces modulo its own modulus; the other moduli and the powers of two are the neighbours it must
    // not confuse them with)
    for md in [M64, M62, 1u128 << 62, 1u128 << 63, (1u128 << 64) - (1u128 << 32)] {
        for k in 0..=4u128 {
            for d in 0..=3u128 {
                ints.push(k * md + d);
                ints.push((k * md).wrapping_sub(d + 1));
            }
        }
    }
    // the ranges in which a division-free quotient goes wrong: [kM, k*2^62 + M)
    for k in 1..=4u128 {
        for v in [k * M62 + (1 << 40), k * (1u128 << 62) - 1, k * (1u128 << 62), k * (1u128 << 62) + M62 - 1, k * (1u128 << 62) + M62] {
            ints.push(v);
        }
    }
    ints.retain(|v| *v <= u64::MAX as u128);
    ints.sort();
    ints.dedup();
    for v in &ints {
        emit(format!("{} mergeint 0 0 0 0 {}", h, v));
        let s: Vec<u128> = (0..4).map(|_| elem(rng)).collect();
        emit(format!("{} mergeint {} {}", h, join(&s), v));
    }
    for k in 0..(if big { 400 } else { 40 }) {
        let s: Vec<u128> = (0..4).map(|_| elem(rng)).collect();
        let v = if rng.chance(1, 2) { rng.u64() as u128 } else { (rng.u128() % (2 * m)).min(u64::MAX as u128) };
        emit(format!("{} mergeint {} {}", h, join(&s), v));
    }
    // --- digests
    for w in limb_words(m, false).iter().chain([m, m + 1, 2 * m - 1].iter()).filter(|w| **w < rawlim) {
        emit(format!("{} digest {}", h, join(&[*w; 4])));
        let mut d = [0u128; 4];
        for i in 0..4 {
            d[i] = *w;
            emit(format!("{} digest {}", h, join(&d)));
            d[i] = rng.u128() % rawlim;
        }
    }
    // the conversion twins of the digest type on the same boundary digests (second digest random / boundary)
    for w in limb_words(m, false).iter().chain([m, m + 1, 2 * m - 1].iter()).filter(|w| **w < rawlim) {
        let other: Vec<u128> = (0..4).map(|_| rng.u128() % rawlim).collect();
        emit(format!("{} digconv {} {}", h, join(&[*w; 4]), join(&other)));
        emit(format!("{} digconv {} {}", h, join(&other), join(&[*w; 4])));
        let mut d = [0u128; 4];
        for i in 0..4 {
            d[i] = *w;
            emit(format!("{} digconv {} {}", h, join(&d), join(&[*w; 4])));
            d[i] = rng.u128() % rawlim;
        }
    }
    if sp.jive {
        // apply_jive_summation: boundary words in every position of both states (sums that wrap once, twice, three times)
        let wd = sp.width;
        let words: Vec<u128> = limb_words(m, false).into_iter().filter(|w| *w < rawlim).collect();
        for w in &words {
            emit(format!("{} jivesum {}", h, join(&vec![*w; 2 * wd])));
            for i in 0..2 * wd {
                let mut st: Vec<u128> = (0..2 * wd).map(|_| rng.u128() % rawlim).collect();
                st[i] = *w;
                if i % 2 == 0 {
                    st[(i + 4) % (2 * wd)] = *rng.pick(&words);
                }
                emit(format!("{} jivesum {}", h, join(&st)));
            }
        }
        for _ in 0..(if big { 400 } else { 60 }) {
            let st: Vec<u128> = (0..2 * wd).map(|_| if rng.chance(1, 4) { *rng.pick(&words) } else { rng.u128() % rawlim }).collect();
            emit(format!("{} jivesum {}", h, join(&st)));
        }
        // column sums by construction: the four INTERNAL words that are added for output word i (initial[i],
        // initial[4+i], final[i], final[4+i]) sum, as integers, to a value just below / at / above every multiple of
        // M, of 2^64 and of 2^64 - 2^32 and their neighbours 2^64k - 2^32 (where a lazy or single reduction of the
        // integer sum leaves a word in [M, 2^64), wraps, or needs a second subtraction), and to the maximum 4M - 4 - k;
        // random boundary limbs never land there (a window of 2^32 values per multiple)
        let two64 = 1u128 << 64;
        let mut targets: Vec<u128> = vec![];
        for k in 1..=4u128 {
            for d in 0..4u128 {
                for b in [k * m, k * two64, k * (two64 - (1 << 32)), k * two64 - (1 << 32), k * two64 - (1 << 33), k * m + (1 << 32), k * m - (1 << 32)] {
                    targets.push(b + d);
                    targets.push(b.wrapping_sub(d + 1));
                }
            }
            targets.push(4 * m - 4 - (k - 1));
        }
        // the middle of each window [kM, k 2^64) and random points of it
        for k in 1..=3u128 {
            targets.push(k * m + (1 << 31));
            for _ in 0..3 {
                targets.push(k * m + (rng.u64() as u128 % ((1 << 32) - 1)) * k.min(1));
            }
        }
        targets.retain(|t| *t <= 4 * m - 4);
        targets.sort();
        targets.dedup();
        for t in &targets {
            for i in 0..4usize {
                for split in 0..2 {
                    // four words below M with the sum t: the first three at the low end, at the high end or anywhere in
                    // their admissible range, the last one is what remains
                    let mut rem = *t;
                    let mut ws = [0u128; 4];
                    for j in 0..3 {
                        let left = (3 - j) as u128;
                        let lo = rem.saturating_sub(left * (m - 1));
                        let hi = rem.min(m - 1);
                        let w = match (split + j + i) % 3 {
                            0 => lo + rng.u128() % (hi - lo + 1),
                            1 => hi - (rng.u64() as u128 % (hi - lo + 1).min(5)),
                            _ => lo + (rng.u64() as u128 % (hi - lo + 1).min(5)),
                        };
                        ws[j] = w;
                        rem -= w;
                    }
                    ws[3] = rem;
                    // a random order of the four summands
                    for j in (1..4).rev() {
                        ws.swap(j, rng.below(j as u64 + 1) as usize);
                    }
                    let mut st: Vec<u128> = (0..2 * wd).map(|_| rng.u128() % rawlim).collect();
                    st[i] = ws[0];
                    st[4 + i] = ws[1];
                    st[wd + i] = ws[2];
                    st[wd + 4 + i] = ws[3];
                    debug_assert!(ws.iter().all(|w| *w < m) && ws.iter().sum::<u128>() == *t);
                    emit(format!("{} jivesum {}", h, join(&st)));
                }
            }
        }
    }
    let dl = if m == M62 { 31 } else { 32 };
    for k in 0..(if big { 300 } else { 40 }) {
        let d: Vec<u128> = (0..4).map(|_| rng.u128() % rawlim).collect();
        emit(format!("{} digest {}", h, join(&d)));
        emit(format!("{} digconv {} {}", h, join(&d), join(&(0..4).map(|_| rng.u128() % rawlim).collect::<Vec<_>>())));
        let len = *rng.pick(&[dl, dl, dl, dl - 1, dl + 1, 0, 8]);
        let mut b = rng.bytes(len);
        if rng.chance(1, 3) {
            b = vec![0xff; len];
        }
        emit(format!("{} digread {}", h, hex(&b)));
    }
    // --- sponge states (only where the permutation is public)
    let mut probe = vec![H::F::from_word(0); sp.width];
    if H::perm(&mut probe) {
        let w = sp.width;
        let words = limb_words(m, true);
        for x in &words {
            // the boundary word in every position, the others zero / the same / random
            emit(format!("{} perm {}", h, join(&vec![*x; w])));
            for pos in 0..w {
                let mut st = vec![0u128; w];
                st[pos] = *x;
                emit(format!("{} perm {}", h, join(&st)));
                if big || pos % 3 == 0 {
                    let mut st: Vec<u128> = (0..w).map(|_| rng.u128() % m).collect();
                    st[pos] = *x;
                    emit(format!("{} perm {}", h, join(&st)));
                }
            }
        }
        // MDS inputs with chosen limbs: states whose S-box image has the wanted raw words
        let cwords = limb_words(m, false);
        for x in &cwords {
            let px = sbox_preimage::<H::F>(sp, *x);
            emit(format!("{} round 0 {}", h, join(&vec![px; w])));
            for pos in 0..w {
                let mut st = vec![0u128; w];
                st[pos] = px;
                emit(format!("{} round {} {}", h, pos % sp.rounds, join(&st)));
                // the other positions at the extreme limbs
                let hi = sbox_preimage::<H::F>(sp, 0xFFFFFFFE_FFFFFFFF);
                let mut st = vec![hi; w];
                st[pos] = px;
                emit(format!("{} round {} {}", h, (pos + 3) % sp.rounds, join(&st)));
            }
        }
        // reduction-tail patterns for EVERY output row: MDS inputs x (as S-box images) such that
        // sum_j c_ij x_j = s_hi * 2^64 + s_lo for chosen s_hi and s_lo around the carry (2^64 - z) and the
        // canonical (p - z) boundaries, z = s_hi * (2^32 - 1)
        for i in 0..w {
            for x in mds_row_targets(sp, i, rng) {
                let st: Vec<u128> = x.iter().map(|v| sbox_preimage::<H::F>(sp, *v)).collect();
                emit(format!("{} round {} {}", h, i % sp.rounds, join(&st)));
            }
        }
        for k in 0..(if big { 3000 } else { 200 }) {
            let st: Vec<u128> = (0..w)
                .map(|_| match rng.below(6) {
                    0 => *rng.pick(&words),
                    1 => sbox_preimage::<H::F>(sp, *rng.pick(&cwords)),
                    _ => rng.u128() % m,
                })
                .collect();
            if k % 2 == 0 {
                emit(format!("{} perm {}", h, join(&st)));
            } else {
                emit(format!("{} round {} {}", h, rng.below(sp.rounds as u64), join(&st)));
            }
        }
    }
    // --- random mix
    for k in 0..n {
        match k % 4 {
            0 => {
                let len = if rng.chance(1, 10) { rng.range(0, 2000) } else { rng.range(0, 4 * block as u64 + 8) } as usize;
                emit(format!("{} hash {}", h, hex(&rng.bytes(len))));
            },
            1 => {
                let len = rng.range(0, 4 * sp.rate_w as u64 + 2) as usize;
                let es: Vec<u128> = (0..len).map(|_| elem(rng)).collect();
                emit(format!("{} hashel {}", h, join(&es)));
            },
            2 => {
                let len = rng.range(0, 3 * sp.rate_w as u64) as usize;
                let raws: Vec<u128> = (0..len).map(|_| rng.u128() % rawlim).collect();
                emit(format!("{} hashraw {}", h, join(&raws)));
            },
            _ => {
                let es: Vec<u128> = (0..8).map(|_| elem(rng)).collect();
                emit(format!("{} merge {}", h, join(&es)));
            },
        }
    }
}

fn gen_bytes<X: BH>(rng: &mut Rng, tier: Tier, n: usize, emit: &mut dyn FnMut(String)) {
    let h = X::NAME;
    let big = tier == Tier::Thorough;
    for len in (0..=140).chain([191, 192, 193, 1023, 1024, 1025, 2048, 4097]) {
        emit(format!("{} hash {}", h, hex(&rng.bytes(len))));
        emit(format!("{} hash {}", h, hex(&vec![0u8; len])));
        emit(format!("{} hash {}", h, hex(&vec![0xffu8; len])));
        if len > 0 {
            for tail in [0u8, 1u8] {
                let mut b = rng.bytes(len);
                b[len - 1] = tail;
                emit(format!("{} hash {}", h, hex(&b)));
            }
        }
    }
    if big {
        emit(format!("{} hash {}", h, hex(&rng.bytes(65537))));
    }
    // every representation of the same residues: canonical words, and for the 62-bit field the second
    // representative r + M (and the non-normalised zero M), at every position
    for len in 1..=5usize {
        for pos in 0..len {
            for w in [M62, M62 + 1, 2 * M62 - 1, 2 * M62 - 2, (1u128 << 62) - 1, 1u128 << 62, (1u128 << 62) + 1, M62 - 1, 0] {
                let mut r: Vec<u128> = (0..len).map(|_| rng.u128() % M62).collect();
                r[pos] = w;
                emit(format!("{} hashraw f62 {}", h, join(&r)));
            }
            for w in [M64 - 1, M64 - 2, 0xFFFFFFFF, 1u128 << 32, 0xFFFFFFFF_00000000 % M64, 0] {
                let mut r: Vec<u128> = (0..len).map(|_| rng.u128() % M64).collect();
                r[pos] = w;
                emit(format!("{} hashraw f64 {}", h, join(&r)));
            }
        }
    }
    for (f, m) in [("f64", M64), ("f62", M62), ("f128", M128)] {
        for w in [0u128, 1, m - 1, m - 2, (m - 1) / 2, m, m + 1] {
            // integers at and above the modulus are reduced by `new`
            let w = if f == "f128" { w } else { w.min(u64::MAX as u128) };
            emit(format!("{} hashel {} {}", h, f, join(&[w, 1, w])));
            emit(format!("{} hashext {} 2 {}", h, f, join(&[w, 0, 0, w])));
            if f != "f128" {
                emit(format!("{} hashext {} 3 {}", h, f, join(&[w, 0, 1, 0, w, 2])));
            }
        }
    }
    for (f, m, rawlim, cubic) in [("f64", M64, M64, true), ("f62", M62, 2 * M62, true), ("f128", M128, M128, false)] {
        for len in 0..=(if big { 40 } else { 12 }) {
            let es: Vec<u128> = (0..len).map(|_| if rng.chance(1, 5) { *rng.pick(&[0u128, 1, m - 1]) } else { rng.u128() % m }).collect();
            emit(format!("{} hashel {} {}", h, f, join(&es)));
            if f != "f128" {
                let raws: Vec<u128> =
                    (0..len).map(|_| if rng.chance(1, 3) { *rng.pick(&[0u128, m - 1, m, m + 1, 2 * m - 1]) % rawlim } else { rng.u128() % rawlim }).collect();
                emit(format!("{} hashraw {} {}", h, f, join(&raws)));
            }
            if len % 2 == 0 {
                emit(format!("{} hashext {} 2 {}", h, f, join(&es)));
            }
            if len % 3 == 0 && cubic {
                emit(format!("{} hashext {} 3 {}", h, f, join(&es)));
            }
        }
        // long element lists: the wrappers serialise non-canonical fields element by element (any batching of that
        // loop has its seams beyond the small lengths above), lengths on both sides of 1024 / 2048 / 4096
        let longs: &[usize] = if big { &[1023, 1024, 1025, 1026, 2047, 2048, 2049, 3000, 4097] } else { &[1024, 1025, 1026, 2049, 3000] };
        for &len in longs {
            let es: Vec<u128> = (0..len).map(|_| rng.u128() % m).collect();
            emit(format!("{} hashel {} {}", h, f, join(&es)));
            if f != "f128" && len <= 2049 {
                let raws: Vec<u128> = (0..len).map(|_| rng.u128() % rawlim).collect();
                emit(format!("{} hashraw {} {}", h, f, join(&raws)));
            }
            if len % 2 == 0 {
                emit(format!("{} hashext {} 2 {}", h, f, join(&es)));
            }
            if len % 3 == 0 && cubic {
                emit(format!("{} hashext {} 3 {}", h, f, join(&es)));
            }
        }
    }
    for k in 0..(if big { 200 } else { 30 }) {
        let a = if k == 0 { vec![0u8; X::N] } else { rng.bytes(X::N) };
        let b = if k < 2 { vec![0u8; X::N] } else { rng.bytes(X::N) };
        emit(format!("{} merge {} {}", h, hex(&a), hex(&b)));
        let v = match k % 6 {
            0 => 0,
            1 => u64::MAX,
            2 => M64 as u64,
            3 => M64 as u64 - 1,
            _ => rng.u64(),
        };
        emit(format!("{} mergeint {} {}", h, hex(&a), v));
    }
    // the integer is fed as 8 little-endian bytes whatever its relation to any modulus
    {
        let a = rng.bytes(X::N);
        let mut ints: Vec<u128> = vec![0x0102030405060708, 0xFF, 0xFF00, 1 << 56, 0x8000000000000000];
        for md in [M64, M62, 1u128 << 62, 1u128 << 63] {
            for k in 0..=4u128 {
                for d in 0..=2u128 {
                    ints.push(k * md + d);
                    ints.push((k * md).wrapping_sub(d + 1));
                }
            }
        }
        ints.retain(|v| *v <= u64::MAX as u128);
        ints.sort();
        ints.dedup();
        for v in ints {
            emit(format!("{} mergeint {} {}", h, hex(&a), v));
        }
        // digests with boundary bytes
        for fill in [0u8, 0xff, 0x01, 0x80] {
            let d = vec![fill; X::N];
            emit(format!("{} merge {} {}", h, hex(&d), hex(&a)));
            emit(format!("{} merge {} {}", h, hex(&a), hex(&d)));
            emit(format!("{} mergeint {} {}", h, hex(&d), M64));
        }
    }
    // the digest container itself: lists of 0..5 values with boundary fillings in every position
    emit(format!("{} bdig", h));
    for cnt in 1..=5usize {
        for fill in [0u8, 0xff, 0x01, 0x80] {
            for pos in 0..cnt {
                let v: Vec<String> = (0..cnt).map(|i| if i == pos { hex(&vec![fill; X::N]) } else { hex(&rng.bytes(X::N)) }).collect();
                emit(format!("{} bdig {}", h, v.join(" ")));
            }
        }
    }
    for _ in 0..(n / 4).max(20) {
        let cnt = rng.range(1, 9) as usize;
        let v: Vec<String> = (0..cnt).map(|_| hex(&rng.bytes(X::N))).collect();
        emit(format!("{} bdig {}", h, v.join(" ")));
    }
    emit(format!("{} bdig {}", h, hex(&vec![1u8; X::N - 1])));
    for k in 0..n {
        let len = rng.range(0, 300) as usize;
        emit(format!("{} hash {}", h, hex(&rng.bytes(len))));
    }
}

impl Prop for P {
    fn id(&self) -> &'static str {
        "C11"
    }
    fn gen(&self, rng: &mut Rng, tier: Tier, n: usize, emit: &mut dyn FnMut(String)) {
        let n = default_n(tier, 400, 12_000, n);
        gen_rescue::<HRp64>(rng, tier, n, emit);
        gen_rescue::<HJive>(rng, tier, n, emit);
        gen_rescue::<HRp62>(rng, tier, n, emit);
        gen_bytes::<B256>(rng, tier, n / 4, emit);
        gen_bytes::<B192>(rng, tier, n / 4, emit);
        gen_bytes::<S256>(rng, tier, n / 4, emit);
        // malformed stream
        for l in ["rp64", "rp64 hash zz", "rp64 perm 1 2 3", "rp62 perm 0 0 0 0 0 0 0 0 0 0 0 0", "nohash hash 00", "rp64 mergeint 1 2 3 x 5", "blake3_256 merge 00 00", "sha3_256 hashel f32 1"] {
            emit(l.to_string());
        }
    }
    fn exec(&self, line: &str) -> Outcome {
        let t: Vec<&str> = line.split(' ').collect();
        if let ["rp64" | "rpjive" | "rp62" | "blake3_256" | "blake3_192" | "sha3_256", "hash", h] = t.as_slice() {
            if *h != "-" && (h.len() % 2 != 0 || !h.bytes().all(|c| c.is_ascii_hexdigit())) {
                return Outcome::ok("bad-op");
            }
        }
        match t[0] {
            "rp64" => exec_rescue::<HRp64>(&t[1..]),
            "rpjive" => exec_rescue::<HJive>(&t[1..]),
            "rp62" => exec_rescue::<HRp62>(&t[1..]),
            "blake3_256" => exec_bytes::<B256>(&t[1..]),
            "blake3_192" => exec_bytes::<B192>(&t[1..]),
            "sha3_256" => exec_bytes::<S256>(&t[1..]),
            _ => Outcome::ok("bad-op"),
        }
    }
    fn timeout_ms(&self) -> u64 {
        20_000
    }
    fn panic_site(&self, line: &str) -> Option<String> {
        // every hash function is total on its logical input: no op line of this property may panic
        let t: Vec<&str> = line.split(' ').collect();
        Some(format!("{}.{}.panic", t.first().unwrap_or(&""), t.get(1).unwrap_or(&"")))
    }
    fn nontrivial(&self, _line: &str, out: &str) -> bool {
        out != "bad-op"
    }
    fn rule(&self) -> &'static str {
        "all six hashers; byte strings of every length 0..4 rate blocks (+8) with random / all-zero / all-ones / 0x01- and 0x00-tail content plus long \
         strings; merge_with_int integers k*M+d (k = 0..4, |d| <= 4) for both 64-bit-sized moduli and the neighbouring powers of two; reduction-tail \
         patterns (chosen s_hi, s_lo at the carry and canonical boundaries) for every MDS output row; element lists of every length 0..4 rate blocks (+2) as residues, as raw internal words (both representatives of the 62-bit field) \
         and as quadratic / cubic extension elements; digest pairs and integers below / at / above every multiple of the modulus; sponge states and \
         single rounds with boundary limbs (0, 2^32-1, 2^32, p-1, non-canonical words >= p, S-box preimages of chosen MDS inputs) in every position; \
         a case is non-trivial when it is a distinct well-formed op line; outputs are canonical integers followed by raw words (Rescue) or the fed bytes (BLAKE3/SHA3)"
    }
}

fn main() {
    wf_harness::core::main_for(&P);
}
