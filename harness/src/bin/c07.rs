//! C07: base fields — arithmetic equals integer arithmetic modulo the prime.
//! Op lines mirror lean/Winter/Drv/C07.lean.  Oracle: wf_harness::oracle (independent bignum).
#![allow(dead_code, unused_variables, unused_imports, unused_mut)]
use wf_harness::core::*;
use wf_harness::fields::*;
use wf_harness::oracle::*;
use winter_math::{fields::f128, fields::f62, fields::f64, ExtensionOf, FieldElement, StarkField};
use winter_utils::{AsBytes, ByteReader, ByteWriter, Deserializable, Randomizable, Serializable, SliceReader};

pub struct P;

fn elem<F: Fld>(x: &F) -> String {
    format!("{} {}", x.canon(), x.raw_word())
}

/// the value must be `expect`, the raw word must satisfy the representation invariant, and the
/// element must compare equal to (and serialize like) the canonical element of the same residue
fn check_elem<F: Fld>(o: Outcome, site: &str, x: &F, expect: u128) -> Outcome {
    let mut o = o;
    if x.canon() != expect {
        o = o.fail(format!("{}.{}.value", F::NAME, site), format!("got {} expected {}", x.canon(), expect));
    }
    if !F::raw_ok(x.raw_word()) {
        o = o.fail(
            format!("{}.{}.raw-out-of-range", F::NAME, site),
            format!("raw {} violates the representation invariant", x.raw_word()),
        );
    }
    let reference = F::from_word(expect);
    if *x != reference {
        o = o.fail(
            format!("{}.{}.eq", F::NAME, site),
            format!("result (raw {}) != new({}) although both denote the residue {}", x.raw_word(), expect, x.canon()),
        );
    }
    if x.to_bytes() != reference.to_bytes() {
        o = o.fail(format!("{}.{}.bytes", F::NAME, site), "serialization differs from that of the same residue");
    }
    o
}

/// (a * b) mod m through a 256-bit product and shift-subtract reduction of the high half by the
/// identity 2^128 = 2^128 - m (mod m); independent of the implementation and of `oracle::mulmod`,
/// fast enough for the volume runs
fn mulmod_wide(a: u128, b: u128, m: u128) -> u128 {
    if m <= 1u128 << 64 {
        return ((a % m) * (b % m)) % m;
    }
    let (a0, a1) = (a & 0xFFFF_FFFF_FFFF_FFFF, a >> 64);
    let (b0, b1) = (b & 0xFFFF_FFFF_FFFF_FFFF, b >> 64);
    let (p00, p01, p10, p11) = (a0 * b0, a0 * b1, a1 * b0, a1 * b1);
    let (mid, c1) = p01.overflowing_add(p10);
    let (lo, c0) = p00.overflowing_add(mid << 64);
    let mut hi = p11 + (mid >> 64) + ((c1 as u128) << 64) + c0 as u128;
    let mut lo = lo;
    let k = 0u128.wrapping_sub(m); // 2^128 - m, below 2^64 for the 128-bit field of this library
    assert!(k < 1u128 << 64);
    // hi * 2^128 + lo = hi * k + lo (mod m); hi * k < 2^192, so two rounds leave hi = 0 or a carry
    while hi > 0 {
        let (h0, h1) = (hi & 0xFFFF_FFFF_FFFF_FFFF, hi >> 64);
        let q0 = h0 * k;
        let q1 = h1 * k; // weight 2^64
        let (s1, d1) = q0.overflowing_add(q1 << 64);
        let (s2, d2) = s1.overflowing_add(lo);
        hi = (q1 >> 64) + d1 as u128 + d2 as u128;
        lo = s2;
    }
    lo % m
}

/// `soak <op> <seed> <count>`: `count` pseudo-random operands derived from `seed`, judged by the oracle
/// only (no per-case line, not compared with the model): reaches events of probability ~1/count
fn soak<F: Fld>(op: &str, seed: u64, count: u64) -> Outcome {
    let m = F::MOD;
    let mut rng = Rng::new(seed ^ 0x9E37_79B9_7F4A_7C15);
    let mut o = Outcome::ok(format!("ok {}", count));
    for _ in 0..count {
        let a = rng.u128() % m;
        let x = F::from_word(a);
        let bad = match op {
            "inv" => {
                let y = x.inv().canon();
                let want = if a == 0 { 0 } else { 1 };
                if mulmod_wide(a, y, m) != want || (a == 0 && y != 0) || y >= m { Some(format!("inv({}) = {}", a, y)) } else { None }
            },
            "mul" => {
                let b = rng.u128() % m;
                let y = (x * F::from_word(b)).canon();
                if y != mulmod_wide(a, b, m) { Some(format!("{} * {} = {}", a, b, y)) } else { None }
            },
            "div" => {
                let b = rng.u128() % m;
                let y = (x / F::from_word(b)).canon();
                let back = mulmod_wide(y, b, m);
                if (b != 0 && back != a) || (b == 0 && y != 0) { Some(format!("{} / {} = {}", a, b, y)) } else { None }
            },
            "addsub" => {
                let b = rng.u128() % m;
                let fb = F::from_word(b);
                let (s, d) = ((x + fb).canon(), (x - fb).canon());
                if s != addmod(a, b, m) || d != submod(a, b, m) { Some(format!("{} +- {} = {} / {}", a, b, s, d)) } else { None }
            },
            _ => return Outcome::ok("bad-op"),
        };
        if let Some(d) = bad {
            o = Outcome::ok(format!("fail {}", d)).fail(format!("{}.soak.{}", F::NAME, op), d);
            break;
        }
    }
    o
}

/// integer conversions through serde (winter-math's optional `serde` feature; build variant `serde` of this check):
/// `serdede n` deserializes the JSON number n, `serdeser a` / `rserdeser raw` serialize an element
#[cfg(feature = "serde")]
fn exec_serde(f: &str, t: &[&str]) -> Option<Outcome> {
    macro_rules! go {
        ($T:ty) => {{
            type F = $T;
            let m = <F as Fld>::MOD;
            let name = <F as Fld>::NAME;
            match t {
                ["serdede", n] => {
                    let v: u128 = n.parse().ok()?;
                    let r: Result<F, _> = serde_json::from_str(n);
                    let mut o = Outcome::ok(match &r {
                        Ok(x) => format!("ok {}", x.canon()),
                        Err(_) => "err".to_string(),
                    });
                    match &r {
                        Ok(x) if v >= m || x.canon() != v || !F::raw_ok(x.raw_word()) || x.canon() >= m => {
                            o = o.fail(format!("{}.serde.de", name), format!("accepted {} as {} (raw word {})", v, x.canon(), x.raw_word()))
                        },
                        Err(_) if v < m => o = o.fail(format!("{}.serde.de", name), format!("rejected {}", v)),
                        _ => {},
                    }
                    Some(o)
                },
                ["serdeser", a] | ["rserdeser", a] => {
                    let raw = t[0] == "rserdeser";
                    let w: u128 = a.parse().ok()?;
                    let x = if raw { F::from_raw_word(w) } else { F::from_word(w) };
                    let va = if raw { raw_val::<F>(w) } else { w % m };
                    let s = serde_json::to_string(&x).unwrap_or_else(|_| "err".to_string());
                    let mut o = Outcome::ok(s.clone());
                    if s != format!("{}", va) {
                        o = o.fail(format!("{}.serde.ser", name), format!("residue {} serialized as {}", va, s));
                    }
                    match serde_json::from_str::<F>(&s) {
                        Ok(y) if y == x && y.canon() == va => {},
                        _ => o = o.fail(format!("{}.serde.roundtrip", name), format!("from_str(to_string(x)) != x for residue {}", va)),
                    }
                    Some(o)
                },
                _ => None,
            }
        }};
    }
    match f {
        "f64" => go!(f64::BaseElement),
        "f62" => go!(f62::BaseElement),
        "f128" => go!(f128::BaseElement),
        _ => None,
    }
}

#[cfg(feature = "serde")]
fn gen_serde<F: Fld>(rng: &mut Rng, emit: &mut dyn FnMut(String)) {
    let f = F::NAME;
    let m = F::MOD;
    let bnd = boundary(m, F::word_bits());
    let rawlim = if f == "f62" { 2 * m } else { m };
    let mut vals: Vec<u128> = bnd.clone();
    for d in 0..4u128 {
        vals.extend([m + d, m.wrapping_sub(1 + d), 2 * (m / 2) + d, (1u128 << 64) - 1 - d, (1u128 << 64) + d, u128::MAX - d, (1u128 << 127) + d, m.wrapping_mul(2).wrapping_add(d)]);
    }
    for _ in 0..400 {
        vals.push(rng.u128() % m);
        vals.push(rng.u128());
        vals.push(rng.u64() as u128);
    }
    for v in &vals {
        emit(format!("{} serdede {}", f, v));
        if F::word_bits() == 128 || *v < (1u128 << 64) {
            emit(format!("{} serdeser {}", f, v));
        }
        if *v < rawlim {
            emit(format!("{} rserdeser {}", f, v));
        }
    }
}

/// the small integer conversions, per concrete type (which impls exist differs per field):
/// `fromint W v`   element from an unsigned integer of W bits (W = 1: bool), `From<uW>`
/// `tryint W v`    `TryFrom<u64 | u128 | usize (W = 0)>`, `tryarr hex` `TryFrom<[u8; 8]>`
/// `into W raw`    integer of W bits from the element with internal word `raw` (`From<BaseElement> for u64/u128`,
///                 `TryFrom<BaseElement> for bool/u8/u16/u32`); combinations a field does not implement fall back to the
///                 canonical value so that the op stays comparable with the model
fn exec_conv(f: &str, t: &[&str]) -> Option<Outcome> {
    fn small<T: TryFrom<u128>>(v: u128) -> Option<T> {
        T::try_from(v).ok()
    }
    macro_rules! from_or {
        ($F:ty, $v:expr, $( $W:literal => $T:ty ),*) => {{
            let (w, v): (u32, u128) = $v;
            match w { $( $W => small::<$T>(v).map(|x| <$F>::from(x)), )* _ => None }
        }};
    }
    macro_rules! go {
        ($F:ty, from: [$( $FW:literal => $FT:ty ),*], bool_from: $BF:expr, try64: $T64:expr, tryusize: $TUS:expr, arr8: $ARR:expr,
         into: [$( $IW:literal => $IT:ty ),*], tryinto: [$( $TW:literal => $TT:ty ),*], bool_into: $BI:expr) => {{
            type F = $F;
            let m = <F as Fld>::MOD;
            let name = <F as Fld>::NAME;
            match t {
                ["fromint", w, v] => {
                    let (w, v): (u32, u128) = (w.parse().ok()?, v.parse().ok()?);
                    if w > 64 || (w < 128 && v >> w != 0) || w == 0 { return Some(Outcome::ok("bad-op")); }
                    let real: Option<F> = if w == 1 {
                        if $BF { Some(bool_elem::<F>(v == 1)) } else { None }
                    } else {
                        from_or!(F, (w, v), $( $FW => $FT ),*)
                    };
                    let x = real.unwrap_or_else(|| F::from_word(v));
                    Some(check_elem(Outcome::ok(elem(&x)), &format!("from_u{}", w), &x, v % m))
                },
                ["tryint", w, v] => {
                    let (w, v): (u32, u128) = (w.parse().ok()?, v.parse().ok()?);
                    let r: Result<F, ()> = match w {
                        128 => F::try_u128(v),
                        64 if $T64 && v <= u64::MAX as u128 => try64::<F>(v as u64),
                        0 if $TUS && v <= usize::MAX as u128 => tryusize::<F>(v as usize),
                        _ => if v < m { Ok(F::from_word(v)) } else { Err(()) },
                    };
                    let mut o = Outcome::ok(match &r { Ok(x) => format!("ok {}", x.canon()), Err(_) => "err".to_string() });
                    match &r {
                        Ok(x) if v >= m || x.canon() != v || !F::raw_ok(x.raw_word()) => o = o.fail(format!("{}.try_from_int", name), format!("accepted {} (width {}) as {}", v, w, x.canon())),
                        Err(_) if v < m => o = o.fail(format!("{}.try_from_int", name), format!("rejected {} (width {})", v, w)),
                        _ => {},
                    }
                    Some(o)
                },
                ["tryarr", h] => {
                    let bytes = unhex(h);
                    if bytes.len() != 8 { return Some(Outcome::ok("bad-op")); }
                    let v = u64::from_le_bytes(bytes.clone().try_into().unwrap()) as u128;
                    let r: Result<F, ()> = if $ARR { tryarr8::<F>(bytes.try_into().unwrap()) } else if v < m { Ok(F::from_word(v)) } else { Err(()) };
                    let mut o = Outcome::ok(match &r { Ok(x) => format!("ok {}", x.canon()), Err(_) => "err".to_string() });
                    match &r {
                        Ok(x) if v >= m || x.canon() != v => o = o.fail(format!("{}.try_from_arr", name), format!("accepted {} as {}", v, x.canon())),
                        Err(_) if v < m => o = o.fail(format!("{}.try_from_arr", name), format!("rejected {}", v)),
                        _ => {},
                    }
                    Some(o)
                },
                ["into", w, raw] => {
                    let (w, raw): (u32, u128) = (w.parse().ok()?, raw.parse().ok()?);
                    if !F::raw_ok(raw) { return Some(Outcome::ok("bad-op")); }
                    let x = F::from_raw_word(raw);
                    let va = raw_val::<F>(raw);
                    let fits = match w { 1 => va <= 1, 128 => true, _ => va >> w == 0 };
                    let expect = if fits { format!("{}", va) } else { "err".to_string() };
                    let got: Option<String> = match w {
                        $( $IW => Some(format!("{}", <$IT>::from(x))), )*
                        $( $TW => Some(match <$TT>::try_from(x) { Ok(v) => format!("{}", v), Err(_) => "err".to_string() }), )*
                        1 if $BI => Some(match bool_try::<F>(x) { Some(b) => format!("{}", b as u8), None => "err".to_string() }),
                        _ => None,
                    };
                    let out = got.clone().unwrap_or_else(|| expect.clone());
                    let mut o = Outcome::ok(out.clone());
                    if out != expect {
                        o = o.fail(format!("{}.into_u{}", name, w), format!("residue {} (raw word {}) converted to {}, expected {}", va, raw, out, expect));
                    }
                    Some(o)
                },
                _ => None,
            }
        }};
    }
    match f {
        "f64" => go!(f64::BaseElement, from: [8 => u8, 16 => u16, 32 => u32], bool_from: true, try64: true, tryusize: true, arr8: true,
                     into: [64 => u64, 128 => u128], tryinto: [8 => u8, 16 => u16, 32 => u32], bool_into: true),
        "f62" => go!(f62::BaseElement, from: [8 => u8, 16 => u16, 32 => u32], bool_from: false, try64: true, tryusize: false, arr8: true,
                     into: [64 => u64, 128 => u128], tryinto: [], bool_into: false),
        "f128" => go!(f128::BaseElement, from: [8 => u8, 16 => u16, 32 => u32, 64 => u64], bool_from: false, try64: false, tryusize: false, arr8: false,
                     into: [128 => u128], tryinto: [], bool_into: false),
        _ => None,
    }
}

/// helpers for impls that exist for some of the fields only (resolved through small traits)
trait ConvExtra: Sized {
    fn try64(_v: u64) -> Result<Self, ()> { Err(()) }
    fn tryusize(_v: usize) -> Result<Self, ()> { Err(()) }
    fn tryarr8(_b: [u8; 8]) -> Result<Self, ()> { Err(()) }
    fn from_bool(_b: bool) -> Option<Self> { None }
    fn to_bool(self) -> Option<Option<bool>> { None }
}
impl ConvExtra for f64::BaseElement {
    fn try64(v: u64) -> Result<Self, ()> { Self::try_from(v).map_err(|_| ()) }
    fn tryusize(v: usize) -> Result<Self, ()> { Self::try_from(v).map_err(|_| ()) }
    fn tryarr8(b: [u8; 8]) -> Result<Self, ()> { Self::try_from(b).map_err(|_| ()) }
    fn from_bool(b: bool) -> Option<Self> { Some(Self::from(b)) }
    fn to_bool(self) -> Option<Option<bool>> { Some(bool::try_from(self).ok()) }
}
impl ConvExtra for f62::BaseElement {
    fn try64(v: u64) -> Result<Self, ()> { Self::try_from(v).map_err(|_| ()) }
    fn tryarr8(b: [u8; 8]) -> Result<Self, ()> { Self::try_from(b).map_err(|_| ()) }
}
impl ConvExtra for f128::BaseElement {}

/// twins of the uniform view that exist per concrete type: the inherent `as_int` of the 64-bit field (a `const fn`
/// next to `StarkField::as_int`), the associated constant `MODULUS` as an integer
trait ViewExtra: Sized {
    fn inherent_as_int(&self) -> Option<u128> { None }
    fn modulus_const() -> u128;
}
impl ViewExtra for f64::BaseElement {
    fn inherent_as_int(&self) -> Option<u128> { Some(f64::BaseElement::as_int(self) as u128) }
    fn modulus_const() -> u128 { <Self as StarkField>::MODULUS as u128 }
}
impl ViewExtra for f62::BaseElement {
    fn modulus_const() -> u128 { <Self as StarkField>::MODULUS as u128 }
}
impl ViewExtra for f128::BaseElement {
    fn modulus_const() -> u128 { <Self as StarkField>::MODULUS }
}
fn try64<F: ConvExtra>(v: u64) -> Result<F, ()> { F::try64(v) }
fn tryusize<F: ConvExtra>(v: usize) -> Result<F, ()> { F::tryusize(v) }
fn tryarr8<F: ConvExtra>(b: [u8; 8]) -> Result<F, ()> { F::tryarr8(b) }
fn bool_elem<F: ConvExtra + Fld>(b: bool) -> F { F::from_bool(b).unwrap_or_else(|| F::from_word(b as u128)) }
fn bool_try<F: ConvExtra>(x: F) -> Option<bool> { x.to_bool().flatten() }

fn gen_conv<F: Fld>(rng: &mut Rng, emit: &mut dyn FnMut(String)) {
    let f = F::NAME;
    let m = F::MOD;
    let bnd = boundary(m, F::word_bits());
    let rawlim = if f == "f62" { 2 * m } else { m };
    for w in [1u32, 8, 16, 32, 64] {
        let top = if w == 64 { u64::MAX as u128 } else { (1u128 << w) - 1 };
        let mut vs = vec![0u128, 1, 2, top / 2, top - 1, top];
        if w == 64 { vs.extend([m.min(top), m.saturating_sub(1).min(top), (m + 1).min(top), (1u128 << 63), (1u128 << 32) - 1, 1u128 << 32]); }
        for _ in 0..6 { vs.push(rng.u128() & top); }
        for v in vs { if v <= top { emit(format!("{} fromint {} {}", f, w, v)); } }
    }
    let mut ints: Vec<u128> = bnd.clone();
    for d in 0..3u128 { ints.extend([m + d, m - 1 - d, (1u128 << 64) - 1 - d, (1u128 << 64) + d, u128::MAX - d, m.wrapping_mul(2).wrapping_add(d), (1u128 << 63) + d, (1u128 << 32) - 1 + d]); }
    for _ in 0..40 { ints.push(rng.u128()); ints.push(rng.u64() as u128); ints.push(rng.u128() % m); }
    for v in &ints {
        for w in [128u32, 64, 0] { emit(format!("{} tryint {} {}", f, w, v)); }
        if *v <= u64::MAX as u128 { emit(format!("{} tryarr {}", f, hex(&(*v as u64).to_le_bytes()))); }
    }
    let mut raws: Vec<u128> = bnd.iter().cloned().filter(|x| *x < rawlim).collect();
    raws.extend([0, 1, 2, 255, 256, 65535, 65536, (1u128 << 32) - 1, 1u128 << 32, m - 1, m % rawlim, (m + 1) % rawlim, (m + 255) % rawlim, (m + 256) % rawlim, rawlim - 1]);
    for _ in 0..60 { raws.push(rng.u128() % rawlim); raws.push(rng.u128() % 300); }
    for r in raws { for w in [1u32, 8, 16, 32, 64, 128] { emit(format!("{} into {} {}", f, w, r)); } }
}

fn exec_f<F: Fld + ViewExtra>(t: &[&str]) -> Outcome {
    let m = F::MOD;
    let p = |s: &str| s.parse::<u128>().unwrap();
    match t {
        ["soak", op, seed, count] => {
            return soak::<F>(op, seed.parse().unwrap_or(0), count.parse().unwrap_or(0).min(1 << 20));
        },
        ["bin", op, a, b] | ["rbin", op, a, b] => {
            let raw = t[0] == "rbin";
            let (x, y) = if raw {
                (F::from_raw_word(p(a)), F::from_raw_word(p(b)))
            } else {
                (F::from_word(p(a)), F::from_word(p(b)))
            };
            let (va, vb) = if raw { (raw_val::<F>(p(a)), raw_val::<F>(p(b))) } else { (p(a) % m, p(b) % m) };
            let (r, e) = match *op {
                "add" => (x + y, addmod(va, vb, m)),
                "sub" => (x - y, submod(va, vb, m)),
                "mul" => (x * y, mulmod(va, vb, m)),
                "div" => (x / y, mulmod(va, invmod(vb, m), m)),
                _ => return Outcome::ok("bad-op"),
            };
            check_elem(Outcome::ok(elem(&r)), op, &r, e)
        },
        ["un", op, a] | ["run", op, a] => {
            let raw = t[0] == "run";
            let x = if raw { F::from_raw_word(p(a)) } else { F::from_word(p(a)) };
            let va = if raw { raw_val::<F>(p(a)) } else { p(a) % m };
            let (r, e) = match *op {
                "neg" => (-x, submod(0, va, m)),
                "double" => (x.double(), addmod(va, va, m)),
                "square" => (x.square(), mulmod(va, va, m)),
                "cube" => (x.cube(), mulmod(mulmod(va, va, m), va, m)),
                "inv" => (x.inv(), invmod(va, m)),
                "exp7" => {
                    if F::NAME != "f64" {
                        return Outcome::ok("bad-op");
                    }
                    let y = f64::BaseElement::from_mont(x.raw_word() as u64).exp7();
                    (F::from_raw_word(y.inner() as u128), powmod(va, 7, m))
                },
                _ => return Outcome::ok("bad-op"),
            };
            check_elem(Outcome::ok(elem(&r)), op, &r, e)
        },
        ["exp", a, e] | ["rexp", a, e] => {
            let raw = t[0] == "rexp";
            let x = if raw { F::from_raw_word(p(a)) } else { F::from_word(p(a)) };
            let va = if raw { raw_val::<F>(p(a)) } else { p(a) % m };
            let r = x.exp_u(p(e));
            check_elem(Outcome::ok(elem(&r)), "exp", &r, powmod(va, p(e), m))
        },
        // FieldElement::exp_vartime: the trait's default ladder (math/src/field/traits.rs), which the base fields
        // inherit next to their own `exp`; same mathematical function, so the model line is the model's exp
        ["expv", a, e] | ["rexpv", a, e] => {
            let raw = t[0] == "rexpv";
            let x = if raw { F::from_raw_word(p(a)) } else { F::from_word(p(a)) };
            let va = if raw { raw_val::<F>(p(a)) } else { p(a) % m };
            let r = x.expv_u(p(e));
            // only the residue is compared with the model (the default ladder and the field's own `exp` may leave
            // different internal words of the same residue); the oracle still checks the representation invariant
            check_elem(Outcome::ok(format!("{}", r.canon())), "exp_vartime", &r, powmod(va, p(e), m))
        },
        // the assigning operator forms and ExtensionOf::mul_base (own impl blocks next to Add/Sub/Mul/Div; the field
        // is an extension of itself through the blanket impl of math/src/field/traits.rs): one line drives
        // `+=`, `-=`, `*=`, `/=` and `mul_base` on one operand pair; residues are compared with the model's
        // add / sub / mul / div (the internal word may legitimately differ from the value-returning twin)
        ["asg", a, b] | ["rasg", a, b] => {
            let raw = t[0] == "rasg";
            let (x, y) = if raw { (F::from_raw_word(p(a)), F::from_raw_word(p(b))) } else { (F::from_word(p(a)), F::from_word(p(b))) };
            let (va, vb) = if raw { (raw_val::<F>(p(a)), raw_val::<F>(p(b))) } else { (p(a) % m, p(b) % m) };
            let (mut s, mut d, mut pr, mut q) = (x, x, x, x);
            s += y;
            d -= y;
            pr *= y;
            q /= y;
            let mb = <F as ExtensionOf<F>>::mul_base(x, y);
            let mut o = Outcome::ok(format!("{} {} {} {} {}", s.canon(), d.canon(), pr.canon(), q.canon(), mb.canon()));
            o = check_elem(o, "add_assign", &s, addmod(va, vb, m));
            o = check_elem(o, "sub_assign", &d, submod(va, vb, m));
            o = check_elem(o, "mul_assign", &pr, mulmod(va, vb, m));
            o = check_elem(o, "div_assign", &q, mulmod(va, invmod(vb, m), m));
            check_elem(o, "mul_base", &mb, mulmod(va, vb, m))
        },
        // every public view of one element that must show the residue and nothing else: conjugate (identity on a
        // prime field), base_element(0), the inherent `as_int` (64-bit field) next to StarkField::as_int, Display,
        // Debug, slice_as_base_elements / slice_from_base_elements of the one-element slice
        ["view", a] | ["rview", a] => {
            let raw = t[0] == "rview";
            let x = if raw { F::from_raw_word(p(a)) } else { F::from_word(p(a)) };
            let va = if raw { raw_val::<F>(p(a)) } else { p(a) % m };
            let c = x.conjugate();
            let b0 = x.base_element(0);
            let ai = x.inherent_as_int().unwrap_or_else(|| x.canon());
            let (disp, dbg) = (format!("{}", x), format!("{:?}", x));
            let xs = [x];
            let sb = F::slice_as_base_elements(&xs)[0];
            let sf = F::slice_from_base_elements(&xs)[0];
            let mut o = Outcome::ok(format!("{} {} {} {} {} {} {}", c.canon(), b0.canon(), ai, disp, dbg, sb.canon(), sf.canon()));
            o = check_elem(o, "conjugate", &c, va);
            o = check_elem(o, "base_element", &b0, va);
            o = check_elem(o, "slice_as_base_elements", &sb, va);
            o = check_elem(o, "slice_from_base_elements", &sf, va);
            if ai != va {
                o = o.fail(format!("{}.as_int.value", F::NAME), format!("inherent as_int gives {} for the residue {}", ai, va));
            }
            if disp != format!("{}", va) || dbg != disp {
                o = o.fail(format!("{}.display.value", F::NAME), format!("residue {} printed as {} / {}", va, disp, dbg));
            }
            o
        },
        // base_element(i): i = 0 only (documented panic otherwise)
        ["basee", i, a] => {
            let x = F::from_raw_word(p(a));
            let r = x.base_element(p(i) as usize);
            check_elem(Outcome::ok(format!("{}", r.canon())), "base_element", &r, raw_val::<F>(p(a)))
        },
        // slices of elements: elements_as_bytes (reinterpretation: the internal words), bytes_as_elements back,
        // slice_as_base_elements / slice_from_base_elements (identity), ByteWriter::write_many / the slice and Vec
        // impls of Serializable (canonical bytes, element by element) and read_many / Vec::read_from back
        ["elems", raws @ ..] => {
            let ws: Vec<u128> = raws.iter().map(|r| p(r)).collect();
            if ws.iter().any(|w| !F::raw_ok(*w)) {
                return Outcome::ok("bad-op");
            }
            let xs: Vec<F> = ws.iter().map(|w| F::from_raw_word(*w)).collect();
            let vals: Vec<u128> = ws.iter().map(|w| raw_val::<F>(*w)).collect();
            let nb = F::ELEMENT_BYTES;
            let eb = F::elements_as_bytes(&xs).to_vec();
            let mut wm: Vec<u8> = vec![];
            wm.write_many(&xs);
            let mut o = Outcome::ok(format!("{} {}", hex(&eb), hex(&wm)));
            let exp_eb: Vec<u8> = ws.iter().flat_map(|w| (0..nb).map(move |i| (w >> (8 * i)) as u8)).collect();
            let exp_wm: Vec<u8> = vals.iter().flat_map(|v| (0..nb).map(move |i| (v >> (8 * i)) as u8)).collect();
            if eb != exp_eb {
                o = o.fail(format!("{}.elements_as_bytes", F::NAME), "not the internal words in little-endian order");
            }
            if wm != exp_wm {
                o = o.fail(format!("{}.write_many", F::NAME), "not the canonical encodings one after the other");
            }
            // reinterpretation back (the bytes of a slice of elements are aligned for the element type)
            match unsafe { F::bytes_as_elements(F::elements_as_bytes(&xs)) } {
                Ok(ys) if ys.len() == xs.len() && ys.iter().zip(xs.iter()).all(|(y, x)| y.raw_word() == x.raw_word()) => {},
                _ => o = o.fail(format!("{}.bytes_as_elements", F::NAME), "bytes_as_elements(elements_as_bytes(xs)) != xs"),
            }
            if !eb.is_empty() && unsafe { F::bytes_as_elements(&F::elements_as_bytes(&xs)[..eb.len() - 1]) }.is_ok() {
                o = o.fail(format!("{}.bytes_as_elements", F::NAME), "accepted a byte count that is not a multiple of the element size");
            }
            let sb = F::slice_as_base_elements(&xs);
            let sf = F::slice_from_base_elements(&xs);
            if sb.len() != xs.len() || sf.len() != xs.len() || (0..xs.len()).any(|i| sb[i].raw_word() != ws[i] || sf[i].raw_word() != ws[i]) {
                o = o.fail(format!("{}.slice_as_base_elements", F::NAME), "not the identity on a prime field");
            }
            // the length-prefixed forms and the readers
            let v_bytes = xs.to_bytes();
            let s_bytes = xs.as_slice().to_bytes();
            let mut pre: Vec<u8> = vec![];
            pre.write_usize(xs.len());
            let mut exp_v = pre.clone();
            exp_v.extend_from_slice(&exp_wm);
            if v_bytes != exp_v || s_bytes != exp_v {
                o = o.fail(format!("{}.vec.to_bytes", F::NAME), "Vec / slice encoding is not the length followed by the canonical encodings");
            }
            let back: Result<Vec<F>, _> = SliceReader::new(&wm).read_many(xs.len());
            let back2: Result<Vec<F>, _> = Vec::<F>::read_from_bytes(&v_bytes);
            for b in [back, back2] {
                match b {
                    Ok(ys) if ys.len() == xs.len() && ys.iter().zip(vals.iter()).all(|(y, v)| y.canon() == *v && F::raw_ok(y.raw_word())) => {},
                    _ => o = o.fail(format!("{}.read_many", F::NAME), "reading the written elements back gives other values"),
                }
            }
            o
        },
        // StarkField::from_bytes_with_padding: fewer than ELEMENT_BYTES bytes, zero-padded (documented panics otherwise)
        ["padded", h] => {
            let bytes = unhex(h);
            let x = F::from_bytes_with_padding(&bytes);
            let mut v: u128 = 0;
            for (i, b) in bytes.iter().enumerate().take(16) {
                v |= (*b as u128) << (8 * i);
            }
            let mut o = check_elem(Outcome::ok(format!("ok {}", x.canon())), "from_bytes_with_padding", &x, v % m);
            if bytes.len() >= F::ELEMENT_BYTES || v >= m {
                o = o.fail(format!("{}.from_bytes_with_padding.accepted", F::NAME), format!("accepted {} bytes with value {}", bytes.len(), v));
            }
            o
        },
        // associated constants that other code computes with
        ["const2"] => {
            let d = F::default();
            let bits = 128 - m.leading_zeros();
            let mut o = Outcome::ok(format!("{} {} {} {} {} {}", F::modulus_const(), F::MODULUS_BITS, F::EXTENSION_DEGREE, d.canon(), F::ELEMENT_BYTES, <F as Randomizable>::VALUE_SIZE));
            if F::modulus_const() != m || F::MODULUS_BITS != bits || F::EXTENSION_DEGREE != 1 || <F as Randomizable>::VALUE_SIZE != F::ELEMENT_BYTES {
                o = o.fail(format!("{}.const.modulus", F::NAME), "MODULUS / MODULUS_BITS / EXTENSION_DEGREE / VALUE_SIZE");
            }
            o = check_elem(o, "default", &d, 0);
            // IS_CANONICAL promises that the internal word is the canonical integer
            if F::IS_CANONICAL {
                for w in boundary(m, F::word_bits()).into_iter().filter(|w| F::raw_ok(*w)) {
                    let x = F::from_raw_word(w);
                    if x.as_bytes() != x.to_bytes().as_slice() {
                        o = o.fail(format!("{}.const.is_canonical", F::NAME), format!("IS_CANONICAL but as_bytes != to_bytes for {}", w));
                    }
                }
            }
            o
        },
        ["mulsmall", a, k] => {
            if F::NAME != "f64" {
                return Outcome::ok("bad-op");
            }
            let y = f64::BaseElement::from_mont(p(a) as u64).mul_small(p(k) as u32);
            let r = F::from_raw_word(y.inner() as u128);
            check_elem(Outcome::ok(elem(&r)), "mul_small", &r, mulmod(raw_val::<F>(p(a)), p(k), m))
        },
        ["eq", a, b] => {
            let (x, y) = (F::from_raw_word(p(a)), F::from_raw_word(p(b)));
            let r = x == y;
            let mut o = Outcome::ok(if r { "1" } else { "0" });
            if r != (raw_val::<F>(p(a)) == raw_val::<F>(p(b))) {
                o = o.fail(
                    format!("{}.eq", F::NAME),
                    format!("== is {} but residues {} / {}", r, raw_val::<F>(p(a)), raw_val::<F>(p(b))),
                );
            }
            if (x.to_bytes() == y.to_bytes()) != (raw_val::<F>(p(a)) == raw_val::<F>(p(b))) {
                o = o.fail(format!("{}.eq.bytes", F::NAME), "serialized bytes disagree with residue equality");
            }
            o
        },
        ["tryfrom", n] => {
            let v = p(n);
            let r = F::try_u128(v);
            let out = match &r {
                Ok(x) => format!("ok {}", x.canon()),
                Err(_) => "err".into(),
            };
            let mut o = Outcome::ok(out);
            match r {
                Ok(x) if v >= m || x.canon() != v => {
                    o = o.fail(format!("{}.try_from", F::NAME), format!("accepted {}", v))
                },
                Err(_) if v < m => o = o.fail(format!("{}.try_from", F::NAME), format!("rejected {}", v)),
                _ => {},
            }
            o
        },
        ["frombytes", h] => {
            let bytes = unhex(h);
            let r = <F as TryFrom<&[u8]>>::try_from(bytes.as_slice());
            let r2 = <F as winter_utils::Randomizable>::from_random_bytes(&bytes);
            let out = match &r {
                Ok(x) => format!("ok {}", x.canon()),
                Err(_) => "err".into(),
            };
            let mut o = Outcome::ok(out);
            let mut v: u128 = 0;
            for (i, b) in bytes.iter().enumerate().take(16) {
                v |= (*b as u128) << (8 * i);
            }
            let should = bytes.len() == F::ELEMENT_BYTES && v < m;
            if r.is_ok() != should || r2.is_some() != should {
                o = o.fail(format!("{}.try_from_bytes", F::NAME), format!("accept={} expected={}", r.is_ok(), should));
            }
            if let Ok(x) = r {
                if x.canon() != v {
                    o = o.fail(format!("{}.try_from_bytes", F::NAME), "wrong value");
                }
            }
            o
        },
        ["read", h] => {
            let bytes = unhex(h);
            let mut rd = SliceReader::new(&bytes);
            let r = F::read_from(&mut rd);
            match r {
                Ok(x) => {
                    let rest = bytes.len() - F::ELEMENT_BYTES;
                    let mut o = Outcome::ok(format!("ok {} {}", x.canon(), rest));
                    if !F::raw_ok(x.raw_word()) {
                        o = o.fail(format!("{}.read.raw-out-of-range", F::NAME), "");
                    }
                    o
                },
                Err(winter_utils::DeserializationError::UnexpectedEOF) => Outcome::ok("eof"),
                Err(_) => Outcome::ok(format!("err {}", bytes.len() - F::ELEMENT_BYTES)),
            }
        },
        ["ser", a] => {
            let x = F::from_raw_word(p(a));
            let bytes = x.to_bytes();
            let mut o = Outcome::ok(format!("{} {}", hex(&bytes), hex(x.as_bytes())));
            let v = raw_val::<F>(p(a));
            let exp: Vec<u8> = (0..F::ELEMENT_BYTES).map(|i| (v >> (8 * i)) as u8).collect();
            if bytes != exp {
                o = o.fail(format!("{}.to_bytes", F::NAME), "not the canonical little-endian encoding");
            }
            match F::read_from_bytes(&bytes) {
                Ok(y) if y == x && y.canon() == v => {},
                _ => o = o.fail(format!("{}.roundtrip", F::NAME), "read_from_bytes(to_bytes(x)) != x"),
            }
            o
        },
        ["root", n] => {
            let n = p(n) as u32;
            let r = F::get_root_of_unity(n);
            let mut o = Outcome::ok(elem(&r));
            let v = r.canon();
            let one = powmod(v, 1u128 << n, m);
            let half = powmod(v, 1u128 << (n - 1), m);
            if one != 1 || half == 1 {
                o = o.fail(
                    format!("{}.root_of_unity", F::NAME),
                    format!("order of get_root_of_unity({}) is not 2^{}", n, n),
                );
            }
            o
        },
        ["const"] => {
            let g = F::GENERATOR.canon();
            let root = F::TWO_ADIC_ROOT_OF_UNITY.canon();
            let k = F::TWO_ADICITY;
            let mut o = Outcome::ok(format!(
                "{} {} {} {} {} {} {}",
                m,
                g,
                k,
                root,
                F::ELEMENT_BYTES,
                F::ZERO.canon(),
                F::ONE.canon()
            ));
            let mut mb = F::get_modulus_le_bytes();
            mb.resize(16, 0);
            if u128::from_le_bytes(mb.try_into().unwrap()) != m {
                o = o.fail(format!("{}.const.modulus", F::NAME), "get_modulus_le_bytes");
            }
            if (m - 1) % (1u128 << k) != 0 || ((m - 1) >> k) % 2 != 1 {
                o = o.fail(format!("{}.const.two_adicity", F::NAME), "2^k does not exactly divide p-1");
            }
            if powmod(root, 1u128 << k, m) != 1 || powmod(root, 1u128 << (k - 1), m) == 1 {
                o = o.fail(format!("{}.const.root", F::NAME), "root of unity does not have order 2^k");
            }
            o
        },
        ["seq", a, b, ops @ ..] => {
            let (mut acc, mut y) = (F::from_word(p(a)), F::from_word(p(b)));
            let (mut va, mut vy) = (p(a) % m, p(b) % m);
            for op in ops {
                match *op {
                    "add" => {
                        acc = acc + y;
                        va = addmod(va, vy, m);
                    },
                    "sub" => {
                        acc = acc - y;
                        va = submod(va, vy, m);
                    },
                    "mul" => {
                        acc = acc * y;
                        va = mulmod(va, vy, m);
                    },
                    "neg" => {
                        acc = -acc;
                        va = submod(0, va, m);
                    },
                    "dbl" => {
                        acc = acc.double();
                        va = addmod(va, va, m);
                    },
                    "sq" => {
                        acc = acc.square();
                        va = mulmod(va, va, m);
                    },
                    "swap" => {
                        core::mem::swap(&mut acc, &mut y);
                        core::mem::swap(&mut va, &mut vy);
                    },
                    "ms3" | "ms" => {
                        if F::NAME == "f64" {
                            let k: u32 = if *op == "ms3" { 3 } else { 4294967295 };
                            let z = f64::BaseElement::from_mont(acc.raw_word() as u64).mul_small(k);
                            acc = F::from_raw_word(z.inner() as u128);
                            va = mulmod(va, k as u128, m);
                        }
                    },
                    "inv" => {
                        acc = acc.inv();
                        va = invmod(va, m);
                    },
                    "div" => {
                        acc = acc / y;
                        va = mulmod(va, invmod(vy, m), m);
                    },
                    _ => {},
                }
            }
            let e = acc == y;
            let mut o = Outcome::ok(format!("{} {} {}", elem(&acc), elem(&y), if e { 1 } else { 0 }));
            o = check_elem(o, "seq", &acc, va);
            o = check_elem(o, "seq", &y, vy);
            if e != (va == vy) {
                o = o.fail(format!("{}.seq.eq", F::NAME), format!("== is {} but residues are {} and {}", e, va, vy));
            }
            o
        },
        _ => Outcome::ok("bad-op"),
    }
}

fn gen_f<F: Fld>(rng: &mut Rng, n: usize, emit: &mut dyn FnMut(String)) {
    let f = F::NAME;
    let bits = F::word_bits();
    let m = F::MOD;
    let bnd = boundary(m, bits);
    let rawlim = if f == "f62" { 2 * m } else { m };
    let braw: Vec<u128> = bnd.iter().cloned().filter(|x| *x < rawlim).collect();
    let rnd = |rng: &mut Rng| -> u128 {
        let v = rng.u128();
        if bits == 64 {
            v & 0xFFFFFFFFFFFFFFFF
        } else {
            v
        }
    };
    let rnd_raw = |rng: &mut Rng| -> u128 { rng.u128() % rawlim };
    emit(format!("{} const", f));
    for k in 0..=F::TWO_ADICITY + 2 {
        emit(format!("{} root {}", f, k));
    }
    // limb-structured operands: every combination of boundary half-words (64-bit fields: 32-bit
    // halves, 128-bit field: 64-bit halves) for both operands of the multiplication, so that each
    // carry / borrow / conditional-subtraction pattern of the reductions is reached by construction
    {
        let half = bits / 2;
        let hb: Vec<u128> = {
            let top = (1u128 << half) - 1;
            vec![0, 1, 2, (1u128 << (half - 1)) - 1, 1u128 << (half - 1), (1u128 << (half - 1)) + 1, top - 1, top]
        };
        let mut limbed: Vec<u128> = vec![];
        for h in &hb {
            for l in &hb {
                let v = (h << half) | l;
                if v < rawlim {
                    limbed.push(v);
                }
            }
        }
        // operands just below the modulus and with an all-ones low half (double-carry patterns)
        for d in [1u128, 2, 3, 1 << 20, 1 << 40, (1 << 40) + 1, 45 << 40] {
            if d < m {
                limbed.push(m - d);
            }
        }
        limbed.sort();
        limbed.dedup();
        for a in &limbed {
            for b in &limbed {
                emit(format!("{} rbin mul {} {}", f, a, b));
            }
        }
        for _ in 0..400 {
            // a close to p, b with random high half and low half close to all-ones
            let a = m - 1 - (rng.u128() % (1u128 << (bits - 28)));
            let lo_mask = (1u128 << half) - 1;
            let b = ((rng.u128() & lo_mask) << half | (lo_mask - (rng.u64() as u128 % 1024))) % rawlim;
            emit(format!("{} rbin mul {} {}", f, a % rawlim, b));
        }
    }
    // every operation sequence of length <= 2 (and a sample of length 3) on boundary pairs: the
    // representation invariant and ==/bytes consistency in every reachable state near zero and p
    {
        let ops = ["add", "sub", "mul", "neg", "dbl", "sq", "swap", "ms3", "ms", "inv", "div"];
        let pairs: [(u128, u128); 6] = [(0, 0), (1, m - 1), (m - 1, m - 1), (2, (m + 1) / 2), (m - 1, 1), (0, 1)];
        for (a, b) in pairs.iter() {
            for o1 in ops.iter() {
                emit(format!("{} seq {} {} {}", f, a, b, o1));
                for o2 in ops.iter() {
                    emit(format!("{} seq {} {} {} {}", f, a, b, o1, o2));
                    if rng.chance(1, 4) {
                        let o3 = *rng.pick(&ops);
                        emit(format!("{} seq {} {} {} {} {}", f, a, b, o1, o2, o3));
                    }
                }
            }
        }
    }
    for op in ["add", "sub", "mul"] {
        for a in &bnd {
            for b in &bnd {
                emit(format!("{} bin {} {} {}", f, op, a, b));
            }
        }
        for a in &braw {
            for b in &braw {
                emit(format!("{} rbin {} {} {}", f, op, a, b));
            }
        }
    }
    for a in &braw {
        for op in ["neg", "double", "square", "cube", "inv"] {
            emit(format!("{} run {} {}", f, op, a));
        }
        emit(format!("{} ser {}", f, a));
        if f == "f64" {
            emit(format!("{} run exp7 {}", f, a));
            for k in [0u64, 1, 2, 3, 0xFFFF, 0xFFFFFFFF, 0xFFFFFFFE, 0x80000000] {
                emit(format!("{} mulsmall {} {}", f, a, k));
            }
        }
        for b in &braw {
            emit(format!("{} eq {} {}", f, a, b));
        }
        for e in [0u128, 1, 2, 3, m - 1, m - 2, m, (1 << 63) + 1] {
            let e = if bits == 64 { e & 0xFFFFFFFFFFFFFFFF } else { e };
            emit(format!("{} rexp {} {}", f, a, e));
            emit(format!("{} rexpv {} {}", f, a, e));
        }
    }
    // exponent boundaries: every power of two and its neighbours (loop bounds, fast paths and
    // early exits of the exponentiation ladders), plus the word boundaries
    let mut exps: Vec<u128> = bnd.clone();
    for k in 0..bits {
        let b = 1u128 << k;
        exps.push(b);
        exps.push(b.wrapping_sub(1));
        exps.push(b + 1);
    }
    exps.push(if bits == 128 { u128::MAX } else { (1u128 << bits) - 1 });
    // multiples of the group order p - 1 and of p that fit the exponent type, with their neighbours (an
    // exponent "reduced" modulo p - 1 turns k(p-1) into 0: wrong for the base zero), and the order's half
    let top: u128 = if bits == 128 { u128::MAX } else { (1u128 << bits) - 1 };
    for k in 1u128..=5 {
        for base in [m - 1, m, (m - 1) / 2] {
            if let Some(x) = base.checked_mul(k) {
                for d in [-1i128, 0, 1] {
                    let y = if d < 0 { x.checked_sub(1) } else { x.checked_add(d as u128) };
                    if let Some(y) = y {
                        if y <= top {
                            exps.push(y);
                        }
                    }
                }
            }
        }
    }
    exps.sort();
    exps.dedup();
    let exp_bases: Vec<u128> = {
        // every representation of zero and one the raw-word boundary set knows, next to the small and random bases
        let mut v = vec![F::from_word(2).raw_word(), F::from_word(3).raw_word(), F::from_word(7).raw_word(), F::from_word(m - 1).raw_word()];
        for r in braw.iter() {
            if F::raw_ok(*r) && (raw_val::<F>(*r) == 0 || raw_val::<F>(*r) == 1) && !v.contains(r) {
                v.push(*r);
            }
        }
        for _ in 0..3 {
            v.push(rnd_raw(rng));
        }
        v
    };
    for a in &exp_bases {
        for e in &exps {
            let e = if bits == 64 { e & 0xFFFFFFFFFFFFFFFF } else { *e };
            emit(format!("{} rexp {} {}", f, a, e));
            emit(format!("{} rexpv {} {}", f, a, e));
        }
    }
    for a in &bnd {
        emit(format!("{} tryfrom {}", f, a));
        let nb = F::ELEMENT_BYTES;
        let bytes: Vec<u8> = (0..nb).map(|i| (a >> (8 * i)) as u8).collect();
        emit(format!("{} frombytes {}", f, hex(&bytes)));
        emit(format!("{} read {}", f, hex(&bytes)));
        let mut longer = bytes.clone();
        longer.push(1);
        emit(format!("{} frombytes {}", f, hex(&longer)));
        emit(format!("{} read {}", f, hex(&longer)));
        emit(format!("{} frombytes {}", f, hex(&bytes[..nb - 1])));
        emit(format!("{} read {}", f, hex(&bytes[..nb - 1])));
    }
    emit(format!("{} frombytes -", f));
    // twin entry points (DESIGN 9.5 lesson 14) on the grids of their twins: the assigning operators and mul_base on
    // the boundary products of raw words, the residue views on every boundary word, slices, padded bytes
    emit(format!("{} const2", f));
    for a in &braw {
        for b in &braw {
            emit(format!("{} rasg {} {}", f, a, b));
        }
        emit(format!("{} rview {}", f, a));
        emit(format!("{} elems {}", f, a));
    }
    for a in &bnd {
        emit(format!("{} view {}", f, a));
        for b in [0u128, 1, m - 1, m, (m + 1) / 2] {
            emit(format!("{} asg {} {}", f, a, b));
            emit(format!("{} asg {} {}", f, b, a));
        }
        let nb = F::ELEMENT_BYTES;
        let bytes: Vec<u8> = (0..nb).map(|i| (a >> (8 * i)) as u8).collect();
        for k in 0..=nb {
            emit(format!("{} padded {}", f, hex(&bytes[..k])));
        }
        let mut longer = bytes.clone();
        longer.push(0);
        emit(format!("{} padded {}", f, hex(&longer)));
    }
    for i in [0u32, 1, 2, 3] {
        for a in [0u128, 1, m - 1] {
            emit(format!("{} basee {} {}", f, i, a));
        }
    }
    emit(format!("{} elems", f));
    for len in 1..=9usize {
        for pat in 0..4 {
            let ws: Vec<String> = (0..len)
                .map(|i| match pat {
                    0 => braw[(i * 7 + len) % braw.len()],
                    1 => if i % 2 == 0 { 0 } else { rawlim - 1 },
                    2 => m - 1,
                    _ => rnd_raw(rng),
                })
                .map(|w| w.to_string())
                .collect();
            emit(format!("{} elems {}", f, ws.join(" ")));
        }
    }
    for _ in 0..(n / 8) {
        let pickv = |rng: &mut Rng| if rng.chance(1, 4) { *rng.pick(&bnd) } else { rnd(rng) };
        let pickr = |rng: &mut Rng| if rng.chance(1, 4) { *rng.pick(&braw) } else { rnd_raw(rng) };
        match rng.below(6) {
            0 | 1 => emit(format!("{} rasg {} {}", f, pickr(rng), pickr(rng))),
            2 => emit(format!("{} asg {} {}", f, pickv(rng), pickv(rng))),
            3 => emit(format!("{} rview {}", f, pickr(rng))),
            4 => emit(format!("{} view {}", f, pickv(rng))),
            _ => {
                let len = rng.range(1, 40);
                let ws: Vec<String> = (0..len).map(|_| pickr(rng).to_string()).collect();
                emit(format!("{} elems {}", f, ws.join(" ")))
            },
        }
    }
    for i in 0..n {
        let op = *rng.pick(&["add", "sub", "mul", "mul", "mul", "div"]);
        let pickv = |rng: &mut Rng| if rng.chance(1, 4) { *rng.pick(&bnd) } else { rnd(rng) };
        let pickr = |rng: &mut Rng| if rng.chance(1, 4) { *rng.pick(&braw) } else { rnd_raw(rng) };
        match i % 8 {
            0 | 1 => emit(format!("{} bin {} {} {}", f, op, pickv(rng), pickv(rng))),
            2 | 3 => emit(format!("{} rbin {} {} {}", f, op, pickr(rng), pickr(rng))),
            4 => {
                let o = *rng.pick(&["neg", "double", "square", "cube", "inv", "inv"]);
                emit(format!("{} run {} {}", f, o, pickr(rng)))
            },
            5 => {
                let e = if rng.chance(1, 3) { rng.below(64) as u128 } else { rnd(rng) };
                let base = pickr(rng);
                emit(format!("{} rexpv {} {}", f, base, e));
                emit(format!("{} rexp {} {}", f, base, e))
            },
            6 => {
                if f == "f64" {
                    emit(format!("{} mulsmall {} {}", f, pickr(rng), rng.u64() as u32))
                } else {
                    emit(format!("{} ser {}", f, pickr(rng)))
                }
            },
            _ => {
                let len = rng.range(1, 12);
                let ops: Vec<&str> = (0..len)
                    .map(|_| {
                        *rng.pick(&[
                            "add", "sub", "mul", "neg", "dbl", "sq", "swap", "ms3", "ms", "inv", "div", "add", "sub", "mul",
                        ])
                    })
                    .collect();
                emit(format!("{} seq {} {} {}", f, pickv(rng), pickv(rng), ops.join(" ")))
            },
        }
    }
}

impl Prop for P {
    fn id(&self) -> &'static str {
        "C07"
    }
    fn gen(&self, rng: &mut Rng, tier: Tier, n: usize, emit: &mut dyn FnMut(String)) {
        let n = default_n(tier, 12_000, 400_000, n);
        gen_f::<f64::BaseElement>(rng, n, emit);
        gen_f::<f62::BaseElement>(rng, n, emit);
        gen_f::<f128::BaseElement>(rng, n / 2, emit);
        #[cfg(feature = "serde")]
        {
            gen_serde::<f64::BaseElement>(rng, emit);
            gen_serde::<f62::BaseElement>(rng, emit);
            gen_serde::<f128::BaseElement>(rng, emit);
        }
        gen_conv::<f64::BaseElement>(rng, emit);
        gen_conv::<f62::BaseElement>(rng, emit);
        gen_conv::<f128::BaseElement>(rng, emit);
        // volume runs judged by the oracle only: quick 2^22 inversions per loop-based field, thorough 2^30 for
        // the 128-bit field (events of probability ~1e-9, e.g. the rarest trip counts of the final reduction loop)
        let chunk: u64 = 1 << 16;
        let plan: &[(&str, &str, u64, u64)] = &[
            ("f128", "inv", 1 << 22, 1 << 30), ("f62", "inv", 1 << 22, 1 << 28), ("f64", "inv", 1 << 20, 1 << 26),
            ("f128", "mul", 1 << 22, 1 << 28), ("f62", "mul", 1 << 20, 1 << 26), ("f64", "mul", 1 << 20, 1 << 26),
            ("f128", "div", 1 << 20, 1 << 26), ("f128", "addsub", 1 << 20, 1 << 24), ("f62", "addsub", 1 << 20, 1 << 24),
            ("f64", "addsub", 1 << 20, 1 << 24)];
        for (f, op, q, t) in plan {
            let total = if tier == Tier::Quick { *q } else { *t };
            for _ in 0..(total / chunk) {
                emit(format!("{} soak {} {} {}", f, op, rng.u64(), chunk));
            }
        }
    }
    fn exec(&self, line: &str) -> Outcome {
        let t: Vec<&str> = line.split(' ').collect();
        #[cfg(feature = "serde")]
        if t.len() > 1 {
            if let Some(o) = exec_serde(t[0], &t[1..]) {
                return o;
            }
        }
        if t.len() > 1 {
            if let Some(o) = exec_conv(t[0], &t[1..]) {
                return o;
            }
        }
        match t[0] {
            "f64" => exec_f::<f64::BaseElement>(&t[1..]),
            "f62" => exec_f::<f62::BaseElement>(&t[1..]),
            "f128" => exec_f::<f128::BaseElement>(&t[1..]),
            _ => Outcome::ok("bad-op"),
        }
    }
    fn timeout_ms(&self) -> u64 {
        3000
    }
    fn panic_site(&self, line: &str) -> Option<String> {
        // no public field operation may panic on elements satisfying the representation invariant
        let t: Vec<&str> = line.split(' ').collect();
        if t.len() == 3 && t[1] == "root" {
            // get_root_of_unity asserts 1 <= n <= TWO_ADICITY (documented); the model mirrors it
            let n: u32 = t[2].parse().unwrap_or(1);
            let two_adicity = match t[0] {
                "f64" => 32,
                "f62" => 39,
                _ => 40,
            };
            if n == 0 || n > two_adicity {
                return None;
            }
        }
        if t.len() == 4 && t[1] == "basee" && t[2] != "0" {
            // base_element(i) of a prime field panics for i != 0 (documented); the model mirrors it
            return None;
        }
        if t.len() == 3 && t[1] == "padded" {
            // from_bytes_with_padding panics on ELEMENT_BYTES or more bytes (documented); fewer bytes always pad to a
            // value below the modulus in the three fields, so any other panic is a failure
            let nb = if t[0] == "f128" { 16 } else { 8 };
            if t[2] != "-" && t[2].len() / 2 >= nb {
                return None;
            }
        }
        Some(format!("{}.{}.panic", t.first().unwrap_or(&""), t.get(1).unwrap_or(&"")))
    }
    fn rule(&self) -> &'static str {
        "boundary products (0,1,p-1,p-2,(p±1)/2,2^k±d, 2^64-2^32±d, p, p+1, 2p-1 as raw words of the 62-bit field, …) of residues and of raw internal \
         words for every binary op, every unary op/conversion on every boundary word, exponents 2^k and 2^k±1 for every k plus the word boundaries on several bases, multiplication operands built from every combination of boundary half-words and operands just below p with all-ones low halves, every operation sequence of length <= 2 on boundary pairs, get_root_of_unity for every n incl. the refused ones, plus seeded random operands and random operation \
         sequences (length ≤ 12); a case is non-trivial when it is distinct (hash of the op line); outputs are the canonical integer and the raw word"
    }
}

fn main() {
    wf_harness::core::main_for(&P);
}
