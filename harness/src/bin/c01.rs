//! C01: completeness — every valid execution yields a proof the verifier accepts, also after the
//! proof went through `to_bytes` / `from_bytes`.
//!
//! Op lines:
//!   run <field> <hasher> <q.b.g.x.f.r> <trace seed> <AirDesc line> [m=<hex>]
//!       (optional `m=`: the trace carries this custom metadata, `TraceInfo::with_meta` / `new_multi_segment`)
//!       generate a valid trace (wf_harness::genair::gen_trace), judge it with the reference
//!       predicate, prove, verify, serialise, parse, verify again.
//!       output: `<verdict before> <verdict after> [uq=.. layers=.. lde=..]`, verdicts being
//!       ok | prove-err:<kind> | prove-panic | verify-err:<kind> | verify-panic | parse-err |
//!       parse-panic | rejected (the option/shape constructors refuse the configuration) | excluded
//!       (the documented 1000-attempt rejection-sampling limit) | bad-op
//!       The Lean driver answers `-` (the end-to-end run is exploration, not modelled).
//!   glue <n> <q> <b> <g> <x> <f> <r> <e> <main width> <aux width> <aux rands> <main degs> <aux degs>
//!       (degs: comma separated `base[.cycle]*`, `-` when empty) the protocol glue as the real code
//!       computes it: `ce ced lde cols tpd layers remdom remcoef wf qok`, or `panic` when a
//!       constructor refuses the tuple; compared with the Lean model Winter/Model/Protocol.lean.
//!
//!   refp <field> <hasher> <q.b.g.x.f.r> <trace seed> <AirDesc line> <trace>
//!       (trace: columns separated by `/`, canonical cell values separated by `,`) the REAL prover
//!       (non-concurrent build) on exactly this main segment: the bytes of `proof.to_bytes()` in hex followed by
//!       ` v=ok|rejected` (the real verifier on that proof; the model: `refVerify` on `refProve`'s bytes), or
//!       `panic` / `err:<kind>`. The Lean driver runs the executable reference prover `refProve`
//!       (Winter/Model/RefProver.lean) on the same description, trace and options and must print the SAME
//!       bytes (modelled: f64 with Rp64_256 / RpJive64_256, f62 with Rp62_248, with or without auxiliary segment,
//!       no Lagrange kernel column).
//!       Oracle: for an admissible configuration and a trace the reference predicate accepts, proving
//!       succeeds and the real `verify` accepts the proof (before and after the byte round trip).
//!
//! Oracle (independent of the library): for an admissible op (description valid, options accepted
//! by the documented constructor rules, blowup >= the blowup the declared degrees need, FRI schedule
//! well-formed, queries < LDE size, hasher/field/extension combination supported) the outcome must
//! be `ok ok`.
#![allow(dead_code, unused_variables, unused_imports, unused_mut)]
use std::sync::Arc;

use wf_harness::core::*;
use wf_harness::genair::*;
use winter_air::{proof::Proof, AirContext, FieldExtension, ProofOptions, TraceInfo, TransitionConstraintDegree};
use winter_crypto::{hashers::Blake3_256, DefaultRandomCoin, MerkleTree};
use winter_fri::{DefaultProverChannel, FriOptions, FriProver};
use winter_math::{fields::f64::BaseElement as B64, FieldElement, StarkField};
use winter_verifier::AcceptableOptions;

pub struct P;

// ------------------------------------------------------------------------------------ oracle side
/// FRI schedule computed by the harness (independent arithmetic): (layers, final domain size)
fn fri_schedule(lde: usize, blowup: usize, folding: usize, remainder: usize) -> (usize, usize) {
    let max_rem = (remainder + 1) * blowup;
    let mut d = lde;
    let mut k = 0;
    while d > max_rem {
        d /= folding;
        k += 1;
    }
    (k, d)
}

/// every folded layer keeps at least two rows and the remainder has at least one coefficient
fn fri_well_formed(lde: usize, blowup: usize, folding: usize, remainder: usize) -> bool {
    let max_rem = (remainder + 1) * blowup;
    let mut d = lde;
    while d > max_rem {
        d /= folding;
        if d < 2 {
            return false;
        }
    }
    d / blowup >= 1
}

struct RunOp {
    field: FieldId,
    hash: HashId,
    opts: OptSpec,
    seed: u64,
    desc: Arc<AirDesc>,
    /// custom trace metadata (`m=<hex>` token; empty = none)
    meta: Vec<u8>,
}

fn parse_run(t: &[&str]) -> Result<RunOp, String> {
    // optional sixth token `m=<hex>`: the trace carries this metadata
    let mut meta: Vec<u8> = vec![];
    let t: &[&str] = if t.len() == 6 && t[5].starts_with("m=") {
        let h = &t[5][2..];
        if h.is_empty() || h.len() % 2 != 0 || !h.bytes().all(|b| b.is_ascii_hexdigit()) || h.len() / 2 > 65535 {
            return Err("metadata".into());
        }
        meta = unhex(h);
        &t[..5]
    } else {
        t
    };
    if t.len() != 5 {
        return Err("arity".into());
    }
    let field = FieldId::parse(t[0]).ok_or("field")?;
    let hash = HashId::parse(t[1]).ok_or("hasher")?;
    let opts = OptSpec::parse(t[2]).ok_or("options")?;
    let seed = t[3].parse::<u64>().map_err(|_| "seed")?;
    let desc = AirDesc::parse(t[4])?;
    Ok(RunOp { field, hash, opts, seed, desc: Arc::new(desc), meta })
}

fn admissible(op: &RunOp) -> bool {
    let n = op.desc.trace_len;
    op.opts.accepted()
        && op.opts.blowup >= op.desc.min_blowup()
        && fri_well_formed(n * op.opts.blowup, op.opts.blowup, op.opts.folding, op.opts.remainder)
        && op.opts.queries < n * op.opts.blowup
        && op.hash.compatible(op.field)
        && op.field.supports_ext(op.opts.ext)
}

fn panic_file(info: &str) -> String {
    // "<file>:<line> <message>" -> file relative to the repository, without the line
    let loc = info.split(' ').next().unwrap_or("");
    let file = loc.rsplitn(2, ':').nth(1).unwrap_or(loc);
    // independent of where the repository is checked out
    for krate in ["/air/src/", "/prover/src/", "/verifier/src/", "/fri/src/", "/crypto/src/", "/math/src/", "/utils/core/src/"] {
        if let Some(i) = file.rfind(krate) {
            return file[i + 1..].to_string();
        }
    }
    if let Some(i) = file.find("/harness/src/") {
        return file[i + 1..].to_string();
    }
    file.to_string()
}

fn is_sampling_limit(info: &str) -> bool {
    info.contains("FailedToDraw") || info.contains("failed to draw") || info.contains("failed to generate")
}

fn exec_run(t: &[&str]) -> Outcome {
    let op = match parse_run(t) {
        Ok(op) => op,
        Err(e) => return Outcome::ok(format!("bad-op:{}", e.split(' ').next().unwrap_or(""))),
    };
    let mut o = Outcome::default();
    // the text form must be a faithful carrier of the description
    if AirDesc::parse(&op.desc.to_line()).ok().as_ref() != Some(&*op.desc) {
        o = o.fail("c01.parse", "AirDesc text form does not round-trip");
    }
    if !op.hash.compatible(op.field) {
        o.out = "rejected".into();
        return o;
    }
    let adm = admissible(&op);
    let excl_possible = op.field == FieldId::F62 && op.opts.ext == 3;
    // 1. trace valid by construction, judged by the reference predicate
    let trace = gen_trace(&op.desc, op.field, op.seed);
    let pubs = pub_inputs(&op.desc, op.field, &trace);
    // evidence label: (#values, degree of the interpolant) of the longest main sequence assertion
    let seq_label = sequence_interpolants(&op.desc, op.field, &trace)
        .into_iter()
        .max()
        .map(|(m, d)| format!(" seq={}:{}", m, d))
        .unwrap_or_default();
    if let Err(v) = is_valid(&op.desc, op.field, &trace, &pubs) {
        // not a failure of the property: the generated trace is not in the quantifier's domain
        o.out = format!("gen-invalid:{}", v);
        return o.fail("c01.harness.gen-invalid", format!("generated trace violates {}", v));
    }
    if !op.opts.accepted() {
        // the constructor must refuse (panic): observe it
        let r = guarded(|| op.opts.to_options());
        o.out = if r.is_err() { "rejected".into() } else { "accepted-unexpectedly".into() };
        if r.is_ok() {
            o = o.fail("c01.options.accepts-undocumented", format!("ProofOptions::new accepted {}", op.opts.to_text()));
        }
        return o;
    }
    // 2. prove
    let desc = op.desc.clone();
    let proved = guarded(|| {
        if op.meta.is_empty() {
            prove_ex(&desc, &trace, op.field, &op.opts, op.hash)
        } else {
            prove_ex_meta(&desc, &trace, op.field, &op.opts, op.hash, &op.meta)
        }
    });
    let fail = |o: Outcome, site: String, detail: String| -> Outcome {
        if adm {
            o.fail(site, detail)
        } else {
            o
        }
    };
    let out = match proved {
        Err(info) => {
            if excl_possible && is_sampling_limit(&info) {
                o.out = "excluded".into();
                return o;
            }
            o.out = if adm { format!("prove-panic{}", seq_label) } else { "rejected".into() };
            return fail(o, format!("c01.prove.panic@{}", panic_file(&info)), format!("panic at {}", info));
        },
        Ok(out) => out,
    };
    if let Some(Err(v)) = out.aux_check {
        o.out = format!("gen-invalid:{}", v);
        return o.fail("c01.harness.gen-invalid", format!("auxiliary segment violates {}", v));
    }
    let proof = match out.proof {
        Err(e) => {
            let kind = prover_error_kind(&e);
            o.out = format!("prove-err:{}{}", kind, seq_label);
            return fail(o, format!("c01.prove.err.{}", kind), format!("{:?}", e));
        },
        Ok(p) => p,
    };
    // glue quantities reported by the proof against the harness's own arithmetic
    let n = op.desc.trace_len;
    let lde = n * op.opts.blowup;
    let (layers, _) = fri_schedule(lde, op.opts.blowup, op.opts.folding, op.opts.remainder);
    let uq = proof.num_unique_queries as usize;
    let info = format!("uq={} layers={} lde={}", uq, layers, proof.lde_domain_size());
    if adm {
        if proof.lde_domain_size() != lde {
            o = o.fail("c01.glue.lde", format!("proof reports lde domain {} expected {}", proof.lde_domain_size(), lde));
        }
        if uq == 0 || uq > op.opts.queries {
            o = o.fail("c01.glue.unique-queries", format!("{} unique queries for {} queries", uq, op.opts.queries));
        }
        if proof.trace_info().width() != op.desc.total_width() || proof.trace_info().length() != n {
            o = o.fail("c01.glue.trace-info", "proof context reports another trace shape");
        }
        if proof.trace_info().meta() != &op.meta[..] {
            o = o.fail("c01.glue.trace-meta", "proof context reports other trace metadata");
        }
        if proof.options() != &op.opts.to_options() {
            o = o.fail("c01.glue.options", "proof context reports other options");
        }
    }
    let bytes = proof.to_bytes();
    let acceptable = AcceptableOptions::OptionSet(vec![op.opts.to_options()]);
    // 3. verify
    let v1 = match guarded(|| verify(&desc, op.field, op.hash, &pubs, proof, &acceptable)) {
        Err(info) => {
            if excl_possible && is_sampling_limit(&info) {
                "excluded".to_string()
            } else {
                o = fail(o, format!("c01.verify.panic@{}", panic_file(&info)), format!("panic at {}", info));
                "verify-panic".to_string()
            }
        },
        Ok(Ok(())) => "ok".to_string(),
        Ok(Err(e)) => {
            let kind = verifier_error_kind(&e);
            if !(excl_possible && kind == "RandomCoinError") {
                o = fail(o, format!("c01.verify.err.{}", kind), format!("{:?}", e));
            }
            format!("verify-err:{}", kind)
        },
    };
    // 4. serialise, parse, verify again
    let v2 = match guarded(|| Proof::from_bytes(&bytes)) {
        Err(info) => {
            o = fail(o, format!("c01.parse.panic@{}", panic_file(&info)), format!("panic at {}", info));
            "parse-panic".to_string()
        },
        Ok(Err(e)) => {
            o = fail(o, "c01.parse.err".to_string(), format!("Proof::from_bytes(to_bytes) failed: {:?}", e));
            "parse-err".to_string()
        },
        Ok(Ok(p2)) => {
            if p2.to_bytes() != bytes {
                o = fail(o, "c01.parse.roundtrip".to_string(), "to_bytes(from_bytes(bytes)) != bytes".to_string());
            }
            match guarded(|| verify(&desc, op.field, op.hash, &pubs, p2, &acceptable)) {
                Err(info) => {
                    if excl_possible && is_sampling_limit(&info) {
                        "excluded".to_string()
                    } else {
                        o = fail(o, format!("c01.reverify.panic@{}", panic_file(&info)), format!("panic at {}", info));
                        "verify-panic".to_string()
                    }
                },
                Ok(Ok(())) => "ok".to_string(),
                Ok(Err(e)) => {
                    let kind = verifier_error_kind(&e);
                    if !(excl_possible && kind == "RandomCoinError") {
                        o = fail(o, format!("c01.reverify.err.{}", kind), format!("{:?}", e));
                    }
                    format!("verify-err:{}", kind)
                },
            }
        },
    };
    if adm && v1 != v2 && v1 != "excluded" && v2 != "excluded" && v1 == "ok" && !o.fails.iter().any(|f| f.0.starts_with("c01.parse") || f.0.starts_with("c01.reverify")) {
        o = o.fail("c01.serialization.changes-verdict", format!("{} before, {} after the round trip", v1, v2));
    }
    o.out = format!("{} {} {}{}", v1, v2, info, seq_label);
    o
}


// ------------------------------------------------------------------------------------ refp (reference prover tie)
fn trace_text(t: &TraceData) -> String {
    t.iter().map(|c| c.iter().map(|v| v.to_string()).collect::<Vec<_>>().join(",")).collect::<Vec<_>>().join("/")
}

fn parse_trace(s: &str) -> Option<TraceData> {
    s.split('/').map(|c| c.split(',').map(|v| v.parse::<u128>().ok()).collect::<Option<Vec<u128>>>()).collect()
}

fn refp_line(field: FieldId, hash: HashId, o: &OptSpec, seed: u64, d: &AirDesc, trace: &TraceData) -> String {
    format!("refp {} {} {} {} {} {}", field.name(), hash.name(), o.to_text(), seed, d.to_line(), trace_text(trace))
}

/// `refp <field> <hasher> <opts> <seed> <desc> <trace>`
fn exec_refp(t: &[&str]) -> Outcome {
    if t.len() != 6 {
        return Outcome::ok("bad-op");
    }
    let op = match parse_run(&t[..5]) {
        Ok(op) => op,
        Err(_) => return Outcome::ok("bad-op"),
    };
    let trace = match parse_trace(t[5]) {
        Some(tr) => tr,
        None => return Outcome::ok("bad-op"),
    };
    if !op.hash.compatible(op.field) || op.desc.validate().is_err() {
        return Outcome::ok("bad-op");
    }
    if trace.len() != op.desc.width || trace.iter().any(|c| c.len() != op.desc.trace_len) {
        return Outcome::ok("bad-op");
    }
    let modulus = op.field.modulus();
    if trace.iter().any(|c| c.iter().any(|v| *v >= modulus)) {
        return Outcome::ok("bad-op");
    }
    let mut o = Outcome::default();
    let pubs = pub_inputs(&op.desc, op.field, &trace);
    let valid = is_valid(&op.desc, op.field, &trace, &pubs).is_ok();
    let adm = admissible(&op) && valid;
    if !op.opts.accepted() {
        // ProofOptions::new panics
        o.out = "panic".into();
        return o;
    }
    let desc = op.desc.clone();
    let proved = guarded(|| prove_ex(&desc, &trace, op.field, &op.opts, op.hash));
    let proof = match proved {
        Err(info) => {
            o.out = "panic".into();
            if adm {
                o = o.fail(format!("c01.refp.prove.panic@{}", panic_file(&info)), format!("panic at {}", info));
            }
            return o;
        },
        Ok(out) => match out.proof {
            _ if matches!(out.aux_check, Some(Err(_))) => {
                o.out = "gen-invalid".into();
                return o.fail("c01.harness.gen-invalid", "auxiliary segment violates its constraints");
            },
            Err(e) => {
                o.out = format!("err:{}", prover_error_kind(&e));
                if adm {
                    o = o.fail(format!("c01.refp.prove.err.{}", prover_error_kind(&e)), format!("{:?}", e));
                }
                return o;
            },
            Ok(p) => p,
        },
    };
    let bytes = proof.to_bytes();
    // the real verifier on the honest proof (the model runs `refVerify` on its own bytes: `v=`), and after the round trip
    let acceptable = AcceptableOptions::OptionSet(vec![op.opts.to_options()]);
    let v1 = guarded(|| verify(&desc, op.field, op.hash, &pubs, proof, &acceptable));
    o.out = format!("{} v={}", hex(&bytes), if matches!(v1, Ok(Ok(()))) { "ok" } else { "rejected" });
    if adm {
        match v1 {
            Ok(Ok(())) => {},
            Ok(Err(e)) => o = o.fail(format!("c01.refp.verify.err.{}", verifier_error_kind(&e)), format!("{:?}", e)),
            Err(info) => o = o.fail(format!("c01.refp.verify.panic@{}", panic_file(&info)), format!("panic at {}", info)),
        }
        match guarded(|| Proof::from_bytes(&bytes)) {
            Ok(Ok(p2)) => match guarded(|| verify(&desc, op.field, op.hash, &pubs, p2, &acceptable)) {
                Ok(Ok(())) => {},
                Ok(Err(e)) => o = o.fail(format!("c01.refp.reverify.err.{}", verifier_error_kind(&e)), format!("{:?}", e)),
                Err(info) => o = o.fail(format!("c01.refp.reverify.panic@{}", panic_file(&info)), format!("panic at {}", info)),
            },
            _ => o = o.fail("c01.refp.parse", "Proof::from_bytes(to_bytes) failed"),
        }
    }
    o
}

/// descriptions for the reference-prover tie: every assertion kind, periodic columns (also inside the
/// constraint degree), more than one exemption with a junk tail, degrees 1..5, 1..4 columns, degenerate columns
fn refp_descs(rng: &mut Rng, count: usize, max_log_len: u32) -> Vec<AirDesc> {
    let mut v: Vec<AirDesc> = vec![];
    let lens: &[usize] = if max_log_len <= 4 { &[8, 16] } else { &[8, 16, 32] };
    for &n in lens {
        v.push(power_desc(n, 2, 1, 0));
        v.push(power_desc(n, 3, 2, 2));
        v.push(feature_desc(n, 2, 2, 1, vec![3, 5, 3, 5], false, 0, false, 0));
    }
    v.push(power_desc(8, 5, 1, 4));
    v.push(power_desc(16, 4, 3, 0));
    v.push(wide_desc(4, 8, 3, 0, false));
    v.push(wide_desc(3, 16, 2, 0, false));
    // periodic column in a constraint (degree with a cycle), periodic assertion on a cyclic column, sequence assertion
    let e = Expr::add(Expr::mul(Expr::Per(0), Expr::Cur(0)), Expr::Const(3));
    v.push(AirDesc {
        width: 2,
        trace_len: 8,
        exemptions: 1,
        tail_junk: false,
        periodic: vec![vec![3u128, 5, 7, 11]],
        cols: vec![ColGen::Step { init: None, expr: e.clone() }, ColGen::Cyc(2)],
        constraints: vec![Constraint { degree: Degree { base: 1, cycles: vec![4] }, expr: Expr::sub(Expr::Nxt(0), e) }],
        assertions: vec![AssertDesc::sequence(0, 1, 4), AssertDesc::periodic(1, 0, 2), AssertDesc::single(0, 0)],
        aux: None,
    });
    // two periodic columns whose interpolants have vanishing leading coefficients
    let e = Expr::add(Expr::mul(Expr::Per(0), Expr::Cur(0)), Expr::Per(1));
    v.push(AirDesc {
        width: 1,
        trace_len: 16,
        exemptions: 1,
        tail_junk: false,
        periodic: vec![vec![3, 5, 3, 5], vec![7, 7]],
        cols: vec![ColGen::Step { init: None, expr: e.clone() }],
        constraints: vec![Constraint { degree: Degree { base: 1, cycles: vec![4] }, expr: Expr::sub(Expr::Nxt(0), e) }],
        assertions: vec![AssertDesc::single(0, 0), AssertDesc::single(0, 15)],
        aux: None,
    });
    // degenerate: constant columns, a fixed point
    v.push(AirDesc {
        width: 2,
        trace_len: 8,
        exemptions: 1,
        tail_junk: false,
        periodic: vec![],
        cols: vec![ColGen::Const(Some(7)), ColGen::Const(None)],
        constraints: vec![
            Constraint { degree: Degree::new(1), expr: Expr::sub(Expr::Nxt(0), Expr::Cur(0)) },
            Constraint { degree: Degree::new(1), expr: Expr::sub(Expr::Nxt(1), Expr::Cur(1)) },
        ],
        assertions: vec![AssertDesc::single(0, 0), AssertDesc::periodic(1, 1, 2)],
        aux: None,
    });
    let bud = Budget { min_log_len: 3, max_log_len, max_width: 4, max_degree: 3, aux_pct: 0, lagrange_pct: 0, exemptions: true, degenerate: false, sequences: true };
    let mut guard = 0;
    while v.len() < count && guard < 20 * count {
        guard += 1;
        let b = Budget { max_degree: *rng.pick(&[1usize, 2, 2, 3, 3, 4]), degenerate: guard % 9 == 0, ..bud.clone() };
        let d = random_desc(rng, &b);
        if d.aux.is_none() && d.validate().is_ok() {
            v.push(d);
        }
    }
    // a third of the configurations with an auxiliary segment (no Lagrange kernel column): the rich fixed one
    // (two random elements, periodic value and both main rows in the constraints, running sum, pointwise image,
    // aux single and sequence assertions), running products, and random ones (incl. the quotient rule that divides)
    let bud_aux = Budget { aux_pct: 100, lagrange_pct: 0, max_width: 3, ..bud.clone() };
    let mut auxv: Vec<AirDesc> = vec![wide_desc(2, 8, 2, 1, false), feature_desc(8, 2, 2, 1, vec![3, 5, 3, 5], true, 2, false, 0), wide_desc(3, 16, 2, 2, false), feature_desc(16, 2, 4, 0, vec![1, 2], true, 1, false, 1)];
    let mut guard = 0;
    while auxv.len() < count / 3 + 1 && guard < 40 * count {
        guard += 1;
        let d = random_desc(rng, &bud_aux);
        if d.aux.is_some() && !d.has_lagrange() && d.validate().is_ok() {
            auxv.push(d);
        }
    }
    let mut out: Vec<AirDesc> = vec![];
    let mut it_main = v.into_iter().filter(|d| d.validate().is_ok() && d.aux.is_none());
    let mut it_aux = auxv.into_iter().filter(|d| d.validate().is_ok() && !d.has_lagrange());
    while out.len() < count {
        let next = if out.len() % 3 == 2 { it_aux.next().or_else(|| it_main.next()) } else { it_main.next().or_else(|| it_aux.next()) };
        match next {
            Some(d) => out.push(d),
            None => break,
        }
    }
    out
}

/// the `refp` op lines: descriptions x option sets (blowups, folding factors, remainder degrees, grinding,
/// extension degrees, 1.. queries) with small LDE domains, mostly f64/Rp64_256
fn refp_ops(rng: &mut Rng, tier: Tier, emit: &mut dyn FnMut(String)) {
    let quick = tier == Tier::Quick;
    // the Lean model of the Rescue permutation costs about 15 ms per call and a proof needs about 4.5 calls per
    // LDE point: the quick tier keeps to a few dozen configurations with trace length 8..16 and LDE domains of
    // 16..32 points (a few of 64); the volume is in the thorough tier
    let (count, max_log) = if quick { (56usize, 4u32) } else { (400, 5) };
    let sizes: &[usize] = if quick { &[16, 16, 32, 16, 32, 16, 16, 64, 16, 32, 16, 32] } else { &[16, 32, 64, 32, 128, 64, 32, 256, 64, 128] };
    let descs = refp_descs(rng, count, max_log);
    for (i, d) in descs.iter().enumerate() {
        let (field, hash) = match i % 10 {
            7 => (FieldId::F64, HashId::RpJive64_256),
            8 | 9 => (FieldId::F62, HashId::Rp62_248),
            _ => (FieldId::F64, HashId::Rp64_256),
        };
        // the generators of field-specific material (degenerate columns) depend on the field
        let d = if i >= 16 && i % 10 >= 8 && d.aux.is_none() {
            let b = Budget { min_log_len: 3, max_log_len: max_log, max_width: 3, max_degree: 2, aux_pct: 0, lagrange_pct: 0, exemptions: true, degenerate: false, sequences: true };
            let x = random_desc_for(rng, &b, field);
            if x.aux.is_none() && x.validate().is_ok() { x } else { d.clone() }
        } else {
            d.clone()
        };
        let want = if d.aux.is_some() && quick { 16 } else { sizes[i % sizes.len()] };
        let lim = want.max(d.trace_len * d.min_blowup());
        let mut o = random_opts(rng, &d, field, lim);
        // few queries (the openings are the cheap part), grinding on a good third, every extension degree
        o.queries = o.queries.min(1 + (i % 7));
        o.grinding = if i % 3 == 0 { 1 + (i as u32 / 3) % 6 } else { 0 };
        // every extension degree with and without auxiliary segment (the auxiliary lines sit at i % 3 == 2)
        o.ext = 1 + ((i / 3 + i) % 3) as u8;
        if d.aux.is_some() && field == FieldId::F62 && quick {
            o.ext = 1 + ((i / 3) % 2) as u8;
        }
        if !field.supports_ext(o.ext) {
            o.ext = 1;
        }
        let seed = rng.u64() % 1_000_000;
        let trace = gen_trace(&d, field, seed);
        emit(refp_line(field, hash, &o, seed, &d, &trace));
    }
    // what the prover refuses: an ill-formed FRI schedule, an invalid trace (debug build), rejected options
    let d = power_desc(8, 2, 1, 0);
    let t = gen_trace(&d, FieldId::F64, 5);
    emit(refp_line(FieldId::F64, HashId::Rp64_256, &OptSpec::new(2, 4, 0, 1, 4, 0), 5, &d, &t));
    emit(refp_line(FieldId::F64, HashId::Rp64_256, &OptSpec::new(2, 2, 0, 1, 16, 0), 5, &d, &t));
    emit(refp_line(FieldId::F64, HashId::Rp64_256, &OptSpec::new(0, 4, 0, 1, 2, 1), 5, &d, &t));
    emit(refp_line(FieldId::F64, HashId::Rp64_256, &OptSpec::new(2, 4, 0, 1, 2, 2), 5, &d, &t));
    let mut bad = t.clone();
    bad[0][3] = (bad[0][3] + 1) % FieldId::F64.modulus();
    emit(refp_line(FieldId::F64, HashId::Rp64_256, &OptSpec::new(2, 4, 0, 1, 2, 1), 5, &d, &bad));
    let mut bad = t.clone();
    bad[0][7] = (bad[0][7] + 1) % FieldId::F64.modulus();
    emit(refp_line(FieldId::F64, HashId::Rp64_256, &OptSpec::new(2, 4, 0, 1, 2, 1), 5, &d, &bad));
    emit("refp f64 rp64_256 2.4.0.1.2.1 5 garbage 1,2".into());
    emit("refp f64".into());
}

// ------------------------------------------------------------------------------------ glue
fn parse_degs(s: &str) -> Option<Vec<(usize, Vec<usize>)>> {
    if s == "-" {
        return Some(vec![]);
    }
    s.split(',')
        .map(|d| {
            let v: Option<Vec<usize>> = d.split('.').map(|x| x.parse::<usize>().ok()).collect();
            let v = v?;
            if v.is_empty() {
                return None;
            }
            Some((v[0], v[1..].to_vec()))
        })
        .collect()
}

/// does the real FRI prover get through the commit phase for this schedule (f64, Blake3)?
fn fri_prover_runs(lde: usize, blowup: usize, folding: usize, remainder: usize) -> bool {
    guarded(|| {
        let options = FriOptions::new(blowup, folding, remainder);
        let mut channel = DefaultProverChannel::<B64, Blake3_256<B64>, DefaultRandomCoin<Blake3_256<B64>>>::new(lde, 1);
        let evaluations: Vec<B64> = (0..lde).map(|i| B64::new(i as u64 * 7 + 1)).collect();
        let mut prover = FriProver::<B64, B64, DefaultProverChannel<B64, Blake3_256<B64>, DefaultRandomCoin<Blake3_256<B64>>>, Blake3_256<B64>>::new(options);
        prover.build_layers(&mut channel, evaluations);
        prover.build_proof(&[0]);
    })
    .is_ok()
}

fn exec_glue(t: &[&str]) -> Outcome {
    if t.len() != 13 {
        return Outcome::ok("bad-op");
    }
    let nums: Option<Vec<usize>> = t[..11].iter().map(|x| x.parse::<usize>().ok()).collect();
    let (nums, md, ad) = match (nums, parse_degs(t[11]), parse_degs(t[12])) {
        (Some(n), Some(m), Some(a)) => (n, m, a),
        _ => return Outcome::ok("bad-op"),
    };
    if nums.iter().any(|x| *x > 1 << 24) || md.iter().chain(ad.iter()).any(|d| d.0 > 1 << 16 || d.1.iter().any(|c| *c > 1 << 24)) {
        return Outcome::ok("bad-op");
    }
    let (n, q, b, g, x, f, r, e, mw, aw, nr) =
        (nums[0], nums[1], nums[2], nums[3], nums[4], nums[5], nums[6], nums[7], nums[8], nums[9], nums[10]);
    let ext = match x {
        1 => FieldExtension::None,
        2 => FieldExtension::Quadratic,
        3 => FieldExtension::Cubic,
        _ => return Outcome::ok("bad-op"),
    };
    // everything below is the real code; a panic of any constructor is the outcome `panic`
    let options = ProofOptions::new(q, b, g as u32, ext, f, r);
    let info = TraceInfo::new_multi_segment(mw, aw, nr, n, vec![]);
    let lib = |d: &(usize, Vec<usize>)| {
        if d.1.is_empty() {
            TransitionConstraintDegree::new(d.0)
        } else {
            TransitionConstraintDegree::with_cycles(d.0, d.1.clone())
        }
    };
    let ctx = AirContext::<B64>::new_multi_segment(
        info,
        md.iter().map(lib).collect(),
        ad.iter().map(lib).collect(),
        1,
        if aw > 0 { 1 } else { 0 },
        None,
        options.clone(),
    )
    .set_num_transition_exemptions(e);
    let fri = options.to_fri_options();
    let lde = ctx.lde_domain_size();
    let layers = fri.num_fri_layers(lde);
    let mut remdom = lde;
    for _ in 0..layers {
        remdom /= fri.folding_factor();
    }
    let remcoef = remdom / fri.blowup_factor();
    let wf = if lde <= 1 << 14 { fri_prover_runs(lde, b, f, r) as usize } else { fri_well_formed(lde, b, f, r) as usize };
    let qok = (q < lde) as usize;
    let out = format!(
        "{} {} {} {} {} {} {} {} {} {}",
        ctx.ce_domain_size() / ctx.trace_len(),
        ctx.ce_domain_size(),
        lde,
        ctx.num_constraint_composition_columns(),
        ctx.trace_poly_degree(),
        layers,
        remdom,
        remcoef,
        wf,
        qok
    );
    let mut o = Outcome::ok(out);
    // the harness's own arithmetic must agree with the real schedule
    if fri_schedule(lde, b, f, r) != (layers, remdom) {
        o = o.fail("c01.glue.schedule", "harness schedule arithmetic differs from FriOptions::num_fri_layers");
    }
    if lde <= 1 << 14 && (wf == 1) != fri_well_formed(lde, b, f, r) {
        o = o.fail("c01.glue.well-formed", format!("FRI prover runs={} but the well-formedness predicate says {}", wf, fri_well_formed(lde, b, f, r)));
    }
    o
}

// ------------------------------------------------------------------------------------ generators
fn degs_text(ds: &[Constraint]) -> String {
    if ds.is_empty() {
        return "-".into();
    }
    ds.iter()
        .map(|c| {
            let mut s = c.degree.base.to_string();
            for cy in &c.degree.cycles {
                s.push_str(&format!(".{}", cy));
            }
            s
        })
        .collect::<Vec<_>>()
        .join(",")
}

fn glue_line(d: &AirDesc, o: &OptSpec) -> String {
    let (aw, nr, ad) = match &d.aux {
        Some(x) => (x.width, x.num_rands, degs_text(&x.constraints)),
        None => (0, 0, "-".to_string()),
    };
    format!(
        "glue {} {} {} {} {} {} {} {} {} {} {} {} {}",
        d.trace_len,
        o.queries,
        o.blowup,
        o.grinding,
        o.ext,
        o.folding,
        o.remainder,
        d.exemptions,
        d.width,
        aw,
        nr,
        degs_text(&d.constraints),
        ad
    )
}

fn run_line(field: FieldId, hash: HashId, o: &OptSpec, seed: u64, d: &AirDesc) -> String {
    format!("run {} {} {} {} {}", field.name(), hash.name(), o.to_text(), seed, d.to_line())
}

/// random admissible options for a description (small LDE domains so that proving stays fast)
fn random_opts(rng: &mut Rng, d: &AirDesc, field: FieldId, max_lde: usize) -> OptSpec {
    let n = d.trace_len;
    for _ in 0..200 {
        let minb = d.min_blowup();
        let mut blowups: Vec<usize> = [2usize, 4, 8, 16, 32, 64, 128].into_iter().filter(|b| *b >= minb && n * b <= max_lde).collect();
        if blowups.is_empty() {
            blowups.push(minb);
        }
        let b = *rng.pick(&blowups);
        let f = *rng.pick(&[2usize, 4, 8, 16]);
        let r = (1usize << rng.below(9)) - 1;
        let lde = n * b;
        // mostly few queries; sometimes many (lots of duplicate positions), sometimes as many as allowed
        let q = match rng.below(10) {
            0 => (lde - 1).min(255),
            1 | 2 => rng.range(1, (lde - 1).min(255) as u64) as usize,
            _ => rng.range(1, (lde - 1).min(12) as u64) as usize,
        };
        let g = if rng.chance(1, 4) { rng.range(1, 6) as u32 } else { 0 };
        let exts: Vec<u8> = (1..=3u8).filter(|x| field.supports_ext(*x)).collect();
        let x = *rng.pick(&exts);
        let o = OptSpec::new(q, b, g, x, f, r);
        if fri_well_formed(lde, b, f, r) {
            return o;
        }
    }
    OptSpec::new(1, d.min_blowup(), 0, 1, 2, 0)
}

/// a simple wide description: `steps` columns follow step rules, the rest are free random columns
fn wide_desc(width: usize, n: usize, ruled: usize, aux: usize, lagrange: bool) -> AirDesc {
    let mut cols = vec![];
    let mut constraints = vec![];
    for j in 0..width {
        if j < ruled {
            let e = if j % 2 == 0 {
                Expr::add(Expr::mul(Expr::Cur(j), Expr::Cur((j + 1) % width)), Expr::Const(3))
            } else {
                Expr::add(Expr::Cur(j), Expr::Cur(j - 1))
            };
            let c = Expr::sub(Expr::Nxt(j), e.clone());
            constraints.push(Constraint { degree: c.degree(&[], n), expr: c });
            cols.push(ColGen::Step { init: None, expr: e });
        } else {
            cols.push(ColGen::Rand);
        }
    }
    let mut d = AirDesc {
        width,
        trace_len: n,
        exemptions: 1,
        tail_junk: false,
        periodic: vec![],
        cols,
        constraints,
        assertions: vec![AssertDesc::single(0, 0), AssertDesc::single(width - 1, n - 1)],
        aux: None,
    };
    if aux > 0 {
        let regular = aux - lagrange as usize;
        let mut acols = vec![];
        let mut acons = vec![];
        for j in 0..regular {
            let step = Expr::mul(Expr::AuxCur(j), Expr::add(Expr::Cur(j % width), Expr::Rand(0)));
            let c = Expr::sub(Expr::AuxNxt(j), step.clone());
            acons.push(Constraint { degree: c.degree(&[], n), expr: c });
            acols.push(AuxGen::Acc { init: Expr::Const(1), step });
        }
        d.aux = Some(AuxDesc {
            width: aux,
            num_rands: 1,
            lagrange,
            cols: acols,
            constraints: acons,
            assertions: vec![AuxAssertDesc { a: AssertDesc::single(0, 0), value: Expr::Const(1) }],
        });
    }
    d
}

/// x' = x^d + k on one column; `e` exemptions; optional sequence assertion of n/stride values
fn power_desc(n: usize, d: u32, e: usize, seq_stride: usize) -> AirDesc {
    let rule = Expr::add(Expr::pow(Expr::Cur(0), d), Expr::Const(5));
    let c = Expr::sub(Expr::Nxt(0), rule.clone());
    let mut assertions = vec![];
    if seq_stride > 0 {
        assertions.push(AssertDesc::sequence(0, 1, seq_stride));
        assertions.push(AssertDesc::single(0, 0));
    } else {
        assertions.push(AssertDesc::single(0, 0));
    }
    AirDesc {
        width: 1,
        trace_len: n,
        exemptions: e,
        tail_junk: e > 1,
        periodic: vec![],
        cols: vec![ColGen::Step { init: None, expr: rule }],
        constraints: vec![Constraint { degree: Degree::new(d as usize), expr: c }],
        assertions,
        aux: None,
    }
}

/// a description exercising, at once: a degree-`d` rule with a structured periodic column, a
/// sequence assertion of `n / stride` values starting at step `first` on a free column, and
/// optionally an auxiliary segment (pointwise column with the matching aux sequence assertion, a
/// running product, `extra` scaled copies of the aux constraint) with `rands` random elements
/// (0: constants instead) and a Lagrange kernel column
fn feature_desc(n: usize, d: u32, stride: usize, first: usize, periodic: Vec<u128>, aux: bool, rands: usize, lagrange: bool, extra: usize) -> AirDesc {
    let rule = Expr::add(Expr::pow(Expr::Cur(0), d), Expr::Per(0));
    let c = Expr::sub(Expr::Nxt(0), rule.clone());
    let mut desc = AirDesc {
        width: 2,
        trace_len: n,
        exemptions: 1,
        tail_junk: false,
        periodic: vec![periodic],
        cols: vec![ColGen::Step { init: None, expr: rule }, ColGen::Rand],
        constraints: vec![Constraint { degree: Degree::new(d as usize), expr: c }],
        assertions: vec![AssertDesc::sequence(1, first, stride), AssertDesc::single(0, 0)],
        aux: None,
    };
    if aux {
        let r = |i: usize| if rands == 0 { Expr::Const(3 + i as u128) } else { Expr::Rand(i % rands) };
        let f = Expr::add(Expr::mul(r(0), Expr::Cur(1)), r(1));
        let c0 = Expr::sub(Expr::AuxCur(0), f.clone());
        let step = Expr::mul(Expr::AuxCur(1), Expr::add(Expr::Cur(0), r(0)));
        let c1 = Expr::sub(Expr::AuxNxt(1), step.clone());
        let mut constraints = vec![Constraint { degree: Degree::new(1), expr: c0.clone() }, Constraint { degree: Degree::new(2), expr: c1 }];
        for k in 0..extra {
            constraints.push(Constraint { degree: Degree::new(1), expr: Expr::mul(Expr::Const(2 + k as u128), c0.clone()) });
        }
        desc.aux = Some(AuxDesc {
            width: 2 + lagrange as usize,
            num_rands: rands,
            lagrange,
            cols: vec![AuxGen::Fn(f), AuxGen::Acc { init: Expr::Const(1), step }],
            constraints,
            assertions: vec![
                AuxAssertDesc { a: AssertDesc::sequence(0, first, stride), value: Expr::add(Expr::mul(r(0), Expr::PubSeq(0)), r(1)) },
                AuxAssertDesc { a: AssertDesc::single(1, 0), value: Expr::Const(1) },
            ],
        });
    }
    desc
}

/// a description whose sequence assertion (stride, first step) covers a column of chosen interpolant
/// degree: column 0 is a full-degree power map, columns 1.. are geometric columns T[i] = (g^e)^i for
/// the exponents `exps` (their asserted sub-sequence interpolates to x^(e mod #values)); with several
/// exponents a last pointwise column holds their sum (a polynomial with several terms). `cyc > 0`
/// replaces the target by a column of random values repeating with that period. Optionally an
/// auxiliary pointwise image of the target with the matching aux sequence assertion and a Lagrange column.
fn degree_desc(field: FieldId, n: usize, stride: usize, first: usize, exps: &[usize], cyc: usize, aux: bool, lagrange: bool) -> AirDesc {
    let rule0 = Expr::add(Expr::pow(Expr::Cur(0), 2), Expr::Const(3));
    let mut cols = vec![ColGen::Step { init: None, expr: rule0.clone() }];
    let mut constraints = vec![Constraint { degree: Degree::new(2), expr: Expr::sub(Expr::Nxt(0), rule0) }];
    let target;
    if cyc > 0 {
        cols.push(if cyc == 1 { ColGen::Const(None) } else { ColGen::Cyc(cyc) });
        target = 1;
    } else {
        for (k, e) in exps.iter().enumerate() {
            let j = k + 1;
            let rule = Expr::mul(Expr::Const(trace_generator_pow(field, n, *e as u64)), Expr::Cur(j));
            cols.push(ColGen::Step { init: Some(1), expr: rule.clone() });
            constraints.push(Constraint { degree: Degree::new(1), expr: Expr::sub(Expr::Nxt(j), rule) });
        }
        if exps.len() > 1 {
            let j = exps.len() + 1;
            let mut sum = Expr::Cur(1);
            for k in 2..=exps.len() {
                sum = Expr::add(sum, Expr::mul(Expr::Const(k as u128 + 1), Expr::Cur(k)));
            }
            cols.push(ColGen::Fn(sum.clone()));
            constraints.push(Constraint { degree: Degree::new(1), expr: Expr::sub(Expr::Cur(j), sum) });
            target = j;
        } else {
            target = 1;
        }
    }
    let width = cols.len();
    let mut desc = AirDesc {
        width,
        trace_len: n,
        exemptions: 1,
        tail_junk: false,
        periodic: vec![],
        cols,
        constraints,
        assertions: vec![AssertDesc::sequence(target, first, stride), AssertDesc::single(0, 0)],
        aux: None,
    };
    if aux {
        let f = Expr::add(Expr::mul(Expr::Rand(0), Expr::Cur(target)), Expr::Rand(1));
        let c0 = Expr::sub(Expr::AuxCur(0), f.clone());
        desc.aux = Some(AuxDesc {
            width: 1 + lagrange as usize,
            num_rands: 2,
            lagrange,
            cols: vec![AuxGen::Fn(f)],
            constraints: vec![Constraint { degree: Degree::new(1), expr: c0 }],
            assertions: vec![AuxAssertDesc {
                a: AssertDesc::sequence(0, first, stride),
                value: Expr::add(Expr::mul(Expr::Rand(0), Expr::PubSeq(0)), Expr::Rand(1)),
            }],
        });
    }
    desc
}

/// sequence assertions whose asserted values interpolate to a polynomial of EVERY interesting degree
/// (not only generic full-degree ones): large-polynomial path (64, 128, 256, 512 values), small path
/// (4..32 values), strides 2.., non-zero first steps, main and auxiliary segment, values of period
/// 1, 2 and 4, several-term polynomials
fn degree_ops(tier: Tier, emit: &mut dyn FnMut(String)) {
    let mut both = |d: &AirDesc, field: FieldId, o: &OptSpec, seed: u64, emit: &mut dyn FnMut(String)| {
        emit(run_line(field, HashId::Blake3_256, o, seed, d));
        emit(glue_line(d, o));
    };
    let max_n = if tier == Tier::Quick { 1024 } else { 4096 };
    let mut k = 0usize;
    let values: &[usize] = if tier == Tier::Quick { &[4, 8, 16, 32, 64, 128, 256, 512] } else { &[4, 8, 16, 32, 64, 128, 256, 512, 1024] };
    for &m in values {
        let degs: Vec<usize> = if m < 64 { vec![0, 1, m / 2, m - 2, m - 1] } else { interesting_degrees(m) };
        for d in degs {
            // strides 2, 4, 8, ... in rotation (trace length = values * stride), first step 0 / 1 / stride-1
            let strides: Vec<usize> = [2usize, 4, 8, 16, 32].into_iter().filter(|s| m * s <= max_n).collect();
            let stride = strides[k % strides.len()];
            let first = [0usize, 1, stride - 1][k % 3];
            let n = m * stride;
            let field = FieldId::ALL[k % 3];
            let exts: Vec<u8> = (1..=3u8).filter(|x| field.supports_ext(*x)).collect();
            let o = OptSpec::new(4, [4usize, 8, 2][k % 3], 0, exts[k % exts.len()], [4usize, 2, 8][k % 3], [3usize, 0, 7][k % 3]);
            let o = if fri_well_formed(n * o.blowup, o.blowup, o.folding, o.remainder) { o } else { OptSpec { folding: 2, ..o } };
            // main segment only, and with the auxiliary image (+ Lagrange column every other time)
            both(&degree_desc(field, n, stride, first, &[d], 0, false, false), field, &o, 80, emit);
            both(&degree_desc(field, n, stride, first, &[d], 0, true, k % 2 == 0), field, &o, 81, emit);
            k += 1;
        }
        // values of period 1, 2 and 4 in the asserted sub-sequence; polynomials with several terms
        for stride in [2usize, 4] {
            if m * stride > max_n || m < 8 {
                continue;
            }
            let n = m * stride;
            let field = FieldId::ALL[k % 3];
            let o = OptSpec::new(4, 4, 0, 1, 2, 1);
            for period in [1usize, 2, 4] {
                both(&degree_desc(field, n, stride, k % stride, &[], period * stride, k % 2 == 0, false), field, &o, 82, emit);
                k += 1;
            }
            both(&degree_desc(field, n, stride, 1, &[1, m / 2 + 3], 0, false, false), field, &o, 83, emit);
            both(&degree_desc(field, n, stride, 0, &[2, 5, (m - 2).min(70)], 0, true, false), field, &o, 84, emit);
        }
    }
    // the longest strides: 2 and 4 values
    for (n, stride) in [(8usize, 4usize), (16, 8), (64, 32), (64, 16)] {
        for e in [0usize, 1, 3] {
            both(&degree_desc(FieldId::F64, n, stride, stride - 1, &[e], 0, true, false), FieldId::F64, &OptSpec::new(4, 4, 0, 1, 2, 1), 85, emit);
        }
    }
}

/// one main transition constraint of degree `dm` and one auxiliary transition constraint of degree
/// `da` (a running product over `(c_0 + r_0)^(da-1)`): each segment's blowup estimate
/// `next_power_of_two(degree - 1)` is chosen independently
fn class_desc(n: usize, dm: u32, da: u32) -> AirDesc {
    let rule = Expr::add(Expr::pow(Expr::Cur(0), dm), Expr::Const(3));
    let c = Expr::sub(Expr::Nxt(0), rule.clone());
    let constraints = vec![Constraint { degree: c.degree(&[], n), expr: c }];
    let cols = vec![ColGen::Step { init: None, expr: rule }, ColGen::Rand];
    let assertions = vec![AssertDesc::single(0, 0), AssertDesc::single(1, 2)];
    let mut d = AirDesc { width: 2, trace_len: n, exemptions: 1, tail_junk: false, periodic: vec![], cols, constraints, assertions, aux: None };
    let step = Expr::mul(Expr::AuxCur(0), Expr::pow(Expr::add(Expr::Cur(0), Expr::Rand(0)), da - 1));
    let c = Expr::sub(Expr::AuxNxt(0), step.clone());
    let acons = vec![Constraint { degree: c.degree(&[], n), expr: c }];
    let acols = vec![AuxGen::Acc { init: Expr::Const(1), step }];
    let aasserts = vec![AuxAssertDesc { a: AssertDesc::single(0, 0), value: Expr::Const(1) }];
    d.aux = Some(AuxDesc { width: 1, num_rands: 1, lagrange: false, cols: acols, constraints: acons, assertions: aasserts });
    d
}

/// short traces with high declared degrees, end to end: `min_blowup_factor = next_power_of_two(d - 1)`
/// is twice what the degree needs when (d-1)(n-1) <= n*next_power_of_two(d-1)/2 (d - 1 not a power of
/// two: d = 10 over 8 rows, d = 18 over 8 and 16 rows, d = 19 over 8 rows), so the constraint
/// evaluation domain is larger than the highest degree requires (the debug-build prover demanded
/// equality and panicked on these valid runs: repaired by 21f82da).  The degree sits on the main
/// segment (also in a single-segment description), on the auxiliary segment and on both, in every
/// blowup class 2..32 against every other class (aux above, equal to, below main); the neighbouring
/// degrees run too.  LDE blowup = the constraint-evaluation blowup and twice it.
fn short_trace_degree_ops(tier: Tier, emit: &mut dyn FnMut(String)) {
    let mut both = |d: &AirDesc, field: FieldId, o: &OptSpec, seed: u64, emit: &mut dyn FnMut(String)| {
        emit(run_line(field, HashId::Blake3_256, o, seed, d));
        emit(glue_line(d, o));
    };
    let opts = |n: usize, b: usize, k: usize, field: FieldId| -> OptSpec {
        let exts: Vec<u8> = (1..=3u8).filter(|x| field.supports_ext(*x)).collect();
        let o = OptSpec::new(4, b, 0, if b >= 32 { 1 } else { exts[k % exts.len()] }, [2usize, 4, 8][k % 3], [1usize, 0, 3][k % 3]);
        if fri_well_formed(n * o.blowup, o.blowup, o.folding, o.remainder) { o } else { OptSpec { folding: 2, remainder: 0, ..o } }
    };
    let mut k = 0usize;
    for (d, ns) in [(10u32, &[8usize][..]), (11, &[8]), (13, &[8]), (16, &[8]), (18, &[8, 16]), (19, &[8, 16]), (20, &[8]), (25, &[8, 16]), (32, &[8, 16])] {
        for n in ns.iter().copied() {
            let rounds_up = ((d - 1) as usize) * (n - 1) <= n * ((d - 1) as usize).next_power_of_two() / 2;
            if !(rounds_up || tier == Tier::Thorough || k % 2 == 0) {
                k += 1;
                continue;
            }
            let field = FieldId::ALL[k % 3];
            // single segment
            let p = power_desc(n, d, 1, 0);
            both(&p, field, &opts(n, p.min_blowup(), k, field), 90, emit);
            // main / aux / both
            for (dm, da) in [(d, 2u32), (2, d), (d, d)] {
                let desc = class_desc(n, dm, da);
                let ceb = desc.min_blowup();
                both(&desc, field, &opts(n, ceb, k, field), 91, emit);
                if rounds_up && ceb <= 16 {
                    both(&desc, FieldId::ALL[(k + 1) % 3], &opts(n, ceb * 2, k + 1, FieldId::ALL[(k + 1) % 3]), 92, emit);
                }
                k += 1;
            }
        }
    }
    // every ordered pair of blowup classes 2..16 (degrees on the class edges), 8 and 16 rows
    let classes: [(u32, u32); 4] = [(2, 3), (4, 5), (6, 9), (10, 17)];
    let mut i = 0usize;
    for (mlo, mhi) in classes {
        for (alo, ahi) in classes {
            let n = if i % 2 == 0 { 8 } else { 16 };
            let (dm, da) = match i % 4 {
                0 => (mlo, alo),
                1 => (mhi, ahi),
                2 => (mlo, ahi),
                _ => (mhi, alo),
            };
            let desc = class_desc(n, dm, da);
            let field = FieldId::ALL[i % 3];
            both(&desc, field, &opts(n, desc.min_blowup(), i, field), 93, emit);
            i += 1;
        }
    }
}

fn hardening_ops(tier: Tier, emit: &mut dyn FnMut(String)) {
    degree_ops(tier, emit);
    short_trace_degree_ops(tier, emit);
    let mut both = |d: &AirDesc, field: FieldId, hash: HashId, o: &OptSpec, seed: u64, emit: &mut dyn FnMut(String)| {
        emit(run_line(field, hash, o, seed, d));
        emit(glue_line(d, o));
    };
    // structured periodic columns of several cycle lengths
    let pers: Vec<Vec<u128>> = vec![
        vec![3, 5, 3, 5],
        vec![7, 7, 7, 7],
        vec![0, 0, 0, 0, 0, 0, 0, 0],
        vec![0, 0, 9, 0],
        vec![1, 2, 1, 2, 1, 2, 1, 2],
        vec![4, 6, 1, 1, 4, 6, 1, 1],
        vec![1, 0],
        vec![2, 2],
        vec![1, 1, 1, 0, 1, 1, 1, 0, 1, 1, 1, 0, 1, 1, 1, 0],
    ];
    // every pair (ce blowup, lde blowup) with ce <= lde, with: sequence of >= 64 values at a non-zero
    // first step (large-polynomial path) and of < 64 values, main and aux; Lagrange column; aux
    // random elements 0 and > 0; #aux constraints below / equal / above #main constraints
    let mut k = 0usize;
    for (d, ce) in [(2u32, 2usize), (3, 2), (4, 4), (5, 4), (6, 8), (9, 8)] {
        let mut b = ce;
        while b <= if tier == Tier::Quick { 32 } else { 128 } {
            for (n, stride, first) in [(128usize, 2usize, 1usize), (16, 2, 1), (256, 4, 3), (64, 2, 0)] {
                if n > 64 && d > 5 && tier == Tier::Quick && b > 16 {
                    continue;
                }
                let per = pers[k % pers.len()].clone();
                let (aux, rands, lag, extra) = match k % 6 {
                    0 => (false, 0, false, 0),
                    1 => (true, 2, false, 0),
                    2 => (true, 0, true, 0),
                    3 => (true, 1, true, 2),
                    4 => (true, 0, false, 1),
                    _ => (true, 3, true, 0),
                };
                let field = FieldId::ALL[k % 3];
                let hash = HashId::for_field(field)[k % HashId::for_field(field).len()];
                let exts: Vec<u8> = (1..=3u8).filter(|x| field.supports_ext(*x)).collect();
                let o = OptSpec::new(3 + k % 5, b, 0, exts[k % exts.len()], [2usize, 4, 8, 16][k % 4], [0usize, 1, 3, 7, 255][k % 5]);
                let desc = feature_desc(n, d, stride, first, per, aux, rands, lag, extra);
                if fri_well_formed(n * b, b, o.folding, o.remainder) {
                    both(&desc, field, hash, &o, 30 + k as u64, emit);
                } else {
                    both(&desc, field, hash, &OptSpec { folding: 2, ..o }, 30 + k as u64, emit);
                }
                k += 1;
            }
            b *= 2;
        }
    }
    // every structured periodic column, multiplied into the rule as well (degenerate: lower actual degree)
    for (i, per) in pers.iter().enumerate() {
        let mut d = feature_desc(16, 2, 2, 1, per.clone(), i % 2 == 0, 1, i % 3 == 0, 0);
        both(&d, FieldId::F64, HashId::Blake3_256, &OptSpec::new(4, 4, 0, 1, 2, 1), 60, emit);
        let rule = Expr::add(Expr::mul(Expr::Per(0), Expr::pow(Expr::Cur(0), 2)), Expr::Const(3));
        d.cols[0] = ColGen::Step { init: None, expr: rule.clone() };
        d.constraints[0] = Constraint { degree: Degree { base: 2, cycles: vec![per.len()] }, expr: Expr::sub(Expr::Nxt(0), rule) };
        both(&d, FieldId::F128, HashId::Blake3_256, &OptSpec::new(4, 8, 0, 1, 2, 1), 61, emit);
    }
    // low-degree periodic columns (field specific): degree 0, 1, 2, 3 for cycles 4, 8, 16
    for field in FieldId::ALL {
        for (c, deg) in [(4usize, 1usize), (8, 1), (8, 2), (8, 3), (16, 1), (16, 5), (2, 0), (8, 0)] {
            let per = low_degree_periodic(field, c, deg, 7 + c as u64 + deg as u64);
            let d = feature_desc(16, 2, 2, 1, per.clone(), deg % 2 == 1, 1, false, 0);
            both(&d, field, HashId::Blake3_256, &OptSpec::new(4, 4, 0, 1, 2, 1), 72, emit);
            let mut m = d.clone();
            let rule = Expr::add(Expr::mul(Expr::Per(0), Expr::Cur(0)), Expr::Const(3));
            m.cols[0] = ColGen::Step { init: None, expr: rule.clone() };
            m.constraints[0] = Constraint { degree: Degree { base: 1, cycles: vec![c] }, expr: Expr::sub(Expr::Nxt(0), rule) };
            both(&m, field, HashId::Sha3_256, &OptSpec::new(4, 8, 0, 1, 2, 1), 73, emit);
        }
    }
    // several cycle lengths at once
    {
        let mut d = feature_desc(32, 2, 2, 1, vec![3, 5, 3, 5], true, 2, true, 0);
        d.periodic.push(vec![1, 2]);
        d.periodic.push((1..=32).collect());
        d.periodic.push(vec![9; 8]);
        let rule = Expr::add(Expr::add(Expr::mul(Expr::Per(1), Expr::pow(Expr::Cur(0), 2)), Expr::mul(Expr::Per(2), Expr::Cur(1))), Expr::add(Expr::Per(0), Expr::Per(3)));
        d.cols[0] = ColGen::Step { init: None, expr: rule.clone() };
        d.constraints[0] = Constraint { degree: Degree { base: 2, cycles: vec![2] }, expr: Expr::sub(Expr::Nxt(0), rule) };
        for field in FieldId::ALL {
            both(&d, field, HashId::Blake3_256, &OptSpec::new(6, 8, 0, 1, 4, 3), 62, emit);
        }
    }
    // assertion value sequences: constant / sub-periodic / low-degree columns under a sequence assertion
    for (g, name) in [(ColGen::Const(Some(5)), 0), (ColGen::Const(Some(0)), 1), (ColGen::Cyc(2), 2), (ColGen::Cyc(4), 3), (ColGen::LowDeg(1), 4), (ColGen::LowDeg(0), 5), (ColGen::Counter, 6)] {
        for (n, stride, first) in [(128usize, 2usize, 1usize), (32, 2, 1), (16, 4, 0)] {
            let mut d = feature_desc(n, 2, stride, first, vec![3, 5, 3, 5], name % 2 == 0, 1, false, 0);
            d.cols[1] = g.clone();
            both(&d, FieldId::F64, HashId::Blake3_256, &OptSpec::new(5, 8, 0, 2, 4, 3), 63, emit);
        }
    }
    // total width 255 in every kind of split, with and without the Lagrange column; segment widths
    // around the row-matrix segment width 8
    for mw in [1usize, 2, 7, 8, 9, 120, 127, 128, 246, 247, 248, 249, 252, 253, 254] {
        let aw = 255 - mw;
        both(&wide_desc(mw, 8, 3.min(mw), aw, false), FieldId::F64, HashId::Blake3_256, &OptSpec::new(3, 2, 0, 1, 2, 0), 64, emit);
        if aw >= 2 {
            both(&wide_desc(mw, 8, 3.min(mw), aw, true), FieldId::F62, HashId::Blake3_256, &OptSpec::new(3, 4, 0, 2, 2, 0), 65, emit);
        }
    }
    for aw in [1usize, 2, 3, 7, 8, 9, 15, 16, 17] {
        for ext in [1u8, 2, 3] {
            both(&wide_desc(3, 8, 2, aw, false), FieldId::F64, HashId::Rp64_256, &OptSpec::new(3, 4, 0, ext, 2, 0), 66, emit);
            if aw >= 2 {
                both(&wide_desc(9, 8, 2, aw, true), FieldId::F64, HashId::Blake3_192, &OptSpec::new(3, 8, 0, ext, 2, 0), 67, emit);
            }
        }
    }
    // composition columns around the segment width: degrees 8, 9, 10 -> 7, 8, 9 columns (and ce < lde)
    for d in [7u32, 8, 9, 10, 16, 17] {
        for b in [16usize, 32] {
            both(&power_desc(16, d, 1, 0), FieldId::F64, HashId::Blake3_256, &OptSpec::new(4, b, 0, 2, 4, 1), 68, emit);
        }
    }
    // queries: as many as the domain allows (mostly duplicates), and duplicates with few queries
    for (q, b, n) in [(15usize, 2usize, 8usize), (31, 4, 8), (63, 8, 8), (255, 32, 8), (255, 4, 64), (129, 2, 128), (128, 2, 128), (2, 2, 8), (7, 2, 8)] {
        both(&power_desc(n, 2, 1, 0), FieldId::F64, HashId::Blake3_256, &OptSpec::new(q, b, 0, 1, 2, 0), 69, emit);
        both(&wide_desc(3, n, 2, 3, true), FieldId::F128, HashId::Sha3_256, &OptSpec::new(q, b, 0, 2, 4, 3), 69, emit);
    }
    // FRI schedules with 0, 1 and many layers for every folding factor (remainder domain = LDE domain, ...)
    for f in [2usize, 4, 8, 16] {
        for (n, b, r) in [(8usize, 2usize, 7usize), (8, 4, 15), (16, 2, 15), (64, 2, 63), (64, 2, 31), (256, 16, 0), (256, 2, 1), (128, 8, 7)] {
            let o = OptSpec::new(5, b, 0, 1, f, r);
            if fri_well_formed(n * b, b, f, r) {
                both(&power_desc(n, 2, 1, 0), FieldId::F62, HashId::Rp62_248, &o, 70, emit);
            }
        }
    }
    // for every folding factor: 0..3 layers x 1, 2, 4 remainder coefficients (n = f^layers * coefficients)
    for f in [2usize, 4, 8, 16] {
        for layers in 0..=3u32 {
            for rc in [1usize, 2, 4] {
                let n = f.pow(layers) * rc;
                if n < 8 || n > 4096 {
                    continue;
                }
                for b in [2usize, 8] {
                    if n * b > 16384 {
                        continue;
                    }
                    let o = OptSpec::new(7, b, 0, 1, f, rc - 1);
                    if fri_well_formed(n * b, b, f, rc - 1) && fri_schedule(n * b, b, f, rc - 1).0 == layers as usize {
                        both(&power_desc(n, 2, 1, 0), FieldId::F64, HashId::Blake3_256, &o, 74, emit);
                    }
                }
            }
        }
    }
    // exemptions at both bounds with auxiliary segment and Lagrange column
    for n in [8usize, 16, 32] {
        for e in [1usize, 2, n / 2, n / 2 + 1] {
            let mut d = wide_desc(2, n, 2, 3, true);
            d.constraints.truncate(0);
            d.cols = vec![ColGen::Step { init: None, expr: Expr::add(Expr::Cur(0), Expr::Cur(1)) }, ColGen::Rand];
            d.constraints.push(Constraint { degree: Degree::new(1), expr: Expr::sub(Expr::Nxt(0), Expr::add(Expr::Cur(0), Expr::Cur(1))) });
            if e <= d.max_exemptions() {
                d.exemptions = e;
                d.tail_junk = e > 1;
                both(&d, FieldId::F64, HashId::Blake3_256, &OptSpec::new(4, 8, 0, 1, 2, 1), 71, emit);
            }
        }
    }
}

/// trace METADATA (`TraceInfo::with_meta` / `new_multi_segment(.., meta)`): lengths around one and two field
/// elements' worth of bytes for each field (`Context::to_elements` chunks the metadata by ELEMENT_BYTES - 1),
/// 100 bytes and the maximum of 65535; contents: a byte pattern, the same with trailing zero bytes, all 0xff;
/// single- and two-segment descriptions
fn meta_ops(emit: &mut dyn FnMut(String)) {
    let o = OptSpec::new(4, 4, 0, 1, 4, 3);
    let descs = [power_desc(8, 2, 1, 0), wide_desc(2, 8, 2, 1, false)];
    let mut k = 0usize;
    for field in FieldId::ALL {
        let eb: usize = if field == FieldId::F128 { 16 } else { 8 };
        for (di, d) in descs.iter().enumerate() {
            for len in [1usize, eb - 2, eb - 1, eb, eb + 1, 2 * eb - 1, 2 * eb, 100, 65535] {
                let contents: Vec<usize> = if len == eb - 1 || len == eb || len == 2 * eb { vec![0, 1, 2] } else { vec![k % 3] };
                for c in contents {
                    let mut m: Vec<u8> = (0..len).map(|i| ((i * 37 + 1 + di) % 256) as u8).collect();
                    match c {
                        1 => {
                            let z = len.min(3);
                            for b in m[len - z..].iter_mut() {
                                *b = 0;
                            }
                        },
                        2 => m.iter_mut().for_each(|b| *b = 0xff),
                        _ => {},
                    }
                    emit(format!("{} m={}", run_line(field, HashId::Blake3_256, &o, 90 + k as u64, d), hex(&m)));
                    k += 1;
                }
            }
        }
    }
    emit("run f64 blake3_256 4.4.0.1.4.3 1 w=1;l=8;e=1;j=0;p=;g=S?:+^2c0k5;t=2:-n0+^2c0k5;a=s0.0 m=zz".into());
}

fn boundary_ops(rng: &mut Rng, tier: Tier, emit: &mut dyn FnMut(String)) {
    hardening_ops(tier, emit);
    meta_ops(emit);
    let base = OptSpec::new(4, 4, 0, 1, 4, 3);
    let mut both = |d: &AirDesc, field: FieldId, hash: HashId, o: &OptSpec, seed: u64, emit: &mut dyn FnMut(String)| {
        emit(run_line(field, hash, o, seed, d));
        emit(glue_line(d, o));
    };
    // ---- widths: 1, 2, 8, 9, 254, 255 columns; total width 255 with an auxiliary segment
    for (w, ruled) in [(1usize, 1usize), (2, 2), (8, 8), (9, 4), (16, 16), (17, 3), (254, 6), (255, 6), (255, 255)] {
        for field in FieldId::ALL {
            both(&wide_desc(w, 8, ruled, 0, false), field, HashId::Blake3_256, &base, 11, emit);
        }
    }
    for (mw, aw, lag) in [(250usize, 5usize, false), (253, 2, true), (254, 1, false), (1, 254, false), (200, 54, false), (100, 3, true)] {
        both(&wide_desc(mw, 8, 4.min(mw), aw, lag), FieldId::F64, HashId::Blake3_256, &base, 12, emit);
        both(&wide_desc(mw, 8, 4.min(mw), aw, lag), FieldId::F128, HashId::Sha3_256, &base, 12, emit);
    }
    // ---- queries: many unique queries (253..255 unique positions need a large domain)
    let qd = power_desc(64, 2, 1, 0);
    for (q, b) in [(255usize, 8usize), (255, 128), (254, 128), (200, 16), (127, 2), (63, 2)] {
        both(&qd, FieldId::F64, HashId::Blake3_256, &OptSpec::new(q, b, 0, 1, 8, 31), 13, emit);
    }
    let big = power_desc(if tier == Tier::Quick { 1024 } else { 4096 }, 2, 1, 0);
    for seed in 0..(if tier == Tier::Quick { 2 } else { 6 }) {
        both(&big, FieldId::F64, HashId::Blake3_256, &OptSpec::new(255, 128, 0, 1, 16, 255), 100 + seed, emit);
        both(&big, FieldId::F128, HashId::Blake3_256, &OptSpec::new(254, 64, 0, 1, 16, 255), 200 + seed, emit);
    }
    // ---- sequence assertions with 4..128 values (large-polynomial path from 64 values on)
    for (n, stride) in [(8usize, 2usize), (64, 2), (128, 2), (256, 2), (256, 4), (128, 4), (64, 8), (512, 4)] {
        for field in FieldId::ALL {
            both(&power_desc(n, 2, 1, stride), field, HashId::Blake3_256, &OptSpec::new(5, 4, 0, 1, 4, 7), 14, emit);
        }
    }
    // ---- exemptions 1..n/2+1 (degree 1 and 2), with junk in the exempt tail
    for n in [8usize, 16] {
        for d in [1u32, 2] {
            for e in 1..=n / 2 + 1 {
                both(&power_desc(n, d, e, 0), FieldId::F64, HashId::Blake3_256, &base, 15, emit);
            }
        }
    }
    for (d, b) in [(3u32, 2usize), (5, 4), (9, 8), (17, 16)] {
        let mut desc = power_desc(8, d, 1, 0);
        for e in 1..=desc.max_exemptions() {
            desc.exemptions = e;
            desc.tail_junk = e > 1;
            both(&desc, FieldId::F128, HashId::Blake3_256, &OptSpec::new(3, b, 0, 1, 2, 0), 16, emit);
        }
    }
    // ---- blowup 2..128 x degree blowup+1; folding x remainder degrees x grinding
    for b in [2usize, 4, 8, 16, 32, 64, 128] {
        for d in [1u32, 2, b as u32, b as u32 + 1] {
            if d as usize > 33 && tier == Tier::Quick {
                continue;
            }
            both(&power_desc(8, d, 1, 0), FieldId::F64, HashId::Blake3_256, &OptSpec::new(3, b, 0, 2, 4, 1), 17, emit);
        }
    }
    for f in [2usize, 4, 8, 16] {
        for rk in 0..9 {
            let r = (1usize << rk) - 1;
            for (n, b) in [(8usize, 2usize), (16, 4), (64, 8), (32, 128)] {
                let o = OptSpec::new(6, b, if rk % 3 == 0 { 3 } else { 0 }, 1, f, r);
                let d = power_desc(n, 2, 1, 0);
                if fri_well_formed(n * b, b, f, r) {
                    both(&d, FieldId::F64, HashId::Blake3_256, &o, 18, emit);
                } else {
                    emit(glue_line(&d, &o));
                }
            }
        }
    }
    for g in [0u32, 1, 4, 8, if tier == Tier::Quick { 10 } else { 16 }] {
        for field in FieldId::ALL {
            for hash in HashId::for_field(field) {
                both(&power_desc(8, 2, 1, 0), field, hash, &OptSpec::new(4, 4, g, 1, 2, 1), 19, emit);
            }
        }
    }
    // ---- all fields x extensions x hashers, with and without auxiliary segment / Lagrange column
    for field in FieldId::ALL {
        for ext in 1..=3u8 {
            for hash in HashId::for_field(field) {
                let o = OptSpec::new(5, 4, 0, ext, 4, 3);
                both(&wide_desc(3, 16, 3, 0, false), field, hash, &o, 20, emit);
                both(&wide_desc(3, 8, 2, 2, false), field, hash, &o, 21, emit);
                both(&wide_desc(2, 8, 2, 3, true), field, hash, &o, 22, emit);
            }
        }
    }
    // ---- degenerate but valid traces: constant columns, fixed points, all-low-degree traces
    let constant = AirDesc {
        width: 2,
        trace_len: 8,
        exemptions: 1,
        tail_junk: false,
        periodic: vec![],
        cols: vec![ColGen::Const(Some(7)), ColGen::Const(None)],
        constraints: vec![
            Constraint { degree: Degree::new(1), expr: Expr::sub(Expr::Nxt(0), Expr::Cur(0)) },
            Constraint { degree: Degree::new(1), expr: Expr::sub(Expr::Nxt(1), Expr::Cur(1)) },
        ],
        assertions: vec![AssertDesc::single(0, 0), AssertDesc::periodic(1, 1, 2)],
        aux: None,
    };
    both(&constant, FieldId::F64, HashId::Blake3_256, &base, 23, emit);
    both(&constant, FieldId::F128, HashId::Blake3_256, &base, 23, emit);
    let mut zero_fib = wide_desc(2, 8, 0, 0, false);
    zero_fib.cols = vec![
        ColGen::Step { init: Some(0), expr: Expr::Cur(1) },
        ColGen::Step { init: Some(0), expr: Expr::add(Expr::Cur(0), Expr::Cur(1)) },
    ];
    zero_fib.constraints = vec![
        Constraint { degree: Degree::new(1), expr: Expr::sub(Expr::Nxt(0), Expr::Cur(1)) },
        Constraint { degree: Degree::new(1), expr: Expr::sub(Expr::Nxt(1), Expr::add(Expr::Cur(0), Expr::Cur(1))) },
    ];
    both(&zero_fib, FieldId::F64, HashId::Blake3_256, &base, 24, emit);
    let mut fixed = power_desc(8, 2, 1, 0);
    fixed.cols = vec![ColGen::Step { init: Some(0), expr: Expr::pow(Expr::Cur(0), 2) }];
    fixed.constraints = vec![Constraint { degree: Degree::new(2), expr: Expr::sub(Expr::Nxt(0), Expr::pow(Expr::Cur(0), 2)) }];
    both(&fixed, FieldId::F64, HashId::Blake3_256, &base, 25, emit);
    let mut lowdeg = wide_desc(3, 8, 0, 0, false);
    lowdeg.cols = vec![ColGen::Const(Some(1)), ColGen::LowDeg(2), ColGen::LowDeg(6)];
    lowdeg.constraints = vec![Constraint { degree: Degree::new(1), expr: Expr::sub(Expr::Nxt(0), Expr::Cur(0)) }];
    lowdeg.assertions = vec![AssertDesc::single(0, 3)];
    both(&lowdeg, FieldId::F64, HashId::Blake3_256, &base, 26, emit);
    let mut lowdeg2 = lowdeg.clone();
    lowdeg2.cols[2] = ColGen::Rand;
    both(&lowdeg2, FieldId::F64, HashId::Blake3_256, &base, 27, emit);
    // ---- not admissible: the constructors must refuse, nothing may hang
    emit(run_line(FieldId::F64, HashId::Blake3_256, &OptSpec::new(0, 4, 0, 1, 4, 3), 1, &qd));
    emit(run_line(FieldId::F64, HashId::Blake3_256, &OptSpec::new(4, 3, 0, 1, 4, 3), 1, &qd));
    emit(run_line(FieldId::F64, HashId::Blake3_256, &OptSpec::new(4, 4, 33, 1, 4, 3), 1, &qd));
    emit(run_line(FieldId::F64, HashId::Blake3_256, &OptSpec::new(4, 4, 0, 1, 3, 3), 1, &qd));
    emit(run_line(FieldId::F64, HashId::Blake3_256, &OptSpec::new(4, 4, 0, 1, 4, 4), 1, &qd));
    emit(run_line(FieldId::F64, HashId::Blake3_256, &OptSpec::new(4, 2, 0, 1, 4, 3), 1, &power_desc(8, 4, 1, 0)));
    emit(run_line(FieldId::F64, HashId::Blake3_256, &OptSpec::new(16, 2, 0, 1, 4, 3), 1, &power_desc(8, 2, 1, 0)));
    emit(run_line(FieldId::F64, HashId::Blake3_256, &OptSpec::new(4, 2, 0, 1, 16, 0), 1, &power_desc(8, 2, 1, 0)));
    emit(run_line(FieldId::F128, HashId::Rp64_256, &base, 1, &qd));
    emit(run_line(FieldId::F128, HashId::Blake3_256, &OptSpec::new(4, 4, 0, 3, 4, 3), 1, &qd));
    emit("run f64 blake3_256 4.4.0.1.4.3 1 w=1;l=8;e=1;g=R;t=1:-n0c9;a=s0.0".into());
    emit("run f64 blake3_256 4.4.0.1.4.3 1 garbage".into());
    emit("run f64".into());
}

fn glue_ops(rng: &mut Rng, n: usize, emit: &mut dyn FnMut(String)) {
    // boundary products of the constructor limits and random tuples, valid and not
    let lens = [4usize, 8, 16, 12, 64, 1024, 1 << 16];
    let qs = [0usize, 1, 2, 15, 16, 254, 255, 256];
    let bs = [1usize, 2, 3, 4, 8, 64, 128, 256];
    let fs = [1usize, 2, 3, 4, 8, 16, 32];
    let rs = [0usize, 1, 2, 3, 7, 127, 255, 256, 511];
    for i in 0..n {
        let nn = if rng.chance(4, 5) { 1usize << rng.range(3, 10) } else { *rng.pick(&lens) };
        let q = if rng.chance(3, 4) { rng.range(1, 255) as usize } else { *rng.pick(&qs) };
        let b = if rng.chance(3, 4) { 1usize << rng.range(1, 7) } else { *rng.pick(&bs) };
        let g = if rng.chance(9, 10) { rng.below(33) as usize } else { 33 };
        let x = rng.range(1, 3) as usize;
        let f = if rng.chance(4, 5) { 1usize << rng.range(1, 4) } else { *rng.pick(&fs) };
        let r = if rng.chance(4, 5) { (1usize << rng.below(9)) - 1 } else { *rng.pick(&rs) };
        let e = if rng.chance(2, 3) { 1 } else if rng.chance(1, 2) { rng.range(0, (nn / 2 + 2) as u64) as usize } else { rng.range(1, 6) as usize };
        let aw = if rng.chance(2, 3) { 0 } else { rng.range(1, 4) as usize };
        let mw = if rng.chance(9, 10) { rng.range(1, 20) as usize } else { *rng.pick(&[0usize, 1, 254, 255, 256]) };
        let nr = if aw == 0 { if rng.chance(19, 20) { 0 } else { 1 } } else { rng.below(4) as usize };
        let mut deg = |rng: &mut Rng| -> String {
            let base = if rng.chance(19, 20) { rng.range(1, 9) } else { 0 };
            let mut s = base.to_string();
            for _ in 0..(if rng.chance(2, 3) { 0 } else { rng.range(1, 3) }) {
                let c = if rng.chance(9, 10) { 1u64 << rng.range(1, 7) } else { *rng.pick(&[1u64, 3, 2048]) };
                s.push_str(&format!(".{}", c));
            }
            s
        };
        let nm = if rng.chance(19, 20) { rng.range(1, 4) } else { 0 };
        let md: Vec<String> = (0..nm).map(|_| deg(rng)).collect();
        let na = if aw > 0 { if rng.chance(19, 20) { rng.range(1, 3) } else { 0 } } else if rng.chance(29, 30) { 0 } else { 1 };
        let ad: Vec<String> = (0..na).map(|_| deg(rng)).collect();
        let j = |v: Vec<String>| if v.is_empty() { "-".to_string() } else { v.join(",") };
        emit(format!("glue {} {} {} {} {} {} {} {} {} {} {} {} {}", nn, q, b, g, x, f, r, e, mw, aw, nr, j(md), j(ad)));
    }
    // exhaustive small schedule table
    for nn in [8usize, 16, 32, 64, 128] {
        for b in [2usize, 4, 8, 16, 128] {
            for f in [2usize, 4, 8, 16] {
                for rk in 0..9 {
                    emit(format!("glue {} 3 {} 0 1 {} {} 1 1 0 0 {} -", nn, b, f, (1usize << rk) - 1, if b >= 4 { "3" } else { "2" }));
                }
            }
        }
    }
}

impl Prop for P {
    fn id(&self) -> &'static str {
        "C01"
    }

    fn gen(&self, rng: &mut Rng, tier: Tier, n: usize, emit: &mut dyn FnMut(String)) {
        let n = default_n(tier, 12000, 120000, n);
        // the supervisor hands contiguous chunks of the op list to its 16 workers: deal the lines out
        // round-robin so that the heavy boundary cases do not all land on the first worker
        let mut all: Vec<String> = vec![];
        let real_emit = emit;
        let emit: &mut dyn FnMut(String) = &mut |l| all.push(l);
        boundary_ops(rng, tier, emit);
        {
            let mut refp_rng = rng.fork();
            refp_ops(&mut refp_rng, tier, emit);
        }
        glue_ops(rng, n / 2, emit);
        // random descriptions x random admissible options x fields x hashers
        for i in 0..n {
            let field = *rng.pick(&FieldId::ALL);
            let hash = *rng.pick(&HashId::for_field(field));
            let bud = Budget {
                min_log_len: 3,
                max_log_len: if i % 10 == 0 { 6 } else { 4 },
                max_width: if i % 25 == 0 { 40 } else { 6 },
                max_degree: *rng.pick(&[1usize, 2, 2, 3, 3, 4, 5]),
                aux_pct: 35,
                lagrange_pct: 35,
                exemptions: true,
                degenerate: i % 12 == 0,
                sequences: true,
            };
            let d = random_desc_for(rng, &bud, field);
            let o = random_opts(rng, &d, field, if i % 10 == 0 { 2048 } else { 512 });
            emit(run_line(field, hash, &o, rng.u64() % 1_000_000, &d));
            if i % 4 == 0 {
                emit(glue_line(&d, &o));
            }
        }
        for k in 0..16 {
            for i in (k..all.len()).step_by(16) {
                real_emit(std::mem::take(&mut all[i]));
            }
        }
    }

    fn exec(&self, line: &str) -> Outcome {
        let t: Vec<&str> = line.split(' ').filter(|x| !x.is_empty()).collect();
        match t.first().copied() {
            Some("run") => exec_run(&t[1..]),
            Some("glue") => exec_glue(&t[1..]),
            Some("refp") => exec_refp(&t[1..]),
            _ => Outcome::ok("bad-op"),
        }
    }

    fn timeout_ms(&self) -> u64 {
        120_000
    }

    fn nontrivial(&self, line: &str, out: &str) -> bool {
        !out.starts_with("bad-op")
    }

    fn class(&self, line: &str, out: &str) -> String {
        let t: Vec<&str> = line.split(' ').collect();
        if t.first() == Some(&"run") && t.len() >= 4 {
            let ext = t[3].split('.').nth(3).unwrap_or("?");
            let verdict: Vec<&str> =
                out.split(' ').filter(|v| !v.contains('=')).take(2).map(|v| v.split(':').next().unwrap_or("")).collect();
            // sequence assertions whose values are not generic (interpolant below full degree) or long
            // enough for the large-polynomial path get their own class: (#values, interpolant degree)
            if let Some(l) = out.split(' ').find_map(|v| v.strip_prefix("seq=")) {
                let mut it = l.split(':').map(|x| x.parse::<usize>().unwrap_or(0));
                let (m, d) = (it.next().unwrap_or(0), it.next().unwrap_or(0));
                if m >= 64 || d + 1 < m {
                    return format!("run.seq.values{}.degree{}:{}", m, d, verdict.join("+"));
                }
            }
            if let Some(m) = t.last().and_then(|x| x.strip_prefix("m=")) {
                return format!("run.meta.{}.len{}:{}", t[1], m.len() / 2, verdict.join("+"));
            }
            format!("run.{}.{}.x{}:{}", t[1], t[2], ext, verdict.join("+"))
        } else if t.first() == Some(&"refp") && t.len() >= 4 {
            let ext = t[3].split('.').nth(3).unwrap_or("?");
            let verdict = if out == "panic" || out == "bad-op" || out.starts_with("err:") { out.split(':').next().unwrap_or("") } else { "proof" };
            format!("refp.{}.{}.x{}:{}", t[1], t[2], ext, verdict)
        } else {
            format!("{}:{}", t.first().unwrap_or(&""), if out == "panic" { "panic" } else if out == "bad-op" { "bad-op" } else { "ok" })
        }
    }

    fn rule(&self) -> &'static str {
        "distinct op lines that are not bad-op; a run op is one (description, trace seed, options, field, hasher) tuple proved and verified twice, a glue op is one parameter tuple pushed through the real constructors and the Lean model, a refp op is one (description, trace, options, field, hasher) tuple proved by the real prover and by the Lean reference prover (bytes compared) and verified twice"
    }

    fn panic_site(&self, line: &str) -> Option<String> {
        // glue ops: a panic is the documented refusal of a constructor; run ops catch panics per stage
        if line.starts_with("run") {
            Some("c01.harness.panic".into())
        } else {
            None
        }
    }
}

fn main() {
    main_for(&P);
}
