//! C16: constraints are enforced on exactly the intended steps.
//! Op lines mirror lean/Winter/Drv/C16.lean.  Oracle: step sets and polynomial identities computed
//! with wf_harness::oracle (independent modular arithmetic), never with the model.
//!
//! assertion descriptor `<kind>:<col>:<first>:<stride>:<count>`, kind s(ingle) p(eriodic) q (sequence);
//! values of an assertion are val(seed, i) (see `val`).
//!
//!   <f> tdivx <n> <e> <x>           transition divisor at x: `q ex num deg`
//!   <f> tdivs <n> <e>               … at every trace-domain point g^i: zero patterns + hash
//!   <f> adivx <desc> <n> <x>        assertion divisor at x: `k off val deg`
//!   <f> adivs <desc> <n>            … at every trace-domain point
//!   <f> bvalx <desc> <seed> <n> <x> value polynomial of the boundary constraint at x
//!   <f> bvals <desc> <seed> <n>     … at every trace-domain point
//!   <f> prep <n> <width> <desc>…    BoundaryConstraints::new (prepare_assertions + grouping)
//!   mk <desc> <n> <width>           constructor / validate_* / get_num_steps / apply
//!   overlap <n> <descA> <descB>     overlaps_with in both directions
//!   ovall <n> <descA>               overlaps_with against every assertion valid for n in column 0
//!   exempt <n> <e> <blowup> <deg>…  AirContext::set_num_transition_exemptions, deg = base[:cycle…]
#![allow(dead_code, unused_variables, unused_imports, unused_mut)]
use wf_harness::core::*;
use wf_harness::fields::*;
use wf_harness::oracle::*;
use winter_air::{
    Air, AirContext, Assertion, AssertionError, BoundaryConstraints, ConstraintDivisor, EvaluationFrame, FieldExtension,
    ProofOptions, TraceInfo, TransitionConstraintDegree, TransitionConstraints,
};
use winter_math::{fields::f128, fields::f62, fields::f64, ExtensibleField, FieldElement, StarkField, ToElements};

/// the three base fields as the `Air` trait wants them
pub trait AFld: Fld + ExtensibleField<2> + ExtensibleField<3> {}
impl<T: Fld + ExtensibleField<2> + ExtensibleField<3>> AFld for T {}

/// minimal `Air`: only carries assertions, to reach `Air::get_boundary_constraints`
struct TinyPub<F: AFld>(Vec<Assertion<F>>);
impl<F: AFld> ToElements<F> for TinyPub<F> {
    fn to_elements(&self) -> Vec<F> {
        vec![]
    }
}
struct TinyAir<F: AFld> {
    ctx: AirContext<F>,
    asserts: Vec<Assertion<F>>,
}
impl<F: AFld> Air for TinyAir<F> {
    type BaseField = F;
    type PublicInputs = TinyPub<F>;
    type GkrProof = ();
    type GkrVerifier = ();
    fn new(ti: TraceInfo, p: TinyPub<F>, options: ProofOptions) -> Self {
        let n = p.0.len();
        TinyAir { ctx: AirContext::new(ti, vec![TransitionConstraintDegree::new(1)], n, options), asserts: p.0 }
    }
    fn context(&self) -> &AirContext<F> {
        &self.ctx
    }
    fn evaluate_transition<E: FieldElement<BaseField = F>>(&self, _f: &EvaluationFrame<E>, _p: &[E], _r: &mut [E]) {}
    fn get_assertions(&self) -> Vec<Assertion<F>> {
        self.asserts.clone()
    }
}

pub struct P;

const HP: u128 = 2305843009213693951; // 2^61 - 1

fn hstep(acc: u128, x: u128) -> u128 {
    (acc * 1000003 + x % HP + 1) % HP
}

/// i-th asserted value for a seed (same formula in the Lean driver)
fn val(seed: u128, i: usize) -> u128 {
    let i = i as u128;
    if seed >= PAT {
        // structured value patterns
        return match seed - PAT {
            0 => 0,                                  // all zero
            1 => 5,                                  // constant
            2 => 3 + 2 * (i % 2),                    // alternating 3,5
            3 => if i == 1 { 9 } else { 0 },         // a single non-zero entry
            4 => u64::MAX as u128,                   // beyond the modulus of the 64/62-bit fields
            5 => if i == 0 { 0 } else { 4 },         // zero first, constant tail
            6 => i,                                  // counter
            _ => 1 + 4 * ((i / 2) % 2),              // runs a,a,b,b
        };
    }
    (seed + 1) * (i + 7) * 1000003 + i * i
}
const PAT: u128 = 1 << 20;
const NPAT: u128 = 8;

#[derive(Clone, Copy, Debug, PartialEq)]
struct Desc {
    kind: char,
    col: usize,
    first: usize,
    stride: usize,
    count: usize,
}

/// the steps an assertion names: first + stride * j for j < count (never materialised for long traces)
#[derive(Clone, Copy, Debug, PartialEq)]
struct Steps {
    first: usize,
    stride: usize,
    count: usize,
}

impl Steps {
    fn contains(&self, i: usize) -> bool {
        i >= self.first && (i - self.first) % self.stride == 0 && (i - self.first) / self.stride < self.count
    }
    fn len(&self) -> usize {
        self.count
    }
    fn position(&self, i: usize) -> Option<usize> {
        self.contains(i).then(|| (i - self.first) / self.stride)
    }
    fn list(&self) -> Vec<usize> {
        assert!(self.count <= 1 << 16);
        (0..self.count).map(|j| self.first + self.stride * j).collect()
    }
    fn intersects(&self, o: &Steps) -> bool {
        if self.count <= o.count {
            self.list().iter().any(|s| o.contains(*s))
        } else {
            o.list().iter().any(|s| self.contains(*s))
        }
    }
}

impl Desc {
    fn parse(s: &str) -> Option<Desc> {
        let p: Vec<&str> = s.split(':').collect();
        if p.len() != 5 || p[0].len() != 1 {
            return None;
        }
        let kind = p[0].chars().next()?;
        if !"spq".contains(kind) {
            return None;
        }
        Some(Desc {
            kind,
            col: p[1].parse().ok()?,
            first: p[2].parse().ok()?,
            stride: p[3].parse().ok()?,
            count: p[4].parse().ok()?,
        })
    }
    fn s(&self) -> String {
        format!("{}:{}:{}:{}:{}", self.kind, self.col, self.first, self.stride, self.count)
    }
    /// the real constructor
    fn build<F: Fld>(&self, seed: u128) -> Assertion<F> {
        match self.kind {
            's' => Assertion::single(self.col, self.first, F::from_word(val(seed, 0))),
            'p' => Assertion::periodic(self.col, self.first, self.stride, F::from_word(val(seed, 0))),
            _ => Assertion::sequence(
                self.col,
                self.first,
                self.stride,
                (0..self.count).map(|i| F::from_word(val(seed, i))).collect(),
            ),
        }
    }
    // ---- oracle ----
    /// well-formedness promised by the constructors' documentation
    fn wf(&self) -> bool {
        let st = self.stride.is_power_of_two() && self.stride >= 2 && self.first < self.stride;
        match self.kind {
            's' => true,
            'p' => st,
            _ => st && self.count >= 1 && self.count.is_power_of_two(),
        }
    }
    /// the steps the assertion names in a trace of length n (None: not valid for that length)
    fn steps(&self, n: usize) -> Option<Steps> {
        if !self.wf() || !n.is_power_of_two() {
            return None;
        }
        let one = Steps { first: self.first, stride: 1, count: 1 };
        match self.kind {
            's' => (self.first < n).then_some(one),
            'p' => (self.stride <= n).then_some(Steps { first: self.first, stride: self.stride, count: n / self.stride }),
            _ => {
                if self.count == 1 {
                    (self.first < n).then_some(one)
                } else {
                    (self.count.checked_mul(self.stride) == Some(n))
                        .then_some(Steps { first: self.first, stride: self.stride, count: self.count })
                }
            },
        }
    }
    /// asserted value at the j-th named step
    fn value_at(&self, seed: u128, j: usize, m: u128) -> u128 {
        match self.kind {
            'q' => val(seed, j) % m,
            _ => val(seed, 0) % m,
        }
    }
}

/// every assertion shape valid for trace length n in column `col`, in the enumeration order shared
/// with the Lean driver: singles, periodic (stride ascending, first ascending), sequences
fn all_valid(n: usize, col: usize) -> Vec<Desc> {
    let mut v = vec![];
    for first in 0..n {
        v.push(Desc { kind: 's', col, first, stride: 0, count: 1 });
    }
    let mut stride = 2;
    while stride <= n {
        for first in 0..stride {
            v.push(Desc { kind: 'p', col, first, stride, count: 1 });
        }
        stride *= 2;
    }
    let mut stride = 2;
    while stride * 2 <= n {
        for first in 0..stride {
            v.push(Desc { kind: 'q', col, first, stride, count: n / stride });
        }
        stride *= 2;
    }
    v
}

fn bits(bs: &[bool]) -> String {
    if bs.is_empty() {
        "-".into()
    } else {
        bs.iter().map(|b| if *b { '1' } else { '0' }).collect()
    }
}

/// the implementation's generator of the trace domain, validated to have exact order n
fn domain_gen<F: Fld>(n: usize, o: &mut Outcome) -> u128 {
    let g = F::get_root_of_unity(n.ilog2()).canon();
    if n >= 2 && (powmod(g, n as u128, F::MOD) != 1 || powmod(g, (n / 2) as u128, F::MOD) == 1) {
        o.fails.push((format!("{}.root.order", F::NAME), format!("get_root_of_unity(log2 {}) has not order {}", n, n)));
    }
    g
}

fn options(blowup: usize) -> ProofOptions {
    ProofOptions::new(1, blowup, 0, FieldExtension::None, 2, 0)
}

fn opt_panic<T>(r: Result<T, String>) -> Option<T> {
    r.ok()
}

// ------------------------------------------------------------------------------ transition divisor
struct TPoint {
    q: u128,
    ex: u128,
    num: u128,
}

fn tdiv_point<F: Fld>(d: &ConstraintDivisor<F>, d0: &ConstraintDivisor<F>, x: F) -> TPoint {
    TPoint { q: d.evaluate_at(x).canon(), ex: d.evaluate_exemptions_at(x).canon(), num: d0.evaluate_at(x).canon() }
}

/// oracle judgement of one point of the transition divisor
fn judge_tpoint<F: Fld>(o: &mut Outcome, n: usize, e: usize, g: u128, x: u128, p: &TPoint) {
    let m = F::MOD;
    let f = F::NAME;
    let num = submod(powmod(x, n as u128, m), 1, m);
    if p.num != num {
        o.fails.push((format!("{}.tdiv.numerator", f), format!("n={} x={}: numerator {} but x^n-1 = {}", n, x, p.num, num)));
    }
    let mut ex = 1u128;
    let mut exempt_hit = false;
    for k in n - e..n {
        let gk = powmod(g, k as u128, m);
        if gk == x {
            exempt_hit = true;
        }
        ex = mulmod(ex, submod(x, gk, m), m);
    }
    if p.ex != ex {
        o.fails.push((format!("{}.tdiv.exemptions", f), format!("n={} e={} x={}: exemption product {} expected {}", n, e, x, p.ex, ex)));
    }
    if (p.ex == 0) != exempt_hit {
        o.fails.push((
            format!("{}.tdiv.exemptions.zero-set", f),
            format!("n={} e={} x={}: exemption product vanishes={} but x is an exempt step={}", n, e, x, p.ex == 0, exempt_hit),
        ));
    }
    if ex != 0 {
        // the quotient must be the product over the non-exempt steps
        let mut z = 1u128;
        if n <= 4096 {
            for i in 0..n - e {
                z = mulmod(z, submod(x, powmod(g, i as u128, m), m), m);
            }
        } else {
            z = mulmod(num, invmod(ex, m), m);
        }
        if p.q != z {
            o.fails.push((
                format!("{}.tdiv.quotient", f),
                format!("n={} e={} x={}: evaluate_at {} but prod over non-exempt steps (x-g^i) = {}", n, e, x, p.q, z),
            ));
        }
    }
}

fn check_tstructure<F: Fld>(o: &mut Outcome, d: &ConstraintDivisor<F>, n: usize, e: usize, g: u128) {
    let m = F::MOD;
    let num: Vec<(usize, u128)> = d.numerator().iter().map(|(k, c)| (*k, c.canon())).collect();
    let ex: Vec<u128> = d.exemptions().iter().map(|c| c.canon()).collect();
    let exp_ex: Vec<u128> = (n - e..n).map(|k| powmod(g, k as u128, m)).collect();
    if num != vec![(n, 1u128)] || ex != exp_ex {
        o.fails.push((format!("{}.tdiv.structure", F::NAME), format!("n={} e={}: numerator {:?} exemptions {:?}", n, e, num, ex)));
    }
    if d.degree() != n - e {
        o.fails.push((format!("{}.tdiv.degree", F::NAME), format!("n={} e={}: degree {}", n, e, d.degree())));
    }
}

fn exec_tdiv<F: Fld>(t: &[&str]) -> Outcome {
    let pu = |s: &str| s.parse::<usize>().unwrap();
    let (n, e) = (pu(t[1]), pu(t[2]));
    let built = guarded(|| (ConstraintDivisor::<F>::from_transition(n, e), ConstraintDivisor::<F>::from_transition(n, 0)));
    let (d, d0) = match built {
        Ok(x) => x,
        Err(info) => {
            let mut o = Outcome::ok("panic");
            // from_transition is only specified for e <= n over a domain that has a generator
            if e <= n && n.is_power_of_two() && (e == 0 || (n >= 2 && n.ilog2() <= F::TWO_ADICITY)) {
                o = o.fail(format!("{}.tdiv.panic", F::NAME), info);
            }
            return o;
        },
    };
    let mut o = Outcome::ok("");
    let has_root = n >= 2 && n.ilog2() <= F::TWO_ADICITY;
    let g = if has_root { domain_gen::<F>(n, &mut o) } else { 1 };
    check_tstructure(&mut o, &d, n, e, g);
    if t[0] == "tdivx" {
        let xv: u128 = t[3].parse().unwrap();
        let x = F::from_word(xv);
        let p = tdiv_point(&d, &d0, x);
        judge_tpoint::<F>(&mut o, n, e, g, xv % F::MOD, &p);
        o.out = format!("{} {} {} {}", p.q, p.ex, p.num, d.degree());
    } else {
        let gi = if has_root { F::get_root_of_unity(n.ilog2()) } else { F::ONE };
        let mut x = F::ONE;
        let mut xo = 1u128;
        let (mut zq, mut ze, mut zn) = (vec![], vec![], vec![]);
        let mut h = 0u128;
        for i in 0..n {
            let p = tdiv_point(&d, &d0, x);
            if x.canon() != xo {
                o.fails.push((format!("{}.field.mul", F::NAME), format!("g^{} differs from the oracle", i)));
            }
            judge_tpoint::<F>(&mut o, n, e, g, xo, &p);
            // on the trace domain: numerator vanishes everywhere, exemptions exactly on the last e steps
            if p.num != 0 || (p.ex == 0) != (i >= n - e) || (i < n - e && p.q != 0) {
                o.fails.push((
                    format!("{}.tdiv.domain.zero-set", F::NAME),
                    format!("n={} e={} step {}: num={} ex={} q={}", n, e, i, p.num, p.ex, p.q),
                ));
            }
            zq.push(p.q == 0);
            ze.push(p.ex == 0);
            zn.push(p.num == 0);
            h = hstep(hstep(hstep(h, p.q), p.ex), p.num);
            x = x * gi;
            xo = mulmod(xo, g, F::MOD);
        }
        o.out = format!("deg={} zq={} ze={} zn={} h={}", d.degree(), bits(&zq), bits(&ze), bits(&zn), h);
    }
    o
}

// ------------------------------------------------------------------------------ assertion divisor
fn judge_apoint<F: Fld>(o: &mut Outcome, d: &Desc, n: usize, steps: &Steps, g: u128, x: u128, v: u128) {
    let m = F::MOD;
    // the divisor must be the product of (x - g^s) over the named steps
    let mut z = 1u128;
    let mut hit = false;
    if steps.len() <= 4096 {
        for s in steps.list() {
            let gs = powmod(g, s as u128, m);
            hit |= gs == x;
            z = mulmod(z, submod(x, gs, m), m);
        }
    } else {
        // too many steps to multiply out: closed form x^k - g^(k*first)
        z = submod(powmod(x, steps.len() as u128, m), powmod(g, (steps.len() * steps.first) as u128, m), m);
        hit = z == 0;
    }
    if v != z {
        o.fails.push((
            format!("{}.adiv.value", F::NAME),
            format!("{} n={} x={}: divisor {} but prod over named steps (x-g^s) = {}", d.s(), n, x, v, z),
        ));
    }
    if (v == 0) != hit {
        o.fails.push((
            format!("{}.adiv.zero-set", F::NAME),
            format!("{} n={} x={}: divisor vanishes={} but x is a named step={}", d.s(), n, x, v == 0, hit),
        ));
    }
}

fn exec_adiv<F: Fld>(t: &[&str]) -> Outcome {
    let d = Desc::parse(t[1]).unwrap();
    let n: usize = t[2].parse().unwrap();
    let steps = d.steps(n);
    let a = match guarded(|| d.build::<F>(0)) {
        Ok(a) => a,
        Err(info) => {
            let mut o = Outcome::ok("ctor-panic");
            if d.wf() {
                o = o.fail("mk.ctor.rejects-wellformed", info);
            }
            return o;
        },
    };
    let div = match guarded(|| ConstraintDivisor::<F>::from_assertion(&a, n)) {
        Ok(x) => x,
        Err(info) => {
            let mut o = Outcome::ok("panic");
            if steps.is_some() && (d.first == 0 || (n >= 2 && n.ilog2() <= F::TWO_ADICITY)) {
                o = o.fail(format!("{}.adiv.panic", F::NAME), info);
            }
            return o;
        },
    };
    let mut o = Outcome::ok("");
    let steps = match steps {
        Some(s) => s,
        None => {
            return o.fail(format!("{}.adiv.accepts-invalid", F::NAME), format!("{} is not valid for trace length {}", d.s(), n));
        },
    };
    let has_root = n >= 2 && n.ilog2() <= F::TWO_ADICITY;
    let g = if has_root { domain_gen::<F>(n, &mut o) } else { 1 };
    let num: Vec<(usize, u128)> = div.numerator().iter().map(|(k, c)| (*k, c.canon())).collect();
    let (k, off) = if num.len() == 1 { num[0] } else { (0, 0) };
    let exp_off = powmod(g, (steps.len() * d.first) as u128, F::MOD);
    if num.len() != 1 || !div.exemptions().is_empty() || k != steps.len() || off != exp_off {
        o.fails.push((format!("{}.adiv.structure", F::NAME), format!("{} n={}: numerator {:?}", d.s(), n, num)));
    }
    if div.degree() != steps.len() {
        o.fails.push((format!("{}.adiv.degree", F::NAME), format!("{} n={}: degree {}", d.s(), n, div.degree())));
    }
    if t[0] == "adivx" {
        let xv: u128 = t[3].parse().unwrap();
        let v = div.evaluate_at(F::from_word(xv)).canon();
        judge_apoint::<F>(&mut o, &d, n, &steps, g, xv % F::MOD, v);
        o.out = format!("{} {} {} {}", k, off, v, div.degree());
    } else {
        let gi = if has_root { F::get_root_of_unity(n.ilog2()) } else { F::ONE };
        let mut x = F::ONE;
        let mut xo = 1u128;
        let mut z = vec![];
        let mut h = 0u128;
        for i in 0..n {
            let v = div.evaluate_at(x).canon();
            judge_apoint::<F>(&mut o, &d, n, &steps, g, xo, v);
            if (v == 0) != steps.contains(i) {
                o.fails.push((
                    format!("{}.adiv.domain.zero-set", F::NAME),
                    format!("{} n={} step {}: divisor {} named={}", d.s(), n, i, v, steps.contains(i)),
                ));
            }
            z.push(v == 0);
            h = hstep(h, v);
            x = x * gi;
            xo = mulmod(xo, g, F::MOD);
        }
        o.out = format!("k={} off={} deg={} z={} h={}", k, off, div.degree(), bits(&z), h);
    }
    o
}

// ------------------------------------------------------------------------------ boundary constraint
fn exec_bval<F: Fld>(t: &[&str]) -> Outcome {
    let d = Desc::parse(t[1]).unwrap();
    let seed: u128 = t[2].parse().unwrap();
    let n: usize = t[3].parse().unwrap();
    let steps = d.steps(n);
    let width = d.col + 1;
    let built = guarded(|| {
        let a = d.build::<F>(seed);
        let ctx = AirContext::<F>::new(TraceInfo::new(width, n), vec![TransitionConstraintDegree::new(1)], 1, options(2));
        BoundaryConstraints::<F>::new(&ctx, vec![a], vec![], &[F::ONE])
    });
    let bcs = match built {
        Ok(b) => b,
        Err(info) => {
            let mut o = Outcome::ok("panic");
            if steps.is_some() && n >= 8 && width <= 255 {
                o = o.fail(format!("{}.bval.panic", F::NAME), info);
            }
            return o;
        },
    };
    let mut o = Outcome::ok("");
    let steps = match steps {
        Some(s) => s,
        None => return o.fail(format!("{}.bval.accepts-invalid", F::NAME), format!("{} not valid for {}", d.s(), n)),
    };
    let g = domain_gen::<F>(n, &mut o);
    let m = F::MOD;
    if bcs.main_constraints().len() != 1 || bcs.main_constraints()[0].constraints().len() != 1 {
        return o.fail(format!("{}.bval.structure", F::NAME), "expected one group with one constraint");
    }
    let grp = &bcs.main_constraints()[0];
    let c = &grp.constraints()[0];
    if c.column() != d.col {
        o.fails.push((format!("{}.bval.column", F::NAME), format!("column {}", c.column())));
    }
    // the group's divisor must vanish exactly on the named steps
    {
        let mut xo = 1u128;
        for i in 0..n {
            let v = grp.divisor().evaluate_at(F::from_word(xo)).canon();
            if (v == 0) != steps.contains(i) {
                o.fails.push((format!("{}.bval.divisor.zero-set", F::NAME), format!("{} n={} step {}", d.s(), n, i)));
            }
            xo = mulmod(xo, g, m);
        }
    }
    let (sh_steps, sh_elem) = c.poly_offset();
    let value = |x: F| -> u128 { (F::ZERO - c.evaluate_at(x, F::ZERO)).canon() };
    if t[0] == "bvalx" {
        let xv: u128 = t[4].parse().unwrap();
        let v = value(F::from_word(xv));
        for (j, s) in steps.list().iter().enumerate() {
            if powmod(g, *s as u128, m) == xv % m && v != d.value_at(seed, j, m) {
                o.fails.push((
                    format!("{}.bval.value", F::NAME),
                    format!("{} n={} step {}: value polynomial gives {} but asserted {}", d.s(), n, s, v, d.value_at(seed, j, m)),
                ));
            }
        }
        // trace_value enters as trace_value - value
        let tv = 12345u128;
        if c.evaluate_at(F::from_word(xv), F::from_word(tv)).canon() != submod(tv, v, m) {
            o.fails.push((format!("{}.bval.trace-value", F::NAME), "evaluate_at(x, t) != t - b(x)".into()));
        }
        o.out = format!("sh={} {} v={}", sh_steps, sh_elem.canon(), v);
    } else {
        let gi = F::get_root_of_unity(n.ilog2());
        let mut x = F::ONE;
        let mut h = 0u128;
        let mut v0 = 0;
        for i in 0..n {
            let v = value(x);
            if let Some(j) = steps.position(i) {
                if j == 0 {
                    v0 = v;
                }
                if v != d.value_at(seed, j, m) {
                    o.fails.push((
                        format!("{}.bval.value", F::NAME),
                        format!("{} n={} step {}: value polynomial gives {} but asserted {}", d.s(), n, i, v, d.value_at(seed, j, m)),
                    ));
                }
            }
            h = hstep(h, v);
            x = x * gi;
        }
        o.out = format!("sh={} {} v0={} h={}", sh_steps, sh_elem.canon(), v0, h);
    }
    o
}

// ------------------------------------------------------------------------------ prepare + grouping
/// oracle: is the list acceptable for (n, width): well-formed, in range, pairwise disjoint cells
fn prep_expect(descs: &[Desc], n: usize, width: usize) -> (bool, Vec<(usize, usize)>) {
    let mut ok = true;
    let mut cells: Vec<(usize, usize)> = vec![];
    for d in descs {
        match d.steps(n) {
            Some(st) if d.col < width && st.len() <= 1 << 12 => {
                for s in st.list() {
                    if cells.contains(&(d.col, s)) {
                        ok = false;
                    }
                    cells.push((d.col, s));
                }
            },
            Some(_) if d.col < width => {},
            _ => ok = false,
        }
    }
    (ok, cells)
}

/// oracle: value polynomial of an assertion at x (Lagrange interpolation through the named steps)
fn oracle_value(d: &Desc, seed: u128, st: &Steps, g: u128, x: u128, m: u128) -> u128 {
    if d.kind != 'q' || st.len() == 1 {
        return val(seed, 0) % m;
    }
    let pts: Vec<u128> = st.list().iter().map(|s| powmod(g, *s as u128, m)).collect();
    let mut r = 0u128;
    for (j, pj) in pts.iter().enumerate() {
        let (mut num, mut den) = (1u128, 1u128);
        for (k, pk) in pts.iter().enumerate() {
            if k != j {
                num = mulmod(num, submod(x, *pk, m), m);
                den = mulmod(den, submod(*pj, *pk, m), m);
            }
        }
        r = addmod(r, mulmod(val(seed, j) % m, mulmod(num, invmod(den, m), m), m), m);
    }
    r
}

/// description of the groups of one segment + judgement of cells and merged evaluations
fn describe_groups<F: Fld, G>(
    o: &mut Outcome,
    groups: &[G],
    divisor: impl Fn(&G) -> &ConstraintDivisor<F>,
    columns: impl Fn(&G) -> Vec<usize>,
    evaluate: impl Fn(&G, &[F], F) -> F,
    descs: &[(Desc, u128)], // with value seeds
    cc0: usize,
    n: usize,
    width: usize,
    tag: &str,
) -> String {
    let m = F::MOD;
    let g = domain_gen::<F>(n, o);
    let mut out = vec![];
    let mut enforced: Vec<(usize, usize)> = vec![];
    let state: Vec<F> = (0..width).map(|c| F::from_word(c as u128 + 11)).collect();
    let x0 = 7u128;
    let mut evals = vec![];
    for grp in groups {
        let num = divisor(grp).numerator();
        let (k, off) = (num[0].0, num[0].1.canon());
        let cols = columns(grp);
        if n <= 256 {
            let mut xo = 1u128;
            for i in 0..n {
                if divisor(grp).evaluate_at(F::from_word(xo)).canon() == 0 {
                    for c in &cols {
                        enforced.push((*c, i));
                    }
                }
                xo = mulmod(xo, g, m);
            }
        }
        evals.push(evaluate(grp, &state, F::from_word(x0)).canon());
        out.push(format!("{}/{}:{}", k, off, cols.iter().map(|c| c.to_string()).collect::<Vec<_>>().join(",")));
    }
    if n <= 256 {
        let (_, mut a) = prep_expect(&descs.iter().map(|d| d.0).collect::<Vec<_>>(), n, width);
        a.sort();
        enforced.sort();
        if a != enforced {
            o.fails.push((
                format!("{}.{}.cells", F::NAME, tag),
                format!("cells named by the assertions {:?} differ from the cells the grouped divisors vanish on {:?}", a, enforced),
            ));
        }
    }
    // merged evaluations sum_i cc_i (state[col_i] - b_i(x0)) / z(x0): assertions in natural order
    // (stored stride, first step, column), coefficient cc0 + position + 2
    let mut sorted: Vec<(usize, usize, usize, Desc, u128)> = descs
        .iter()
        .map(|(d, seed)| {
            let stored = if d.kind == 's' || (d.kind == 'q' && d.count == 1) { 0 } else { d.stride };
            (stored, d.first, d.col, *d, *seed)
        })
        .collect();
    sorted.sort_by_key(|t| (t.0, t.1, t.2));
    let mut exp: Vec<((usize, usize), u128, u128)> = vec![]; // key, numerator, denominator
    for (pos, (stored, first, col, d, seed)) in sorted.iter().enumerate() {
        let st = d.steps(n).unwrap();
        if st.len() > 512 {
            return format!("{} e=skipped", out.join(";"));
        }
        let b = oracle_value(d, *seed, &st, g, x0, m);
        let term = mulmod(submod((*col as u128 + 11) % m, b, m), (cc0 + pos + 2) as u128 % m, m);
        match exp.iter_mut().find(|e| e.0 == (*stored, *first)) {
            Some(e) => e.1 = addmod(e.1, term, m),
            None => {
                let mut z = 1u128;
                for s in st.list() {
                    z = mulmod(z, submod(x0, powmod(g, s as u128, m), m), m);
                }
                exp.push(((*stored, *first), term, z));
            },
        }
    }
    let expv: Vec<u128> = exp.iter().map(|e| mulmod(e.1, invmod(e.2, m), m)).collect();
    if expv != evals {
        o.fails.push((
            format!("{}.{}.group-eval", F::NAME, tag),
            format!("merged group evaluations at x={} are {:?}, expected {:?}", x0, evals, expv),
        ));
    }
    let mut h = 0u128;
    for e in &evals {
        h = hstep(h, *e);
    }
    format!("{} e={}", if out.is_empty() { "-".to_string() } else { out.join(";") }, h)
}

fn exec_prep<F: AFld>(t: &[&str]) -> Outcome {
    let n: usize = t[1].parse().unwrap();
    let pu = |s: &str| s.parse::<usize>().unwrap();
    // prep n width descs… | prepc n width declared ncoef descs… | prepa n mainw auxw nmain descs…
    let (width, auxw, nmain, declared, ncoef, descs): (usize, usize, usize, usize, usize, Vec<Desc>) = match t[0] {
        "prepc" => {
            let d: Vec<Desc> = t[5..].iter().map(|s| Desc::parse(s).unwrap()).collect();
            (pu(t[2]), 0, d.len(), pu(t[3]), pu(t[4]), d)
        },
        "prepa" => {
            let d: Vec<Desc> = t[5..].iter().map(|s| Desc::parse(s).unwrap()).collect();
            (pu(t[2]), pu(t[3]), pu(t[4]).min(d.len()), d.len(), d.len(), d)
        },
        _ => {
            let d: Vec<Desc> = t[3..].iter().map(|s| Desc::parse(s).unwrap()).collect();
            (pu(t[2]), 0, d.len(), d.len(), d.len(), d)
        },
    };
    let seeded: Vec<(Desc, u128)> = descs
        .iter()
        .enumerate()
        .map(|(i, d)| (*d, if i % 3 == 2 { PAT + (i as u128 + d.first as u128) % NPAT } else { i as u128 }))
        .collect();
    let (main, aux) = seeded.split_at(nmain);
    let (main_ok, _) = prep_expect(&main.iter().map(|d| d.0).collect::<Vec<_>>(), n, width);
    let (aux_ok, _) = prep_expect(&aux.iter().map(|d| d.0).collect::<Vec<_>>(), n, auxw);
    let shape_ok = n >= 8 && n.is_power_of_two() && width >= 1 && width + auxw <= 255 && !main.is_empty()
        && (auxw == 0) == aux.is_empty() && declared == descs.len() && ncoef == descs.len();
    let expect_ok = shape_ok && main_ok && aux_ok;
    let built = guarded(|| {
        let ma: Vec<Assertion<F>> = main.iter().map(|(d, s)| d.build::<F>(*s)).collect();
        let aa: Vec<Assertion<F>> = aux.iter().map(|(d, s)| d.build::<F>(*s)).collect();
        let cc: Vec<F> = (0..ncoef).map(|i| F::from_word(i as u128 + 2)).collect();
        if t[0] == "prepa" {
            let ti = TraceInfo::new_multi_segment(width, auxw, if auxw > 0 { 1 } else { 0 }, n, vec![]);
            let ctx = AirContext::<F>::new_multi_segment(
                ti,
                vec![TransitionConstraintDegree::new(1)],
                if auxw > 0 { vec![TransitionConstraintDegree::new(1)] } else { vec![] },
                ma.len(),
                aa.len(),
                None,
                options(2),
            );
            (BoundaryConstraints::<F>::new(&ctx, ma, aa, &cc), None)
        } else if t[0] == "prepc" {
            let ctx = AirContext::<F>::new(TraceInfo::new(width, n), vec![TransitionConstraintDegree::new(1)], declared, options(2));
            (BoundaryConstraints::<F>::new(&ctx, ma, vec![], &cc), None)
        } else {
            let ctx = AirContext::<F>::new(TraceInfo::new(width, n), vec![TransitionConstraintDegree::new(1)], declared, options(2));
            let direct = BoundaryConstraints::<F>::new(&ctx, ma.clone(), vec![], &cc);
            // the same through the Air trait's default method
            let air = TinyAir::<F>::new(TraceInfo::new(width, n), TinyPub(ma), options(2));
            (direct, Some(air.get_boundary_constraints::<F>(None, &cc)))
        }
    });
    let (bcs, via_air) = match built {
        Ok(b) => b,
        Err(info) => {
            let mut o = Outcome::ok("panic");
            if expect_ok {
                o = o.fail(format!("{}.prep.rejects-valid", F::NAME), info);
            }
            return o;
        },
    };
    let mut o = Outcome::ok("");
    if !expect_ok {
        return o.fail(
            format!("{}.prep.accepts-invalid", F::NAME),
            "an ill-formed, out-of-range, overlapping or miscounted assertion set was accepted",
        );
    }
    let ms = describe_groups::<F, _>(
        &mut o,
        bcs.main_constraints(),
        |g| g.divisor(),
        |g| g.constraints().iter().map(|c| c.column()).collect(),
        |g, st, x| g.evaluate_at(st, x),
        main,
        0,
        n,
        width,
        "prep",
    );
    if let Some(a) = via_air {
        let mut o2 = Outcome::ok("");
        let ms2 = describe_groups::<F, _>(
            &mut o2,
            a.main_constraints(),
            |g| g.divisor(),
            |g| g.constraints().iter().map(|c| c.column()).collect(),
            |g, st, x| g.evaluate_at(st, x),
            main,
            0,
            n,
            width,
            "prep",
        );
        if ms2 != ms {
            o.fails.push((format!("{}.prep.air-route", F::NAME), "Air::get_boundary_constraints differs from BoundaryConstraints::new".into()));
        }
    }
    if t[0] == "prepa" {
        let xs = describe_groups::<F, _>(
            &mut o,
            bcs.aux_constraints(),
            |g| g.divisor(),
            |g| g.constraints().iter().map(|c| c.column()).collect(),
            |g, st, x| g.evaluate_at(st, x),
            aux,
            main.len(),
            n,
            auxw.max(1),
            "prepa",
        );
        o.out = format!("ok {} | {}", ms, xs);
    } else {
        o.out = format!("ok {}", ms);
    }
    o
}

// ------------------------------------------------------------------------------ constructors
fn exec_mk(t: &[&str]) -> Outcome {
    type F = f128::BaseElement;
    let d = Desc::parse(t[1]).unwrap();
    let n: usize = t[2].parse().unwrap();
    let width: usize = t[3].parse().unwrap();
    let a = match guarded(|| d.build::<F>(0)) {
        Ok(a) => a,
        Err(info) => {
            let mut o = Outcome::ok("panic");
            if d.wf() {
                o = o.fail("mk.ctor.rejects-wellformed", info);
            }
            return o;
        },
    };
    let mut o = Outcome::ok("");
    if !d.wf() {
        o.fails.push(("mk.ctor.accepts-illformed".into(), format!("{} was constructed", d.s())));
    }
    let steps = d.steps(n);
    let w = a.validate_trace_width(width);
    if w.is_ok() != (d.col < width) {
        o.fails.push(("mk.width".into(), format!("{} width {}: accepted={}", d.s(), width, w.is_ok())));
    }
    let l = guarded(|| a.validate_trace_length(n));
    let ls = match &l {
        Ok(Ok(())) => "ok",
        Ok(Err(AssertionError::TraceLengthNotPowerOfTwo(_))) => "notpow2",
        Ok(Err(AssertionError::TraceLengthTooShort(_, _))) => "short",
        Ok(Err(AssertionError::TraceLengthNotExact(_, _))) => "inexact",
        Ok(Err(_)) => "err",
        Err(_) => "panic",
    };
    if d.wf() && (ls == "ok") != steps.is_some() {
        o.fails.push((
            "mk.length".into(),
            format!("{} n={}: validate_trace_length={} but the assertion {} steps inside the trace", d.s(), n, ls, if steps.is_some() { "names" } else { "does not name" }),
        ));
    }
    let k = guarded(|| a.get_num_steps(n));
    let ks = match &k {
        Ok(k) => k.to_string(),
        Err(_) => "panic".into(),
    };
    let ap = guarded(|| {
        let mut v = vec![];
        a.apply(n, |s, x| v.push((s, x.canon())));
        v
    });
    let aps = match &ap {
        Ok(v) => {
            let mut h = 0u128;
            for (s, x) in v {
                h = hstep(hstep(h, *s as u128), *x);
            }
            format!("{}:{}", v.len(), h)
        },
        Err(_) => "panic".into(),
    };
    if d.wf() {
        match (&steps, &k, &ap) {
            (Some(st), Ok(k), Ok(v)) => {
                let exp: Vec<(usize, u128)> = st.list().iter().enumerate().map(|(j, s)| (*s, d.value_at(0, j, F::MOD))).collect();
                if *k != st.len() || *v != exp {
                    o.fails.push(("mk.apply".into(), format!("{} n={}: get_num_steps {} apply {:?} expected {:?}", d.s(), n, k, v, exp)));
                }
            },
            (None, Err(_), Err(_)) => {},
            _ => o.fails.push(("mk.refusal".into(), format!("{} n={}: get_num_steps={} apply={}", d.s(), n, ks, aps))),
        }
    }
    // a one-value sequence is the single assertion at its first step
    if d.kind == 'q' && d.count == 1 && a != Assertion::single(d.col, d.first, F::from_word(val(0, 0))) {
        o.fails.push(("mk.seq1".into(), "one-value sequence differs from the single assertion".into()));
    }
    o.out = format!("ok {} {} w={} l={} k={} ap={}", a.stride(), a.values().len(), if w.is_ok() { "ok" } else { "err" }, ls, ks, aps);
    o
}

// ------------------------------------------------------------------------------ overlaps
fn oracle_overlap(a: &Desc, b: &Desc, n: usize) -> Option<bool> {
    let (sa, sb) = (a.steps(n)?, b.steps(n)?);
    Some(a.col == b.col && sa.intersects(&sb))
}

fn exec_overlap(t: &[&str]) -> Outcome {
    type F = f128::BaseElement;
    let n: usize = t[1].parse().unwrap();
    let a = Desc::parse(t[2]).unwrap();
    let mk = |d: &Desc| guarded(|| d.build::<F>(1));
    let ia = match mk(&a) {
        Ok(x) => x,
        Err(_) => return Outcome::ok("ctor-panic"),
    };
    let mut o = Outcome::ok("");
    let mut judge = |o: &mut Outcome, b: &Desc, ib: &Assertion<F>| -> bool {
        let ab = ia.overlaps_with(ib);
        let ba = ib.overlaps_with(&ia);
        if let Some(exp) = oracle_overlap(&a, b, n) {
            if ab != exp || ba != exp {
                o.fails.push((
                    "overlap.mismatch".into(),
                    format!("n={} {} vs {}: overlaps_with={} reverse={} but a common cell exists={}", n, a.s(), b.s(), ab, ba, exp),
                ));
            }
        }
        if ab != ba {
            o.fails.push(("overlap.asymmetric".into(), format!("n={} {} vs {}: {} / {}", n, a.s(), b.s(), ab, ba)));
        }
        ab
    };
    if t[0] == "overlap" {
        let b = Desc::parse(t[3]).unwrap();
        let ib = match mk(&b) {
            Ok(x) => x,
            Err(_) => return Outcome::ok("ctor-panic"),
        };
        let ab = judge(&mut o, &b, &ib);
        let ba = ib.overlaps_with(&ia);
        o.out = format!("{} {}", ab as u8, ba as u8);
    } else {
        let mut bs = vec![];
        for b in all_valid(n, 0) {
            let ib = b.build::<F>(2);
            bs.push(judge(&mut o, &b, &ib));
        }
        o.out = format!("cnt={} bits={}", bs.iter().filter(|b| **b).count(), bits(&bs));
    }
    o
}

// ------------------------------------------------------------------------------ exemption bounds
fn parse_degree(s: &str) -> (usize, Vec<usize>) {
    let p: Vec<usize> = s.split(':').map(|x| x.parse().unwrap()).collect();
    (p[0], p[1..].to_vec())
}

fn exec_exempt(t: &[&str]) -> Outcome {
    type F = f128::BaseElement;
    let n: usize = t[1].parse().unwrap();
    let e: usize = t[2].parse().unwrap();
    let blowup: usize = t[3].parse().unwrap();
    let degs: Vec<(usize, Vec<usize>)> = t[4..].iter().map(|s| parse_degree(s)).collect();
    // oracle
    let ceb = degs.iter().map(|(b, c)| (b + c.len() - 1).next_power_of_two().max(2)).max().unwrap_or(2);
    let ctx_ok = n >= 8 && n.is_power_of_two() && blowup >= ceb && !degs.is_empty();
    let evald = |d: &(usize, Vec<usize>)| d.0 * (n - 1) + d.1.iter().map(|c| (n / c) * (c - 1)).sum::<usize>();
    // composition degree evald - (n - e) must stay below the size of the constraint evaluation domain
    let fits = degs.iter().all(|d| evald(d) + e <= n * ceb - 1 + n);
    let exp_ok = e >= 1 && e <= n / 2 + 1 && fits;
    let ctx = guarded(|| {
        AirContext::<F>::new(
            TraceInfo::new(1, n),
            degs.iter().map(|(b, c)| TransitionConstraintDegree::with_cycles(*b, c.clone())).collect(),
            1,
            options(blowup),
        )
    });
    let ctx = match ctx {
        Ok(c) => c,
        Err(info) => {
            let mut o = Outcome::ok("ctx-panic");
            if ctx_ok {
                o = o.fail("exempt.ctx.panic", info);
            }
            return o;
        },
    };
    let mut o = Outcome::ok("");
    if ctx.num_transition_exemptions() != 1 {
        o.fails.push(("exempt.default".into(), "default number of exemptions is not 1".into()));
    }
    let ctx = match guarded(|| ctx.set_num_transition_exemptions(e)) {
        Ok(c) => c,
        Err(info) => {
            o.out = "panic".into();
            if exp_ok {
                o = o.fail("exempt.rejects-valid", format!("n={} e={}: {}", n, e, info));
            }
            return o;
        },
    };
    if !exp_ok {
        o.fails.push(("exempt.accepts-invalid".into(), format!("n={} e={} degrees {:?} accepted", n, e, degs)));
    }
    let cc: Vec<F> = degs.iter().map(|_| F::ONE).collect();
    let tc = TransitionConstraints::<F>::new(&ctx, &cc);
    let d = tc.divisor();
    if *d != ConstraintDivisor::<F>::from_transition(n, e) || d.degree() != n - e || d.exemptions().len() != e {
        o.fails.push(("exempt.divisor".into(), format!("n={} e={}: the context's transition divisor is not from_transition(n, e)", n, e)));
    }
    // the composition polynomial has degree max evalDegree - (n - e): it needs ceil((deg + 1) / n) columns
    {
        let deg = degs.iter().map(|d| evald(d)).max().unwrap() - (n - e);
        let cols = ctx.num_constraint_composition_columns();
        if cols * n < deg + 1 || (cols > 1 && (cols - 1) * n >= deg + 1) {
            o.fails.push(("exempt.columns".into(), format!("n={} e={} degrees {:?}: composition degree {} but {} columns", n, e, degs, deg, cols)));
        }
    }
    o.out = format!(
        "ok {} {} {} cols={}",
        ctx.num_transition_exemptions(),
        d.degree(),
        d.exemptions().len(),
        ctx.num_constraint_composition_columns()
    );
    o
}

// ------------------------------------------------------------------------------ generators
fn pow2s(lo: usize, hi: usize) -> Vec<usize> {
    let mut v = vec![];
    let mut n = lo;
    while n <= hi {
        v.push(n);
        n *= 2;
    }
    v
}

fn off_domain_points<F: Fld>(rng: &mut Rng, n: usize) -> Vec<u128> {
    let m = F::MOD;
    let mut v = vec![0u128, 2, 3, m - 1, F::GENERATOR.canon()];
    // points of the twice larger domain that are not in the trace domain, and a coset point
    if n >= 1 && (2 * n).ilog2() <= F::TWO_ADICITY {
        let g2 = F::get_root_of_unity((2 * n).ilog2()).canon();
        v.push(g2);
        v.push(powmod(g2, (2 * n - 1) as u128, m));
        v.push(mulmod(F::GENERATOR.canon(), powmod(g2, 2, m), m));
    }
    v.push(rng.u128() % m);
    v
}

fn gen_f<F: Fld>(rng: &mut Rng, tier: Tier, emit: &mut dyn FnMut(String)) {
    let f = F::NAME;
    let m = F::MOD;
    let maxn = if tier == Tier::Quick { 64 } else { 256 };
    let lens = pow2s(8, maxn);
    // ---- transition divisors
    for &n in &[1usize, 2, 4] {
        // the Lagrange-kernel route: from_transition(2^i, 0); plus everything else small
        for e in 0..=n + 1 {
            emit(format!("{} tdivs {} {}", f, n, e));
        }
    }
    for &n in &lens {
        let g = F::get_root_of_unity(n.ilog2()).canon();
        let mut es: Vec<usize> = (0..=n / 2 + 3).collect();
        es.extend([n - 1, n, n + 1]);
        for &e in &es {
            emit(format!("{} tdivs {} {}", f, n, e));
            if e <= n {
                for x in off_domain_points::<F>(rng, n) {
                    emit(format!("{} tdivx {} {} {}", f, n, e, x));
                }
            }
            if n <= 64 && e <= n / 2 + 1 {
                for i in 0..n {
                    emit(format!("{} tdivx {} {} {}", f, n, e, powmod(g, i as u128, m)));
                }
            }
        }
    }
    // enforcement domains far beyond the exhaustive range (cheap: a handful of exponentiations)
    for k in [16u32, 31, 32, 33, 39, 40] {
        let n = 1usize << k;
        for e in [0usize, 1, 2] {
            let mut xs = vec![2u128, 3, rng.u128() % m];
            if k <= F::TWO_ADICITY {
                let g = F::get_root_of_unity(k).canon();
                xs.push(g);
                xs.push(powmod(g, (n - 1) as u128, m));
                xs.push(powmod(g, (n - 3) as u128, m));
            }
            for x in xs {
                emit(format!("{} tdivx {} {} {}", f, n, e, x));
            }
        }
    }
    // ---- assertion divisors and value polynomials
    for &n in &[1usize, 2, 4] {
        for d in all_valid(n, 0) {
            emit(format!("{} adivs {} {}", f, d.s(), n));
        }
    }
    for &n in &lens {
        let g = F::get_root_of_unity(n.ilog2()).canon();
        let mut all = all_valid(n, 0);
        // one-value sequences (stored as single assertions)
        for stride in pow2s(2, n) {
            for first in [0, 1, stride - 1] {
                if first < stride {
                    all.push(Desc { kind: 'q', col: (stride % 3), first, stride, count: 1 });
                }
            }
        }
        for (di, d) in all.iter().enumerate() {
            let seed = rng.below(1 << 20);
            emit(format!("{} adivs {} {}", f, d.s(), n));
            emit(format!("{} bvals {} {} {}", f, d.s(), seed, n));
            // structured values: all-zero, constant, alternating, single non-zero, word beyond the modulus, runs
            if d.kind == 'q' || di % 16 == 0 {
                let pat = PAT + (di as u128 + d.first as u128) % NPAT;
                emit(format!("{} bvals {} {} {}", f, d.s(), pat, n));
                if n <= 16 && d.kind == 'q' {
                    for p in 0..NPAT {
                        emit(format!("{} bvals {} {} {}", f, d.s(), PAT + p, n));
                    }
                }
            }
            for x in off_domain_points::<F>(rng, n).into_iter().take(if n <= 16 { 9 } else { 2 }) {
                emit(format!("{} adivx {} {} {}", f, d.s(), n, x));
                emit(format!("{} bvalx {} {} {} {}", f, d.s(), seed, n, x));
            }
            if n <= 16 {
                for i in 0..n {
                    emit(format!("{} adivx {} {} {}", f, d.s(), n, powmod(g, i as u128, m)));
                    emit(format!("{} bvalx {} {} {} {}", f, d.s(), seed, n, powmod(g, i as u128, m)));
                }
            }
        }
        // invalid for this length
        for d in [
            Desc { kind: 's', col: 0, first: n, stride: 0, count: 1 },
            Desc { kind: 'p', col: 0, first: 1, stride: 2 * n, count: 1 },
            Desc { kind: 'q', col: 0, first: 0, stride: 2, count: n },
            Desc { kind: 'q', col: 0, first: 0, stride: 4, count: n / 2 },
            Desc { kind: 'q', col: 0, first: 1, stride: 2, count: n / 4 },
            Desc { kind: 'p', col: 0, first: 3, stride: 3, count: 1 },
        ] {
            emit(format!("{} adivs {} {}", f, d.s(), n));
            emit(format!("{} bvals {} 5 {}", f, d.s(), n));
        }
    }
    for k in [31u32, 32, 33, 34] {
        // assertion divisors of very long traces (degree = number of steps)
        let n = 1usize << k;
        for d in [
            Desc { kind: 's', col: 0, first: n - 1, stride: 0, count: 1 },
            Desc { kind: 'p', col: 0, first: 0, stride: 2, count: 1 },
            Desc { kind: 'p', col: 0, first: 1, stride: 2, count: 1 },
            Desc { kind: 'p', col: 0, first: 1, stride: 4, count: 1 },
            Desc { kind: 'p', col: 0, first: 5, stride: n, count: 1 },
        ] {
            for x in [2u128, 3, rng.u128() % m] {
                emit(format!("{} adivx {} {} {}", f, d.s(), n, x));
            }
        }
    }
    // ---- prepare_assertions + grouping: structured lists
    for &n in &lens {
        let pool = all_valid(n, 0);
        // every ordered pair (both orders are generated) in the same and in different columns
        let full = if tier == Tier::Quick {
            n == 8 && f == "f64"
        } else {
            n <= 16 || (n == 32 && f == "f64")
        };
        let wcol = |d: &Desc, c: usize| Desc { col: c, ..*d };
        if full {
            for a in &pool {
                for b in &pool {
                    emit(format!("{} prep {} 2 {} {}", f, n, a.s(), b.s()));
                    emit(format!("{} prep {} 2 {} {}", f, n, a.s(), wcol(b, 1).s()));
                    emit(format!("{} prep {} 2 {} {}", f, n, wcol(a, 1).s(), b.s()));
                }
            }
        } else {
            let cnt = if tier == Tier::Thorough { 3000 } else if n == 8 { 800 } else if n == 16 { 1200 } else { 400 };
            for _ in 0..cnt {
                let (a, b) = (*rng.pick(&pool), *rng.pick(&pool));
                let (ca, cb) = *rng.pick(&[(0usize, 0usize), (0, 1), (1, 0)]);
                emit(format!("{} prep {} 2 {} {}", f, n, wcol(&a, ca).s(), wcol(&b, cb).s()));
            }
        }
        // triples in all six orders: two disjoint assertions and a third one that overlaps exactly one
        // of them / none of them / is a duplicate; same key in three columns; equal strides; nested progressions
        let perms: [[usize; 3]; 6] = [[0, 1, 2], [0, 2, 1], [1, 0, 2], [1, 2, 0], [2, 0, 1], [2, 1, 0]];
        let ntr = if tier == Tier::Quick { 60 } else { 600 };
        let mut made = 0;
        let mut tries = 0;
        while made < ntr && tries < 100 * ntr {
            tries += 1;
            let a = *rng.pick(&pool);
            let b = *rng.pick(&pool);
            if oracle_overlap(&a, &b, n) != Some(false) {
                continue;
            }
            let c = match rng.below(4) {
                0 => a,                                     // duplicate of one member
                1 => wcol(&a, 1),                           // same key, other column
                _ => *rng.pick(&pool),
            };
            let kind = (oracle_overlap(&a, &c, n) == Some(true)) as u8 + 2 * (oracle_overlap(&b, &c, n) == Some(true)) as u8;
            if rng.below(4) != 0 && kind == 3 {
                continue; // prefer "overlaps exactly one" and "overlaps none"
            }
            made += 1;
            let tr = [a, b, c];
            for pm in &perms {
                emit(format!("{} prep {} 2 {} {} {}", f, n, tr[pm[0]].s(), tr[pm[1]].s(), tr[pm[2]].s()));
            }
        }
        // the same shape on every column of a wider trace, columns in descending and mixed order
        let mut stride = 2;
        while stride <= n {
            for first in [0, 1, stride - 1] {
                if first >= stride {
                    continue;
                }
                let p = Desc { kind: 'p', col: 0, first, stride, count: 1 };
                let q = Desc { kind: 'q', col: 0, first, stride, count: n / stride };
                let mut v = vec![wcol(&p, 3), wcol(&p, 0), wcol(&p, 2)];
                if stride < n {
                    v.push(wcol(&q, 1));
                    v.push(wcol(&q, 4));
                    // sequences with different numbers of values in one list (twiddle cache)
                    let q2 = Desc { kind: 'q', col: 5, first: 0, stride: 2 * stride, count: n / (2 * stride) };
                    if q2.count >= 2 {
                        v.push(q2);
                    }
                    let q3 = Desc { kind: 'q', col: 6, first: 1, stride: 2, count: n / 2 };
                    v.push(q3);
                }
                emit(format!("{} prep {} 7 {}", f, n, v.iter().map(|d| d.s()).collect::<Vec<_>>().join(" ")));
                v.reverse();
                emit(format!("{} prep {} 7 {}", f, n, v.iter().map(|d| d.s()).collect::<Vec<_>>().join(" ")));
            }
            stride *= 2;
        }
        // singles and one-value sequences with the same key
        emit(format!("{} prep {} 3 s:0:5:0:1 q:1:5:8:1 s:2:5:0:1", f, n));
        emit(format!("{} prep {} 3 q:1:5:8:1 s:1:5:0:1", f, n));
        // declared number of assertions / number of coefficients differ from the list
        for (decl, nc) in [(2usize, 2usize), (1, 2), (3, 2), (2, 1), (2, 3), (0, 2)] {
            emit(format!("{} prepc {} 2 {} {} s:0:1:0:1 p:1:0:2:1", f, n, decl, nc));
        }
        // auxiliary segment: its own width, assertions after the main ones
        for (mw, aw) in [(1usize, 1usize), (3, 1), (1, 3), (2, 2)] {
            for ac in 0..=aw {
                emit(format!("{} prepa {} {} {} 2 s:0:0:0:1 p:{}:1:2:1 q:{}:1:2:{} p:{}:0:4:1", f, n, mw, aw, mw - 1, ac, n / 2, aw.saturating_sub(1)));
                emit(format!("{} prepa {} {} {} 1 q:{}:0:4:{} s:{}:0:0:1 p:{}:3:4:1", f, n, mw, aw, mw - 1, n / 4, ac, ac));
            }
        }
        emit(format!("{} prepa {} 2 0 2 s:0:1:0:1 p:1:1:2:1", f, n));
        emit(format!("{} prepa {} 2 0 1 s:0:1:0:1 p:0:1:2:1", f, n));
        emit(format!("{} prepa {} 2 2 2 s:0:1:0:1 p:1:1:2:1", f, n));
    }
    // long traces through the same entry points (lengths beyond 2^8 and 2^16)
    for n in [512usize, 1 << 16, 1 << 17] {
        for d in [
            Desc { kind: 's', col: 0, first: n - 1, stride: 0, count: 1 },
            Desc { kind: 'p', col: 0, first: 1, stride: n / 2, count: 1 },
            Desc { kind: 'q', col: 0, first: 3, stride: n / 2, count: 2 },
            Desc { kind: 'q', col: 0, first: 5, stride: n / 8, count: 8 },
            Desc { kind: 'p', col: 0, first: n - 1, stride: n, count: 1 },
            Desc { kind: 'q', col: 0, first: n / 2 - 1, stride: n / 2, count: 2 },
            Desc { kind: 'p', col: 0, first: n / 4 + 1, stride: n / 2, count: 1 },
        ] {
            let g = F::get_root_of_unity(n.ilog2()).canon();
            for x in [3u128, powmod(g, d.first as u128, m), powmod(g, (d.first + d.stride) as u128, m)] {
                emit(format!("{} adivx {} {} {}", f, d.s(), n, x));
                emit(format!("{} bvalx {} 9 {} {}", f, d.s(), n, x));
            }
        }
        emit(format!("{} prep {} 2 s:0:{}:0:1 p:1:1:{}:1 q:0:3:{}:4 q:1:3:{}:4", f, n, n - 1, n / 2, n / 4, n / 4));
        emit(format!("{} prep {} 2 q:0:3:{}:4 s:0:{}:0:1", f, n, n / 4, 3 + n / 2));
    }
    // ---- prepare_assertions + grouping: random lists
    let nprep = if tier == Tier::Quick { 150 } else { 1500 };
    for &n in &lens {
        let pool: Vec<Desc> = all_valid(n, 0);
        for it in 0..nprep {
            let width = rng.range(1, 4) as usize;
            let cnt = rng.range(1, 6) as usize;
            let mut ds: Vec<Desc> = vec![];
            let mode = rng.below(8);
            for _ in 0..cnt {
                let mut d = *rng.pick(&pool);
                d.col = rng.below(width as u64) as usize;
                if mode >= 3 {
                    // keep the set disjoint (most cases): drop candidates that hit an earlier one
                    if ds.iter().any(|x| oracle_overlap(x, &d, n) == Some(true)) {
                        continue;
                    }
                }
                ds.push(d);
            }
            if mode == 0 {
                // one malformed / out-of-range member
                let bad = *rng.pick(&[
                    Desc { kind: 's', col: 0, first: n, stride: 0, count: 1 },
                    Desc { kind: 's', col: width, first: 0, stride: 0, count: 1 },
                    Desc { kind: 'p', col: 0, first: 0, stride: 2 * n, count: 1 },
                    Desc { kind: 'q', col: 0, first: 0, stride: 2, count: n / 4 },
                    Desc { kind: 'q', col: 0, first: 0, stride: 2, count: 3 },
                    Desc { kind: 'p', col: 0, first: 2, stride: 2, count: 1 },
                ]);
                ds.push(bad);
            }
            if ds.is_empty() {
                continue;
            }
            emit(format!("{} prep {} {} {}", f, n, width, ds.iter().map(|d| d.s()).collect::<Vec<_>>().join(" ")));
        }
    }
}

fn gen_common(rng: &mut Rng, tier: Tier, emit: &mut dyn FnMut(String)) {
    let maxn = if tier == Tier::Quick { 64 } else { 256 };
    let lens = pow2s(8, maxn);
    // ---- constructors and validation
    for &n in pow2s(1, maxn).iter() {
        for col in [0usize, 2] {
            for d in all_valid(n, col) {
                emit(format!("mk {} {} {}", d.s(), n, 3));
                if d.first <= 1 {
                    // column vs trace width on both sides of the bound
                    for w in [col.saturating_sub(1), col, col + 1, col + 2] {
                        emit(format!("mk {} {} {}", d.s(), n, w));
                    }
                }
                // the same assertion against other trace lengths / widths
                if d.first % 5 == 0 {
                    for n2 in [n / 2, 2 * n, n + 1, 0, 3 * n] {
                        emit(format!("mk {} {} {}", d.s(), n2, col));
                    }
                }
            }
        }
    }
    let strides = [0usize, 1, 2, 3, 4, 5, 6, 7, 8, 12, 16, 24, 32, 33, 64, 96, 128, 255, 256, 257, 512, 1 << 20, (1 << 20) + 1];
    let counts = [0usize, 1, 2, 3, 4, 5, 6, 7, 8, 9, 16, 17, 32, 48, 64, 128, 129, 256];
    for &stride in &strides {
        for first in [0usize, 1, 2, 3, stride.saturating_sub(1), stride, stride + 1, 2 * stride + 1] {
            for &n in &[8usize, 16, 64, 256, 24, 0] {
                emit(format!("mk p:0:{}:{}:1 {} 1", first, stride, n));
            }
            for &count in &counts {
                let n = *rng.pick(&[8usize, 16, 32, 64, 128, 256, stride.saturating_mul(count).min(1 << 30), 12]);
                emit(format!("mk q:1:{}:{}:{} {} 2", first, stride, count, n));
            }
        }
    }
    for first in [0usize, 1, 7, 8, 9, 255, 256, 257, 1 << 40] {
        for &n in &[0usize, 1, 2, 8, 9, 256, 1 << 41] {
            emit(format!("mk s:0:{}:0:1 {} 1", first, n));
        }
    }
    // ---- overlaps: every assertion against every other (aggregated), pairs as single lines for small n
    for &n in &lens {
        for col in [0usize, 1] {
            for a in all_valid(n, col) {
                emit(format!("ovall {} {}", n, a.s()));
            }
        }
        let pair_limit = if tier == Tier::Quick { 16 } else { 32 };
        let all = all_valid(n, 0);
        if n <= pair_limit {
            for a in &all {
                for b in &all {
                    emit(format!("overlap {} {} {}", n, a.s(), b.s()));
                }
            }
        } else {
            for _ in 0..4000 {
                let (a, mut b) = (*rng.pick(&all), *rng.pick(&all));
                if rng.chance(1, 8) {
                    b.col = 1;
                }
                emit(format!("overlap {} {} {}", n, a.s(), b.s()));
            }
        }
        // one-value sequences against everything
        for stride in pow2s(2, n) {
            let a = Desc { kind: 'q', col: 0, first: stride - 1, stride, count: 1 };
            emit(format!("ovall {} {}", n, a.s()));
        }
    }
    // ---- exemption bounds
    let degsets: [&[&str]; 17] = [
        &["3", "2"],
        &["5", "1", "2"],
        &["2:8:4"],
        &["1"],
        &["2"],
        &["3"],
        &["4"],
        &["5"],
        &["6"],
        &["7"],
        &["8"],
        &["9"],
        &["2", "3"],
        &["1", "5"],
        &["2:2"],
        &["2:4:8"],
        &["1:2:2:2:2"],
    ];
    for n in [512usize, 1 << 16] {
        for e in [0usize, 1, 2, 3, n / 2, n / 2 + 1, n / 2 + 2] {
            for ds in [["1"], ["2"], ["3"]] {
                // building 2^15 exemption points is slow in the model: one degree set for the large counts
                if n == 512 || e <= 3 || ds == ["2"] {
                    emit(format!("exempt {} {} 8 {}", n, e, ds.join(" ")));
                }
            }
        }
    }
    for &n in &lens {
        let mut es: Vec<usize> = (0..=n / 2 + 3).collect();
        es.extend([n - 1, n, n + 1, 2 * n]);
        for ds in &degsets {
            for blowup in [2usize, 4, 8, 16] {
                // quick: all exemption counts for blowup = 8, a sample for the other blowups
                for &e in &es {
                    if blowup == 8 || e <= 5 || e + 2 >= n / 2 && e <= n / 2 + 3 {
                        emit(format!("exempt {} {} {} {}", n, e, blowup, ds.join(" ")));
                    }
                }
            }
        }
    }
}

impl Prop for P {
    fn id(&self) -> &'static str {
        "C16"
    }
    fn gen(&self, rng: &mut Rng, tier: Tier, _n: usize, emit: &mut dyn FnMut(String)) {
        // the lines are generated by section and then shuffled (seeded), so that the contiguous chunks
        // the workers and the model driver take are equally expensive
        let mut lines: Vec<String> = vec![];
        {
            let mut push = |l: String| lines.push(l);
            gen_common(rng, tier, &mut push);
            gen_f::<f64::BaseElement>(rng, tier, &mut push);
            gen_f::<f62::BaseElement>(rng, tier, &mut push);
            gen_f::<f128::BaseElement>(rng, tier, &mut push);
        }
        for i in (1..lines.len()).rev() {
            let j = rng.below(i as u64 + 1) as usize;
            lines.swap(i, j);
        }
        for l in lines {
            emit(l);
        }
    }
    fn exec(&self, line: &str) -> Outcome {
        let t: Vec<&str> = line.split(' ').collect();
        fn field_op<F: AFld>(t: &[&str]) -> Outcome {
            match t[0] {
                "tdivx" | "tdivs" => exec_tdiv::<F>(t),
                "adivx" | "adivs" => exec_adiv::<F>(t),
                "bvalx" | "bvals" => exec_bval::<F>(t),
                "prep" | "prepc" | "prepa" => exec_prep::<F>(t),
                _ => Outcome::ok("bad-op"),
            }
        }
        match t[0] {
            "f64" => field_op::<f64::BaseElement>(&t[1..]),
            "f62" => field_op::<f62::BaseElement>(&t[1..]),
            "f128" => field_op::<f128::BaseElement>(&t[1..]),
            "mk" => exec_mk(&t),
            "overlap" | "ovall" => exec_overlap(&t),
            "exempt" => exec_exempt(&t),
            _ => Outcome::ok("bad-op"),
        }
    }
    fn timeout_ms(&self) -> u64 {
        20_000
    }
    fn panic_site(&self, line: &str) -> Option<String> {
        // every expected refusal is caught inside exec; a panic that escapes is unexpected
        let t: Vec<&str> = line.split(' ').collect();
        let op = if t[0].starts_with('f') && t.len() > 1 { t[1] } else { t[0] };
        Some(format!("{}.unexpected-panic", op))
    }
    fn class(&self, line: &str, out: &str) -> String {
        let t: Vec<&str> = line.split(' ').collect();
        let op = if t[0].starts_with('f') && t.len() > 1 { format!("{}.{}", t[0], t[1]) } else { t[0].to_string() };
        let o = if out.starts_with("panic") || out.starts_with("ctor-panic") || out.starts_with("ctx-panic") {
            "refused"
        } else if out == "hang" || out == "abort" {
            out
        } else {
            "ok"
        };
        format!("{}:{}", op, o)
    }
    fn rule(&self) -> &'static str {
        "exhaustive over trace lengths 8..64 (quick) / 8..256 (thorough): every exemption count 0..n/2+3 (and n-1, n, n+1), every assertion \
         shape (single / periodic / sequence, every first step and stride) valid for the length, every ordered pair of them, over the three \
         base fields; each transition/assertion divisor and value polynomial is evaluated at every trace-domain point (aggregated lines) \
         and at off-domain points; plus ill-formed constructor arguments, wrong trace lengths/widths, random assertion sets through \
         BoundaryConstraints::new, exemption bounds with constraint degrees 1..9, and enforcement domains up to 2^40; a case is \
         non-trivial when its op line is distinct"
    }
}

fn main() {
    wf_harness::core::main_for(&P);
}
