//! C19: public coin contract.  Op lines mirror lean/Winter/Drv/C19.lean.
//!   run HASHER FIELD SEED OP...            HASHER toy0|toy1|toy2 (modelled) | b3_256|b3_192|sha3|rp64|rpj64|rp62 (oracle only)
//!   oracle HASHER FIELD SEED TABLE OP...   a real hasher, with its digests recorded in TABLE so that the model replays the coin logic
//!     OP: rs:HEX reseed(H::hash(bytes)) | d:DEG draw | di:N:DOMAIN:NONCE draw_integers | lz:NONCE check_leading_zeros
//!         | gr:GF the prover's nonce search (first nonce in 1..=4096 with check_leading_zeros >= GF)
//!   bnd HASHER FIELD SEED OP...            after the history: check_leading_zeros / draw_integers / draws for every BOUNDARY nonce (0, 1, p-1, p, p+1,
//!                                          2p-1, 2p, .. for the three moduli, 2^32+-1, 2^62, 2^63, 2^64-1), compared pairwise (oracle only)
//!   pow FIELD HASHER GF                    an honest Fibonacci proof generated with grinding factor GF: the prover's nonce is accepted by
//!                                          verify() and every smaller nonce is refused with QuerySeedProofOfWorkVerificationFailed
//! Oracle (independent of the model): a shadow coin written here from the documentation (counter-mode expansion of the
//! seed, little-endian decode + `< M` per coordinate, masking, trailing zeros of the first 8 bytes), validity of every drawn
//! element (canonical coordinates, re-parses to the same element), count and range of the integers, determinism (two fresh
//! coins), and sensitivity probes (seed / reseed data / nonce / one more earlier draw change the next outputs).
#![allow(dead_code, unused_variables, unused_imports, unused_mut)]
use std::{collections::BTreeMap, marker::PhantomData};

use wf_harness::core::*;
use winter_crypto::{
    hashers::{Blake3_192, Blake3_256, Rp62_248, Rp64_256, RpJive64_256, Sha3_256},
    DefaultRandomCoin, Digest, ElementHasher, Hasher, RandomCoin,
};
use winter_math::{
    fields::{f128, f62, f64, CubeExtension, QuadExtension},
    ExtensibleField, FieldElement, StarkField,
};
use winter_air::{
    proof::Proof, Air, AirContext, Assertion, AuxRandElements, ConstraintCompositionCoefficients, EvaluationFrame,
    FieldExtension, ProofOptions, TraceInfo, TransitionConstraintDegree,
};
use winter_math::ToElements;
use winter_prover::{
    matrix::ColMatrix, DefaultConstraintEvaluator, DefaultTraceLde, Prover, StarkDomain, Trace, TracePolyTable, TraceTable,
};
use winter_utils::{ByteReader, ByteWriter, Deserializable, DeserializationError, Randomizable, Serializable};
use winter_verifier::{verify, AcceptableOptions, VerifierError};

pub struct P;

// ------------------------------------------------------------------------------------ toy hasher
#[derive(Debug, Default, Copy, Clone, PartialEq, Eq)]
pub struct D32([u8; 32]);
impl Digest for D32 {
    fn as_bytes(&self) -> [u8; 32] {
        self.0
    }
}
impl Serializable for D32 {
    fn write_into<W: ByteWriter>(&self, t: &mut W) {
        t.write_bytes(&self.0)
    }
}
impl Deserializable for D32 {
    fn read_from<R: ByteReader>(s: &mut R) -> Result<Self, DeserializationError> {
        Ok(D32(s.read_array()?))
    }
}

const TP: u64 = 1099511628211;
const TK: u64 = 11400714819323198485;

fn toy_mix(x: u64, y: u64) -> u64 {
    let z = x.wrapping_add(y).wrapping_mul(TK);
    z ^ (z >> 31)
}

/// the toy hash of lean/Winter/Model/Coin.lean (`Toy.hash`)
fn toy_hash(mode: u8, bytes: &[u8]) -> D32 {
    let mut s: [u64; 4] = [2611923443488327891, 1376283091369227076, 11820040416388919760, 589684135938649225];
    for (i, b) in bytes.iter().enumerate() {
        let j = i % 4;
        s[j] = (s[j] ^ *b as u64).wrapping_mul(TP);
        s[(j + 1) % 4] = s[(j + 1) % 4].wrapping_add(s[j]);
    }
    s[0] ^= bytes.len() as u64;
    for _ in 0..3 {
        s[0] = toy_mix(s[0], s[1]);
        s[1] = toy_mix(s[1], s[2]);
        s[2] = toy_mix(s[2], s[3]);
        s[3] = toy_mix(s[3], s[0]);
    }
    let mut out = [0u8; 32];
    if mode == 3 {
        // all-zero digests
    } else if mode == 2 || (mode == 1 && s[0] % 4 != 0) {
        out = [255u8; 32];
    } else {
        for k in 0..4 {
            out[8 * k..8 * k + 8].copy_from_slice(&s[k].to_le_bytes());
        }
    }
    D32(out)
}

pub struct ToyH<B: StarkField, const MODE: u8>(PhantomData<B>);
/// modes 0..3 act on every digest; modes 4 and 5 are mode 0 except that `merge_with_int(seed, v)` is all-ones
/// unless v is a multiple of 1000 (mode 4) / of 1001 (mode 5): a candidate is accepted exactly at the 1000th /
/// 1001st PRNG call, on and just beyond the retry budget of `draw`
const fn base_mode(mode: u8) -> u8 {
    if mode >= 4 {
        0
    } else {
        mode
    }
}
impl<B: StarkField, const MODE: u8> Hasher for ToyH<B, MODE> {
    type Digest = D32;
    const COLLISION_RESISTANCE: u32 = 0;
    fn hash(bytes: &[u8]) -> D32 {
        toy_hash(base_mode(MODE), bytes)
    }
    fn merge(v: &[D32; 2]) -> D32 {
        let mut b = v[0].0.to_vec();
        b.extend_from_slice(&v[1].0);
        toy_hash(base_mode(MODE), &b)
    }
    fn merge_with_int(s: D32, v: u64) -> D32 {
        if (MODE == 4 && v % 1000 != 0) || (MODE == 5 && v % 1001 != 0) {
            return D32([255u8; 32]);
        }
        let mut b = s.0.to_vec();
        b.extend_from_slice(&v.to_le_bytes());
        toy_hash(base_mode(MODE), &b)
    }
}
impl<B: StarkField, const MODE: u8> ElementHasher for ToyH<B, MODE> {
    type BaseField = B;
    fn hash_elements<E: FieldElement<BaseField = B>>(elements: &[E]) -> D32 {
        let mut b = vec![];
        for e in elements {
            b.extend_from_slice(&e.to_bytes());
        }
        toy_hash(base_mode(MODE), &b)
    }
}

// ------------------------------------------------------------------------------------ dispatch
trait Job {
    type Out;
    fn run<B, H>(self) -> Self::Out
    where
        B: StarkField + ExtensibleField<2> + ExtensibleField<3>,
        H: ElementHasher<BaseField = B> + Sync;
}

fn dispatch<J: Job>(hasher: &str, field: &str, j: J) -> Option<J::Out> {
    type A = f64::BaseElement;
    type B = f62::BaseElement;
    type C = f128::BaseElement;
    Some(match (hasher, field) {
        ("toy0", "f64") => j.run::<A, ToyH<A, 0>>(),
        ("toy1", "f64") => j.run::<A, ToyH<A, 1>>(),
        ("toy2", "f64") => j.run::<A, ToyH<A, 2>>(),
        ("toy3", "f64") => j.run::<A, ToyH<A, 3>>(),
        ("toy4", "f64") => j.run::<A, ToyH<A, 4>>(),
        ("toy5", "f64") => j.run::<A, ToyH<A, 5>>(),
        ("toy0", "f62") => j.run::<B, ToyH<B, 0>>(),
        ("toy1", "f62") => j.run::<B, ToyH<B, 1>>(),
        ("toy2", "f62") => j.run::<B, ToyH<B, 2>>(),
        ("toy3", "f62") => j.run::<B, ToyH<B, 3>>(),
        ("toy4", "f62") => j.run::<B, ToyH<B, 4>>(),
        ("toy5", "f62") => j.run::<B, ToyH<B, 5>>(),
        ("toy0", "f128") => j.run::<C, ToyH<C, 0>>(),
        ("toy1", "f128") => j.run::<C, ToyH<C, 1>>(),
        ("toy2", "f128") => j.run::<C, ToyH<C, 2>>(),
        ("toy3", "f128") => j.run::<C, ToyH<C, 3>>(),
        ("toy4", "f128") => j.run::<C, ToyH<C, 4>>(),
        ("toy5", "f128") => j.run::<C, ToyH<C, 5>>(),
        ("b3_256", "f64") => j.run::<A, Blake3_256<A>>(),
        ("b3_256", "f62") => j.run::<B, Blake3_256<B>>(),
        ("b3_256", "f128") => j.run::<C, Blake3_256<C>>(),
        ("b3_192", "f64") => j.run::<A, Blake3_192<A>>(),
        ("b3_192", "f62") => j.run::<B, Blake3_192<B>>(),
        ("b3_192", "f128") => j.run::<C, Blake3_192<C>>(),
        ("sha3", "f64") => j.run::<A, Sha3_256<A>>(),
        ("sha3", "f62") => j.run::<B, Sha3_256<B>>(),
        ("sha3", "f128") => j.run::<C, Sha3_256<C>>(),
        ("rp64", "f64") => j.run::<A, Rp64_256>(),
        ("rpj64", "f64") => j.run::<A, RpJive64_256>(),
        ("rp62", "f62") => j.run::<B, Rp62_248>(),
        _ => return None,
    })
}

const COMBOS: [(&str, &str); 12] = [
    ("b3_256", "f64"),
    ("b3_256", "f62"),
    ("b3_256", "f128"),
    ("b3_192", "f64"),
    ("b3_192", "f62"),
    ("b3_192", "f128"),
    ("sha3", "f64"),
    ("sha3", "f62"),
    ("sha3", "f128"),
    ("rp64", "f64"),
    ("rpj64", "f64"),
    ("rp62", "f62"),
];

fn modulus(field: &str) -> u128 {
    match field {
        "f64" => wf_harness::fields::M64,
        "f62" => wf_harness::fields::M62,
        _ => wf_harness::fields::M128,
    }
}

fn unhex_opt(s: &str) -> Option<Vec<u8>> {
    if s == "-" {
        return Some(vec![]);
    }
    if s.len() % 2 != 0 || !s.bytes().all(|c| c.is_ascii_hexdigit()) {
        return None;
    }
    Some(unhex(s))
}

fn parse_seed(s: &str) -> Option<Vec<u128>> {
    if s == "-" {
        return Some(vec![]);
    }
    s.split(',').map(|t| t.parse::<u128>().ok()).collect()
}

fn le_val(bytes: &[u8]) -> u128 {
    let mut v = 0u128;
    for (i, b) in bytes.iter().enumerate().take(16) {
        v |= (*b as u128) << (8 * i);
    }
    v
}

fn elem_of<B: StarkField>(v: u128) -> Option<B> {
    let bytes = v.to_le_bytes();
    if B::ELEMENT_BYTES < 16 && v >> (8 * B::ELEMENT_BYTES) != 0 {
        return None;
    }
    B::read_from_bytes(&bytes[..B::ELEMENT_BYTES]).ok()
}

// ------------------------------------------------------------------------------------ shadow coin (the oracle)
struct Shadow<H: ElementHasher> {
    seed: H::Digest,
    counter: u64,
    /// every hash evaluation, as "key=digest" (for the oracle table of the model)
    log: Vec<(String, String)>,
}

impl<H: ElementHasher> Shadow<H> {
    fn new(seed: &[H::BaseField], seed_ints: &[u128]) -> Self {
        let d = H::hash_elements(seed);
        let key = if seed_ints.is_empty() {
            "he:-".to_string()
        } else {
            format!("he:{}", seed_ints.iter().map(|x| x.to_string()).collect::<Vec<_>>().join(","))
        };
        Shadow { seed: d, counter: 0, log: vec![(key, hex(&d.as_bytes()))] }
    }
    fn mwi(&mut self, v: u64) -> H::Digest {
        let d = H::merge_with_int(self.seed, v);
        self.log.push((format!("mi:{}:{}", hex(&self.seed.as_bytes()), v), hex(&d.as_bytes())));
        d
    }
    fn next(&mut self) -> H::Digest {
        self.counter += 1;
        self.mwi(self.counter)
    }
    fn reseed_bytes(&mut self, bytes: &[u8]) {
        let data = H::hash(bytes);
        self.log.push((format!("h:{}", hex(bytes)), hex(&data.as_bytes())));
        let d = H::merge(&[self.seed, data]);
        let mut k = self.seed.as_bytes().to_vec();
        k.extend_from_slice(&data.as_bytes());
        self.log.push((format!("m:{}", hex(&k)), hex(&d.as_bytes())));
        self.seed = d;
        self.counter = 0;
    }
    fn reseed_digest(&mut self, data: H::Digest) {
        let d = H::merge(&[self.seed, data]);
        let mut k = self.seed.as_bytes().to_vec();
        k.extend_from_slice(&data.as_bytes());
        self.log.push((format!("m:{}", hex(&k)), hex(&d.as_bytes())));
        self.seed = d;
        self.counter = 0;
    }
    fn lz(&mut self, v: u64) -> u32 {
        let d = self.mwi(v);
        let head = le_val(&d.as_bytes()[..8]) as u64;
        let mut k = 0;
        while k < 64 && (head >> k) & 1 == 0 {
            k += 1;
        }
        k
    }
    /// expected outcome of draw: Ok(coordinates) | Err(()) after 1000 rejected candidates
    fn draw(&mut self, m: u128, eb: usize, deg: usize) -> Result<Vec<u128>, ()> {
        if eb * deg > 32 {
            // an element wider than a digest cannot be drawn: an error, never a panic
            return Err(());
        }
        for _ in 0..1000 {
            let d = self.next().as_bytes();
            let coords: Vec<u128> = (0..deg).map(|k| le_val(&d[k * eb..(k + 1) * eb])).collect();
            if coords.iter().all(|c| *c < m) {
                return Ok(coords);
            }
        }
        Err(())
    }
    /// expected outcome of draw_integers for a power-of-two domain and n < domain
    fn ints(&mut self, n: usize, dom: u64, nonce: u64) -> Result<Vec<u64>, ()> {
        self.seed = self.mwi(nonce);
        self.counter = 0;
        if n > 1000 {
            for _ in 0..1000 {
                self.next();
            }
            return Err(());
        }
        // n = 0: the documented contract (exactly n values) and the loop of the implementation differ;
        // judged separately by the caller
        let mut v = vec![];
        for _ in 0..n.max(1) {
            let d = self.next().as_bytes();
            v.push((le_val(&d[..8]) as u64) % dom);
        }
        Ok(v)
    }
}

// ------------------------------------------------------------------------------------ running a history
#[derive(Clone, Debug, PartialEq, Eq)]
enum Item {
    Unit,
    Elem(Vec<u128>),
    Ints(Vec<u64>),
    Num(u64),
    Grind(Option<u64>),
    Err,
    Panic(String),
}

fn item_str(i: &Item) -> String {
    match i {
        Item::Unit => "u".into(),
        Item::Elem(c) => format!("e:{}", c.iter().map(|x| x.to_string()).collect::<Vec<_>>().join(",")),
        Item::Ints(v) => format!("i:{}", v.iter().map(|x| x.to_string()).collect::<Vec<_>>().join(",")),
        Item::Num(n) => format!("n:{}", n),
        Item::Grind(Some(n)) => format!("g:{}", n),
        Item::Grind(None) => "g:none".into(),
        Item::Err => "err".into(),
        Item::Panic(_) => "panic".into(),
    }
}

fn coords_of<B: StarkField, E: FieldElement<BaseField = B>>(e: &E) -> Vec<u128> {
    e.to_bytes().chunks(B::ELEMENT_BYTES).map(le_val).collect()
}

/// draw one element of extension degree `deg` from the real coin; validity failures are appended to `fails`
fn draw_real<B, H>(coin: &mut DefaultRandomCoin<H>, deg: usize, fails: &mut Vec<(String, String)>) -> Item
where
    B: StarkField + ExtensibleField<2> + ExtensibleField<3>,
    H: ElementHasher<BaseField = B> + Sync,
{
    fn one<B: StarkField, H: ElementHasher<BaseField = B> + Sync, E: FieldElement<BaseField = B>>(
        coin: &mut DefaultRandomCoin<H>,
        fails: &mut Vec<(String, String)>,
    ) -> Item {
        match guarded(|| coin.draw::<E>()) {
            Err(loc) => Item::Panic(loc),
            Ok(Err(_)) => Item::Err,
            Ok(Ok(e)) => {
                let bytes = e.to_bytes();
                let c = coords_of::<B, E>(&e);
                // a valid canonical element: canonical bytes re-parse to the same element and are accepted
                match E::read_from_bytes(&bytes) {
                    Ok(e2) if e2 == e => {},
                    _ => fails.push(("coin.draw.not-canonical".into(), format!("element {:?} does not re-parse", c))),
                }
                if E::from_random_bytes(&bytes).is_none() {
                    fails.push(("coin.draw.not-canonical".into(), "from_random_bytes rejects the drawn element's own bytes".into()));
                }
                Item::Elem(c)
            },
        }
    }
    match deg {
        1 => one::<B, H, B>(coin, fails),
        2 => one::<B, H, QuadExtension<B>>(coin, fails),
        _ => one::<B, H, CubeExtension<B>>(coin, fails),
    }
}

/// runs the op tokens on a fresh real coin; returns the items (stops after a panic)
fn run_real<B, H>(seed: &[B], ops: &[String], fails: &mut Vec<(String, String)>) -> Option<Vec<Item>>
where
    B: StarkField + ExtensibleField<2> + ExtensibleField<3>,
    H: ElementHasher<BaseField = B> + Sync,
{
    let mut coin = DefaultRandomCoin::<H>::new(seed);
    let mut out = vec![];
    for tok in ops {
        let p: Vec<&str> = tok.split(':').collect();
        let item = match p.as_slice() {
            ["rs", h] => {
                let bytes = unhex_opt(h)?;
                coin.reseed(H::hash(&bytes));
                Item::Unit
            },
            ["rd", h] => {
                // reseed with the digest whose serialization is the given bytes (boundary digests)
                let bytes = unhex_opt(h)?;
                let d = <H::Digest as Deserializable>::read_from_bytes(&bytes).ok()?;
                coin.reseed(d);
                Item::Unit
            },
            ["d", deg] => {
                let deg: usize = deg.parse().ok()?;
                if !(1..=3).contains(&deg) {
                    return None;
                }
                draw_real::<B, H>(&mut coin, deg, fails)
            },
            ["di", n, dom, nonce] => {
                let (n, dom, nonce): (usize, u64, u64) = (n.parse().ok()?, dom.parse().ok()?, nonce.parse().ok()?);
                match guarded(|| coin.draw_integers(n, dom as usize, nonce)) {
                    Err(loc) => Item::Panic(loc),
                    Ok(Err(_)) => Item::Err,
                    Ok(Ok(v)) => Item::Ints(v.into_iter().map(|x| x as u64).collect()),
                }
            },
            ["lz", v] => {
                let v: u64 = v.parse().ok()?;
                Item::Num(coin.check_leading_zeros(v) as u64)
            },
            ["gr", gf] => {
                let gf: u32 = gf.parse().ok()?;
                // the search of ProverChannel::grind_query_seed, with a bounded range
                Item::Grind((1..=4096u64).find(|&nonce| coin.check_leading_zeros(nonce) >= gf))
            },
            _ => return None,
        };
        let stop = matches!(item, Item::Panic(_));
        out.push(item);
        if stop {
            break;
        }
    }
    Some(out)
}

/// the same history on the shadow coin: the expected items (None = no expectation for that op)
fn run_shadow<B, H>(seed: &[B], seed_ints: &[u128], ops: &[String], field: &str) -> (Vec<Option<Item>>, Vec<(String, String)>)
where
    B: StarkField,
    H: ElementHasher<BaseField = B>,
{
    let m = modulus(field);
    let mut sh = Shadow::<H>::new(seed, seed_ints);
    let mut out = vec![];
    for tok in ops {
        let p: Vec<&str> = tok.split(':').collect();
        let e = match p.as_slice() {
            ["rs", h] => {
                sh.reseed_bytes(&unhex(h));
                Some(Item::Unit)
            },
            ["rd", h] => {
                match <H::Digest as Deserializable>::read_from_bytes(&unhex(h)) {
                    Ok(d) => {
                        sh.reseed_digest(d);
                        Some(Item::Unit)
                    },
                    Err(_) => None,
                }
            },
            ["d", deg] => {
                let deg: usize = deg.parse().unwrap();
                Some(match sh.draw(m, B::ELEMENT_BYTES, deg) {
                    Ok(c) => Item::Elem(c),
                    Err(()) => Item::Err,
                })
            },
            ["di", n, dom, nonce] => {
                let (n, dom, nonce): (usize, u64, u64) = (n.parse().unwrap(), dom.parse().unwrap(), nonce.parse().unwrap());
                if !dom.is_power_of_two() || n as u64 >= dom {
                    // documented panic; the history ends here
                    out.push(Some(Item::Panic(String::new())));
                    break;
                }
                match sh.ints(n, dom, nonce) {
                    Ok(v) if n == 0 => {
                        // the implementation's loop never sees len == 0: it returns 1000 values
                        let _ = v;
                        for _ in 1..1000 {
                            sh.next();
                        }
                        None
                    },
                    Ok(v) => Some(Item::Ints(v)),
                    Err(()) => Some(Item::Err),
                }
            },
            ["lz", v] => Some(Item::Num(sh.lz(v.parse().unwrap()) as u64)),
            ["gr", gf] => {
                let gf: u32 = gf.parse().unwrap();
                let mut found = None;
                for nonce in 1..=4096u64 {
                    if sh.lz(nonce) >= gf {
                        found = Some(nonce);
                        break;
                    }
                }
                Some(Item::Grind(found))
            },
            _ => None,
        };
        out.push(e);
    }
    (out, sh.log)
}

struct RunJob<'a> {
    field: &'a str,
    hasher: &'a str,
    seed: &'a [u128],
    ops: &'a [String],
}

impl<'a> Job for RunJob<'a> {
    type Out = Outcome;
    fn run<B, H>(self) -> Outcome
    where
        B: StarkField + ExtensibleField<2> + ExtensibleField<3>,
        H: ElementHasher<BaseField = B> + Sync,
    {
        let seed: Option<Vec<B>> = self.seed.iter().map(|v| elem_of::<B>(*v)).collect();
        let Some(seed) = seed else { return Outcome::ok("bad-op") };
        let mut fails = vec![];
        let Some(items) = run_real::<B, H>(&seed, self.ops, &mut fails) else { return Outcome::ok("bad-op") };
        let out = if items.is_empty() { "-".to_string() } else { items.iter().map(item_str).collect::<Vec<_>>().join(";") };
        let mut o = Outcome::ok(out);
        o.fails = fails;
        // --- determinism: a second fresh coin
        let mut f2 = vec![];
        if run_real::<B, H>(&seed, self.ops, &mut f2).as_ref() != Some(&items) {
            o = o.fail("coin.determinism", "two coins driven with the same history disagree");
        }
        // --- the shadow coin
        let (exp, _) = run_shadow::<B, H>(&seed, self.seed, self.ops, self.field);
        for (k, it) in items.iter().enumerate() {
            let tok = &self.ops[k];
            let kind = tok.split(':').next().unwrap_or("");
            if let Item::Panic(loc) = it {
                let documented = matches!(exp.get(k), Some(Some(Item::Panic(_))));
                if !documented {
                    o = o.fail(format!("coin.{}.panic", kind), format!("op {} `{}` panicked at {}", k, tok, loc));
                }
                o.fails.push(("#info".into(), loc.clone()));
                continue;
            }
            match exp.get(k) {
                Some(Some(Item::Panic(_))) => {
                    o = o.fail(format!("coin.{}.no-panic", kind), format!("op {} `{}`: documented panic did not happen", k, tok))
                },
                Some(Some(e)) if e != it => {
                    o = o.fail(
                        format!("coin.{}.value", kind),
                        format!("op {} `{}`: got {} expected {}", k, tok, item_str(it).chars().take(120).collect::<String>(), item_str(e).chars().take(120).collect::<String>()),
                    )
                },
                _ => {},
            }
            // range / count, stated directly
            match (it, tok.split(':').collect::<Vec<_>>().as_slice()) {
                (Item::Elem(c), ["d", deg]) => {
                    let m = modulus(self.field);
                    if c.len() != deg.parse::<usize>().unwrap() || c.iter().any(|x| *x >= m) {
                        o = o.fail("coin.draw.range", format!("op {}: coordinates {:?}", k, c));
                    }
                },
                (Item::Ints(v), ["di", n, dom, _]) => {
                    let (n, dom): (usize, u64) = (n.parse().unwrap(), dom.parse().unwrap());
                    if v.iter().any(|x| *x >= dom) {
                        o = o.fail("coin.di.range", format!("op {}: a value is not below {}", k, dom));
                    }
                    // counts 1..: exactly n values (n = 0 is outside the property's range: the loop then returns 1000)
                    if n != 0 && v.len() != n {
                        o = o.fail("coin.di.count", format!("op {}: {} values returned, {} requested", k, v.len(), n));
                    }
                },
                _ => {},
            }
        }
        // --- sensitivity probes (not for the degenerate toy hashers)
        if !["toy1", "toy2", "toy3", "toy4", "toy5"].contains(&self.hasher) && !items.iter().any(|i| matches!(i, Item::Panic(_))) {
            let probe: Vec<String> = vec!["d:1".into(), "d:1".into(), "lz:12345".into(), "di:4:4294967296:7".into()];
            let with_probe = |seed: &[B], ops: &[String]| -> Option<Vec<Item>> {
                let mut all = ops.to_vec();
                all.extend(probe.iter().cloned());
                let mut f = vec![];
                let r = run_real::<B, H>(seed, &all, &mut f)?;
                Some(r[r.len().saturating_sub(probe.len())..].to_vec())
            };
            let strong = |a: &Option<Vec<Item>>, b: &Option<Vec<Item>>| -> bool {
                // the two draws and the integers must all differ
                match (a, b) {
                    (Some(a), Some(b)) if a.len() == 4 && b.len() == 4 => a[0] != b[0] && a[1] != b[1] && a[3] != b[3],
                    _ => true,
                }
            };
            let base = with_probe(&seed, self.ops);
            // (a) seed data
            let mut seed2 = seed.clone();
            if seed2.is_empty() {
                seed2.push(B::ONE);
            } else {
                seed2[0] += B::ONE;
            }
            if !strong(&base, &with_probe(&seed2, self.ops)) {
                o = o.fail("coin.sensitivity.seed", "changing one seed element does not change the next outputs");
            }
            let mut seed3 = seed.clone();
            seed3.push(B::ZERO);
            if !strong(&base, &with_probe(&seed3, self.ops)) {
                o = o.fail("coin.sensitivity.seed", "appending a zero element to the seed does not change the next outputs");
            }
            // (b) reseed data, (c) nonce: the first such op
            if let Some(i) = self.ops.iter().position(|t| t.starts_with("rs:")) {
                let mut ops2 = self.ops.to_vec();
                let mut bytes = unhex(&ops2[i][3..]);
                if bytes.is_empty() {
                    bytes.push(0);
                } else {
                    bytes[0] ^= 1;
                }
                ops2[i] = format!("rs:{}", hex(&bytes));
                if !strong(&base, &with_probe(&seed, &ops2)) {
                    o = o.fail("coin.sensitivity.reseed", "changing one bit of the reseed data does not change the next outputs");
                }
            }
            if let Some(i) = self.ops.iter().position(|t| t.starts_with("rd:")) {
                let mut ops2 = self.ops.to_vec();
                let mut bytes = unhex(&ops2[i][3..]);
                if !bytes.is_empty() {
                    bytes[1] ^= 1;
                    ops2[i] = format!("rd:{}", hex(&bytes));
                    if !strong(&base, &with_probe(&seed, &ops2)) {
                        o = o.fail("coin.sensitivity.reseed", "changing one bit of the reseed digest does not change the next outputs");
                    }
                }
            }
            if let Some(i) = self.ops.iter().position(|t| t.starts_with("di:")) {
                let p: Vec<&str> = self.ops[i].split(':').collect();
                let nonce: u64 = p[3].parse().unwrap();
                let mut ops2 = self.ops.to_vec();
                ops2[i] = format!("di:{}:{}:{}", p[1], p[2], nonce.wrapping_add(1));
                if !strong(&base, &with_probe(&seed, &ops2)) {
                    o = o.fail("coin.sensitivity.nonce", "changing the nonce does not change the next outputs");
                }
            }
            // (d) one more earlier draw: the next outputs differ
            let mut ops4 = self.ops.to_vec();
            ops4.push("d:1".into());
            if let (Some(a), Some(b)) = (&base, &with_probe(&seed, &ops4)) {
                if a.len() == 4 && b.len() == 4 && (a[0] == b[0] || a[2] != b[2]) {
                    // the draw changes the next draw, but not the seed: check_leading_zeros is a function of the seed only
                    o = o.fail("coin.sensitivity.draws", "one more earlier draw does not change the next draw (or changes the seed)");
                }
            }
        }
        o
    }
}

fn exec_run(t: &[&str], with_table: bool) -> Outcome {
    let need = if with_table { 4 } else { 3 };
    if t.len() < need {
        return Outcome::ok("bad-op");
    }
    let (hasher, field) = (t[0], t[1]);
    let Some(seed) = parse_seed(t[2]) else { return Outcome::ok("bad-op") };
    let ops: Vec<String> = t[need..].iter().map(|s| s.to_string()).collect();
    // syntactic validation shared with the model
    for tok in &ops {
        let p: Vec<&str> = tok.split(':').collect();
        let ok = match p.as_slice() {
            ["rs", h] => unhex_opt(h).is_some(),
            ["rd", h] => unhex_opt(h).is_some(),
            ["d", d] => matches!(*d, "1" | "2" | "3"),
            ["di", n, dom, nonce] => n.parse::<u32>().is_ok() && dom.parse::<u64>().is_ok() && nonce.parse::<u64>().is_ok(),
            ["lz", v] => v.parse::<u64>().is_ok(),
            ["gr", g] => g.parse::<u32>().is_ok(),
            _ => false,
        };
        if !ok {
            return Outcome::ok("bad-op");
        }
    }
    dispatch(hasher, field, RunJob { field, hasher, seed: &seed, ops: &ops }).unwrap_or_else(|| Outcome::ok("bad-op"))
}



// ------------------------------------------------------------------------------------ boundary nonces
/// nonces at which an encoding of the integer into the hasher's input may change shape
fn boundary_nonces() -> Vec<u64> {
    let mut v: Vec<u64> = vec![0, 1, (1 << 32) - 1, 1 << 32, (1 << 32) + 1, 1 << 62, 1 << 63, u64::MAX, u64::MAX - 1];
    let m128_low = (wf_harness::fields::M128 & 0xFFFF_FFFF_FFFF_FFFF) as u64;
    for p in [wf_harness::fields::M64 as u64, wf_harness::fields::M62 as u64, m128_low] {
        for x in [Some(p - 1), Some(p), p.checked_add(1), p.checked_mul(2).map(|y| y - 1), p.checked_mul(2), p.checked_mul(2).and_then(|y| y.checked_add(1)), p.checked_mul(3), p.checked_mul(4)] {
            if let Some(x) = x {
                v.push(x);
            }
        }
    }
    v.sort();
    v.dedup();
    v
}

struct BndJob<'a> {
    field: &'a str,
    seed: &'a [u128],
    ops: &'a [String],
}
impl<'a> Job for BndJob<'a> {
    type Out = Outcome;
    fn run<B, H>(self) -> Outcome
    where
        B: StarkField + ExtensibleField<2> + ExtensibleField<3>,
        H: ElementHasher<BaseField = B> + Sync,
    {
        let seed: Option<Vec<B>> = self.seed.iter().map(|v| elem_of::<B>(*v)).collect();
        let Some(seed) = seed else { return Outcome::ok("bad-op") };
        // the seed digest after the history, from the shadow coin (its agreement with the real coin is judged by `run`)
        let m = modulus(self.field);
        let mut sh = Shadow::<H>::new(&seed, self.seed);
        for tok in self.ops {
            let p: Vec<&str> = tok.split(':').collect();
            match p.as_slice() {
                ["rs", h] => sh.reseed_bytes(&unhex(h)),
                ["rd", h] => match <H::Digest as Deserializable>::read_from_bytes(&unhex(h)) {
                    Ok(d) => sh.reseed_digest(d),
                    Err(_) => return Outcome::ok("bad-op"),
                },
                ["d", deg] => {
                    let _ = sh.draw(m, B::ELEMENT_BYTES, deg.parse().unwrap());
                },
                ["di", n, dom, nonce] => {
                    let (n, dom, nonce): (usize, u64, u64) = (n.parse().unwrap(), dom.parse().unwrap(), nonce.parse().unwrap());
                    if !dom.is_power_of_two() || n as u64 >= dom || n == 0 {
                        return Outcome::ok("bad-op");
                    }
                    let _ = sh.ints(n, dom, nonce);
                },
                _ => return Outcome::ok("bad-op"),
            }
        }
        let s_digest = sh.seed;
        let nonces = boundary_nonces();
        let mut o = Outcome::ok("");
        let mut digs: Vec<[u8; 32]> = vec![];
        let mut poss: Vec<Vec<Item>> = vec![];
        let mut lzs: Vec<String> = vec![];
        for &nz in &nonces {
            // the digest whose zeros are counted / that draw_integers re-absorbs
            let d = H::merge_with_int(s_digest, nz).as_bytes();
            let head = le_val(&d[..8]) as u64;
            let tz = if head == 0 { 64 } else { head.trailing_zeros() };
            let mut all = self.ops.to_vec();
            all.push(format!("lz:{}", nz));
            all.push(format!("di:24:4294967296:{}", nz));
            all.push("d:1".into());
            all.push("d:1".into());
            let mut f = vec![];
            let Some(r) = run_real::<B, H>(&seed, &all, &mut f) else { return Outcome::ok("bad-op") };
            let tail = r[r.len().saturating_sub(4)..].to_vec();
            if tail.len() != 4 || tail.iter().any(|i| matches!(i, Item::Panic(_))) {
                o = o.fail("coin.nonce-boundary.panic", format!("nonce {}: {:?}", nz, tail.last()));
                return o;
            }
            if tail[0] != Item::Num(tz as u64) {
                o = o.fail(
                    "coin.nonce-boundary.pow",
                    format!("nonce {}: check_leading_zeros = {} but merge_with_int(seed, nonce) has {} trailing zero bits", nz, item_str(&tail[0]), tz),
                );
            }
            lzs.push(item_str(&tail[0])[2..].to_string());
            digs.push(d);
            poss.push(tail[1..].to_vec());
        }
        // different nonces: different digests, different query positions, different later draws
        for i in 0..nonces.len() {
            for j in i + 1..nonces.len() {
                if digs[i] == digs[j] {
                    o = o.fail(
                        "coin.nonce-boundary.digest",
                        format!("merge_with_int(seed, {}) == merge_with_int(seed, {})", nonces[i], nonces[j]),
                    );
                }
                if poss[i][0] == poss[j][0] || poss[i][1] == poss[j][1] {
                    o = o.fail(
                        "coin.nonce-boundary.positions",
                        format!("draw_integers with nonce {} and with nonce {} return the same positions / the same next draw", nonces[i], nonces[j]),
                    );
                }
            }
        }
        o.out = lzs.join(",");
        o
    }
}

fn exec_bnd(t: &[&str]) -> Outcome {
    if t.len() < 3 {
        return Outcome::ok("bad-op");
    }
    let Some(seed) = parse_seed(t[2]) else { return Outcome::ok("bad-op") };
    let ops: Vec<String> = t[3..].iter().map(|s| s.to_string()).collect();
    for tok in &ops {
        let p: Vec<&str> = tok.split(':').collect();
        let ok = match p.as_slice() {
            ["rs", h] | ["rd", h] => unhex_opt(h).is_some(),
            ["d", d] => matches!(*d, "1" | "2"),
            ["di", n, dom, nonce] => n.parse::<u32>().is_ok() && dom.parse::<u64>().is_ok() && nonce.parse::<u64>().is_ok(),
            _ => false,
        };
        if !ok {
            return Outcome::ok("bad-op");
        }
    }
    dispatch(t[0], t[1], BndJob { field: t[1], seed: &seed, ops: &ops }).unwrap_or_else(|| Outcome::ok("bad-op"))
}

// ------------------------------------------------------------------------------------ Randomizable for integers
/// `rnd W HEX`: the integer implementations of `Randomizable` (utils/core/src/lib.rs, next to the field elements' that
/// the coin draws through): `uW::from_random_bytes(bytes)` is the little-endian value of the first W/8 bytes. Fewer
/// bytes than VALUE_SIZE are outside what a caller may pass (the coin always passes VALUE_SIZE bytes); the outcome is
/// recorded (`panic` on the pinned tree although the trait documents `None` for invalid input) but not judged.
fn exec_rnd(t: &[&str]) -> Outcome {
    let (Some(w), Some(bytes)) = (t.first().and_then(|s| s.parse::<usize>().ok()), t.get(1).and_then(|h| unhex_opt(h))) else {
        return Outcome::ok("bad-op");
    };
    if t.len() != 2 {
        return Outcome::ok("bad-op");
    }
    macro_rules! go {
        ($T:ty) => {{
            let r = guarded(|| <$T as Randomizable>::from_random_bytes(&bytes).map(|v| v as u128));
            (r, <$T as Randomizable>::VALUE_SIZE)
        }};
    }
    let (r, size) = match w {
        8 => go!(u8),
        16 => go!(u16),
        32 => go!(u32),
        64 => go!(u64),
        128 => go!(u128),
        _ => return Outcome::ok("bad-op"),
    };
    let mut o = Outcome::ok(match &r {
        Ok(Some(v)) => format!("some {}", v),
        Ok(None) => "none".into(),
        Err(_) => "panic".into(),
    });
    if size != w / 8 {
        o = o.fail(format!("randomizable.u{}.value-size", w), format!("VALUE_SIZE = {}", size));
    }
    if bytes.len() >= w / 8 {
        let want = bytes[..w / 8].iter().rev().fold(0u128, |a, b| (a << 8) | *b as u128);
        if !matches!(r, Ok(Some(v)) if v == want) {
            o = o.fail(format!("randomizable.u{}.value", w), format!("{} bytes {}: expected {}", bytes.len(), hex(&bytes), want));
        }
    }
    o
}

// ------------------------------------------------------------------------------------ end-to-end proof of work
pub struct FibAir<B: StarkField> {
    context: AirContext<B>,
    result: B,
}

impl<B: StarkField + ExtensibleField<2> + ExtensibleField<3> + 'static> Air for FibAir<B> {
    type BaseField = B;
    type PublicInputs = B;
    type GkrProof = ();
    type GkrVerifier = ();

    fn new(trace_info: TraceInfo, pub_inputs: B, options: ProofOptions) -> Self {
        let degrees = vec![TransitionConstraintDegree::new(1), TransitionConstraintDegree::new(1)];
        FibAir { context: AirContext::new(trace_info, degrees, 3, options), result: pub_inputs }
    }
    fn context(&self) -> &AirContext<B> {
        &self.context
    }
    fn evaluate_transition<E: FieldElement<BaseField = B>>(&self, frame: &EvaluationFrame<E>, _p: &[E], result: &mut [E]) {
        let c = frame.current();
        let n = frame.next();
        result[0] = n[0] - (c[0] + c[1]);
        result[1] = n[1] - (c[1] + n[0]);
    }
    fn get_assertions(&self) -> Vec<Assertion<B>> {
        let last = self.trace_length() - 1;
        vec![Assertion::single(0, 0, B::ONE), Assertion::single(1, 0, B::ONE), Assertion::single(1, last, self.result)]
    }
}

pub struct FibProver<B: StarkField, H: ElementHasher> {
    options: ProofOptions,
    _p: PhantomData<(B, H)>,
}

impl<B, H> Prover for FibProver<B, H>
where
    B: StarkField + ExtensibleField<2> + ExtensibleField<3> + 'static,
    H: ElementHasher<BaseField = B> + Send + Sync,
{
    type BaseField = B;
    type Air = FibAir<B>;
    type Trace = TraceTable<B>;
    type HashFn = H;
    type RandomCoin = DefaultRandomCoin<H>;
    type TraceLde<E: FieldElement<BaseField = B>> = DefaultTraceLde<E, H>;
    type ConstraintEvaluator<'a, E: FieldElement<BaseField = B>> = DefaultConstraintEvaluator<'a, FibAir<B>, E>;

    fn get_pub_inputs(&self, trace: &Self::Trace) -> B {
        trace.get(1, trace.length() - 1)
    }
    fn options(&self) -> &ProofOptions {
        &self.options
    }
    fn new_trace_lde<E: FieldElement<BaseField = B>>(
        &self,
        trace_info: &TraceInfo,
        main_trace: &ColMatrix<B>,
        domain: &StarkDomain<B>,
    ) -> (Self::TraceLde<E>, TracePolyTable<E>) {
        DefaultTraceLde::new(trace_info, main_trace, domain)
    }
    fn new_evaluator<'a, E: FieldElement<BaseField = B>>(
        &self,
        air: &'a FibAir<B>,
        aux: Option<AuxRandElements<E>>,
        cc: ConstraintCompositionCoefficients<E>,
    ) -> Self::ConstraintEvaluator<'a, E> {
        DefaultConstraintEvaluator::new(air, aux, cc)
    }
}

fn fib_proof<B, H>(options: ProofOptions, len: usize) -> (Vec<u8>, B)
where
    B: StarkField + ExtensibleField<2> + ExtensibleField<3> + 'static,
    H: ElementHasher<BaseField = B> + Send + Sync,
{
    let mut trace = TraceTable::<B>::new(2, len);
    trace.fill(
        |s| {
            s[0] = B::ONE;
            s[1] = B::ONE;
        },
        |_, s| {
            s[0] += s[1];
            s[1] += s[0];
        },
    );
    let result = trace.get(1, len - 1);
    let prover = FibProver::<B, H> { options, _p: PhantomData };
    let proof = prover.prove(trace).expect("proving the Fibonacci trace");
    (proof.to_bytes(), result)
}


fn pow_run<B, H>(gf: u32) -> Outcome
where
    B: StarkField + ExtensibleField<2> + ExtensibleField<3> + 'static,
    H: ElementHasher<BaseField = B> + Send + Sync,
{
    let options = ProofOptions::new(6, 4, gf, FieldExtension::None, 4, 3);
    let (bytes, result) = fib_proof::<B, H>(options, 16);
    let proof = Proof::from_bytes(&bytes).expect("own proof");
    let nonce = proof.pow_nonce;
    let acc = AcceptableOptions::MinConjecturedSecurity(0);
    let mut o = Outcome::ok(format!("ok {}", nonce));
    match guarded(|| verify::<FibAir<B>, H, DefaultRandomCoin<H>>(proof.clone(), result, &acc)) {
        Ok(Ok(())) => {},
        r => {
            o = o.fail("pow.honest-nonce-rejected", format!("the nonce {} found by the prover's search is not accepted: {:?}", nonce, r.map(|x| x.map_err(|e| e.to_string()))));
        },
    }
    if nonce == 0 {
        o = o.fail("pow.nonce-zero", "the search starts at 1");
    }
    // the search returns the first nonce of 1, 2, ... whose measure reaches the grinding factor: every smaller
    // nonce must fail the verifier's test (the predicate searched for is the predicate checked)
    for k in 1..nonce.min(3000) {
        let mut p2 = proof.clone();
        p2.pow_nonce = k;
        match guarded(|| verify::<FibAir<B>, H, DefaultRandomCoin<H>>(p2, result, &acc)) {
            Ok(Err(VerifierError::QuerySeedProofOfWorkVerificationFailed)) => {},
            r => {
                o = o.fail(
                    "pow.smaller-nonce-not-refused",
                    format!("nonce {} < {} : {:?}", k, nonce, r.map(|x| x.map_err(|e| e.to_string()))),
                );
                break;
            },
        }
    }
    o
}

fn exec_pow(t: &[&str]) -> Outcome {
    if t.len() != 3 {
        return Outcome::ok("bad-op");
    }
    let Ok(gf) = t[2].parse::<u32>() else { return Outcome::ok("bad-op") };
    if gf > 12 {
        return Outcome::ok("bad-op");
    }
    type A = f64::BaseElement;
    type B2 = f62::BaseElement;
    type C = f128::BaseElement;
    match (t[0], t[1]) {
        ("f64", "b3_256") => pow_run::<A, Blake3_256<A>>(gf),
        ("f64", "b3_192") => pow_run::<A, Blake3_192<A>>(gf),
        ("f64", "sha3") => pow_run::<A, Sha3_256<A>>(gf),
        ("f64", "rp64") => pow_run::<A, Rp64_256>(gf),
        ("f64", "rpj64") => pow_run::<A, RpJive64_256>(gf),
        ("f62", "rp62") => pow_run::<B2, Rp62_248>(gf),
        ("f62", "b3_256") => pow_run::<B2, Blake3_256<B2>>(gf),
        ("f128", "b3_256") => pow_run::<C, Blake3_256<C>>(gf),
        ("f128", "sha3") => pow_run::<C, Sha3_256<C>>(gf),
        ("f128", "b3_192") => pow_run::<C, Blake3_192<C>>(gf),
        ("f64", "toy0") => pow_run::<A, ToyH<A, 0>>(gf),
        _ => Outcome::ok("bad-op"),
    }
}

// ------------------------------------------------------------------------------------ oracle table (gen side)
struct TableJob<'a> {
    field: &'a str,
    seed: &'a [u128],
    ops: &'a [String],
}
impl<'a> Job for TableJob<'a> {
    type Out = Option<String>;
    fn run<B, H>(self) -> Option<String>
    where
        B: StarkField + ExtensibleField<2> + ExtensibleField<3>,
        H: ElementHasher<BaseField = B> + Sync,
    {
        let seed: Option<Vec<B>> = self.seed.iter().map(|v| elem_of::<B>(*v)).collect();
        let seed = seed?;
        let (_, log) = run_shadow::<B, H>(&seed, self.seed, self.ops, self.field);
        let mut seen = BTreeMap::new();
        let mut parts = vec![];
        for (k, v) in log {
            if seen.insert(k.clone(), ()).is_none() {
                parts.push(format!("{}={}", k, v));
            }
        }
        Some(parts.join("|"))
    }
}

// ------------------------------------------------------------------------------------ gen
fn rand_seed(rng: &mut Rng, field: &str) -> String {
    let m = modulus(field);
    let n = *rng.pick(&[0usize, 1, 1, 2, 3, 4, 4, 6, 7, 8, 9, 15, 16, 17]);
    if n == 0 {
        return "-".into();
    }
    (0..n)
        .map(|_| match rng.below(6) {
            0 => 0u128,
            1 => 1,
            2 => m - 1,
            _ => rng.u128() % m,
        })
        .map(|x| x.to_string())
        .collect::<Vec<_>>()
        .join(",")
}

fn rand_ops(rng: &mut Rng, max_len: u64, small: bool) -> Vec<String> {
    let len = rng.range(1, max_len);
    let mut v = vec![];
    for _ in 0..len {
        let op = match rng.below(12) {
            0 | 1 => {
                let n = *rng.pick(&[0usize, 1, 3, 8, 24, 32, 33, 64]);
                format!("rs:{}", hex(&rng.bytes(n)))
            },
            2 | 3 | 4 => format!("d:{}", rng.range(1, 3)),
            5 | 6 | 7 => {
                let k = if rng.chance(1, 6) { *rng.pick(&[1u64, 2, 31, 32, 33, 63]) } else { rng.range(1, 32) };
                let dom = 1u64 << k;
                let maxn = if small { 16 } else { 255 };
                let n = match rng.below(8) {
                    0 => (dom - 1).min(maxn),
                    1 => 1,
                    _ => rng.range(1, maxn).min(dom - 1),
                };
                let nonce = match rng.below(6) {
                    0 => 0,
                    1 => u64::MAX,
                    2 => rng.below(1000),
                    3 => *rng.pick(&boundary_nonces()),
                    _ => rng.u64(),
                };
                format!("di:{}:{}:{}", n, dom, nonce)
            },
            8 | 9 => format!("lz:{}", match rng.below(4) {
                0 => rng.below(100),
                1 => *rng.pick(&boundary_nonces()),
                _ => rng.u64(),
            }),
            10 => format!("gr:{}", rng.range(0, if small { 6 } else { 10 })),
            _ => format!("d:{}", rng.range(1, 2)),
        };
        v.push(op);
    }
    v
}

fn gen_all(rng: &mut Rng, tier: Tier, n: usize, emit: &mut dyn FnMut(String)) {
    let thorough = tier == Tier::Thorough;
    let fields = ["f64", "f62", "f128"];
    // --- the integer implementations of Randomizable: every length from 0 to VALUE_SIZE + 2, boundary and random bytes
    for w in [8usize, 16, 32, 64, 128] {
        for len in 0..=(w / 8 + 2) {
            for fill in 0..4 {
                let b: Vec<u8> = match fill {
                    0 => vec![0u8; len],
                    1 => vec![0xffu8; len],
                    2 => (0..len).map(|i| if i + 1 == w / 8 { 0x80 } else { 0 }).collect(),
                    _ => rng.bytes(len),
                };
                emit(format!("rnd {} {}", w, hex(&b)));
            }
        }
        emit(format!("rnd {} {}", w, hex(&rng.bytes(64))));
    }
    // --- every element type on every hasher (fixed small histories)
    for h in ["toy0", "toy1", "toy2"] {
        for f in fields {
            for deg in 1..=3 {
                emit(format!("run {} {} 1,2,3,4 d:{} d:{} lz:1", h, f, deg, deg));
            }
            emit(format!("run {} {} - lz:0 lz:1 lz:18446744073709551615 gr:0 gr:3", h, f));
        }
    }
    for (h, f) in COMBOS {
        for deg in 1..=3 {
            emit(format!("run {} {} 1,2,3,4 d:{} d:{} lz:1", h, f, deg, deg));
        }
    }
    // --- boundary classes of draw_integers
    for h in ["toy0", "b3_256"] {
        for f in ["f64", "f128"] {
            for (n, dom) in [
                (1u64, 2u64),
                (0, 1),
                (1, 1),
                (0, 2),
                (2, 2),
                (3, 4),
                (4, 4),
                (5, 4),
                (3, 3),
                (1, 0),
                (0, 0),
                (5, 6),
                (255, 256),
                (255, 4294967296),
                (1000, 1024),
                (1001, 2048),
                (1000, 2048),
                (999, 1024),
                (7, 9223372036854775808),
                (7, 18446744073709551615),
            ] {
                emit(format!("run {} {} 5,6 di:{}:{}:42 d:1 lz:9", h, f, n, dom));
            }
        }
    }
    // --- counter restarts at every reseed: the same data drawn again after reseeding differs, histories that
    //     differ only in draws before a reseed coincide afterwards
    for h in ["toy0", "b3_256", "sha3"] {
        emit(format!("run {} f64 7 d:1 d:1 rs:00 d:1 d:1", h));
        emit(format!("run {} f64 7 d:1 rs:00 d:1 d:1", h));
        emit(format!("run {} f64 7 rs:00 d:1 d:1", h));
        emit(format!("run {} f64 7 d:2 d:3 di:5:64:3 d:1 d:1", h));
        emit(format!("run {} f64 7 di:5:64:3 d:1 d:1", h));
    }
    // --- hardening: degenerate digests (all-zero: 64 "leading zeros", every integer 0, every element 0)
    for f in fields {
        emit(format!("run toy3 {} 1 lz:0 lz:7 gr:0 gr:64 gr:65 d:1 d:2 d:3 di:5:8:3 rs:00 d:1 lz:9", f));
        emit(format!("run toy3 {} - di:255:256:0 di:1000:1024:1 d:2", f));
    }
    // --- hardening: more than 1000 PRNG calls since the last reseed, for every element type (high-rejection ones
    //     included), then every kind of operation: budgets and counters are per call, the counter restarts only at
    //     reseed / draw_integers
    for (h, f) in [("toy0", "f64"), ("toy0", "f62"), ("toy0", "f128"), ("toy1", "f64"), ("toy1", "f62"), ("toy1", "f128"), ("b3_256", "f64"), ("b3_192", "f128"), ("rp62", "f62"), ("rp64", "f64"), ("sha3", "f62")] {
        for deg in 1..=3 {
            if f == "f128" && deg == 3 {
                continue;
            }
            let draws = vec![format!("d:{}", deg); 1001].join(" ");
            emit(format!("run {} {} 8,9 rs:aa {} lz:3 d:1 d:2 di:6:64:11 d:{} rs:bb d:{} lz:3", h, f, draws, deg, deg));
        }
        // a failed draw (toy2 never yields an element) consumes exactly 1000 calls; what follows depends on it
    }
    for f in fields {
        emit(format!("run toy2 {} 1 d:1 lz:4 d:2 di:3:16:5 d:1 rs:01 d:1", f));
    }
    // --- hardening: a candidate accepted exactly at the 1000th PRNG call of a draw (toy4: on the retry budget) and only
    //     at the 1001st (toy5: just beyond it), several seeds so that the accepted digest is canonical for some
    for f in fields {
        for deg in 1..=3 {
            if f == "f128" && deg == 3 {
                continue;
            }
            for seed in 1..=8 {
                emit(format!("run toy4 {} {} d:{} d:{} lz:1000 lz:999 di:3:16:5 d:{} rs:0{} d:{}", f, seed, deg, deg, deg, seed, deg));
                emit(format!("run toy5 {} {} d:{} d:{} lz:1001 rs:0{} d:{}", f, seed, deg, deg, seed, deg));
            }
        }
    }
    // --- hardening: every order of draw / draw_integers / reseed of length <= 4 (state carried across operations)
    {
        let alphabet = ["d:1", "d:2", "di:3:16:", "rs:"];
        let mut hists: Vec<Vec<usize>> = vec![];
        for len in 1..=4u32 {
            for code in 0..4usize.pow(len) {
                hists.push((0..len).map(|k| code / 4usize.pow(k) % 4).collect());
            }
        }
        for (h, f) in [("toy0", "f64"), ("toy0", "f62"), ("toy1", "f128"), ("b3_256", "f64"), ("rp62", "f62"), ("sha3", "f128"), ("rpj64", "f64")] {
            for hist in &hists {
                let toks: Vec<String> = hist
                    .iter()
                    .enumerate()
                    .map(|(i, a)| match *a {
                        2 => format!("di:3:16:{}", i),
                        3 => format!("rs:0{}", i),
                        a => alphabet[a].to_string(),
                    })
                    .collect();
                emit(format!("run {} {} 2,3 {} d:1 lz:1", h, f, toks.join(" ")));
            }
        }
    }
    // --- hardening: requested count against the domain size, on / below / above
    for (h, f) in [("toy0", "f64"), ("rp64", "f64"), ("b3_192", "f62")] {
        for (n, dom) in [(255u64, 256u64), (256, 256), (257, 256), (15, 16), (16, 16), (17, 16), (1, 1), (2, 4294967296), (4294967295, 4294967296)] {
            emit(format!("run {} {} 4 d:1 di:{}:{}:1 d:1", h, f, n, dom));
        }
    }
    // --- random histories, toy hashers (modelled)
    let nt = default_n(tier, 9000, 120_000, n);
    for i in 0..nt {
        let h = match i % 8 {
            0..=4 => "toy0",
            5 | 6 => "toy1",
            _ => "toy2",
        };
        let f = *rng.pick(&fields);
        let max = if h == "toy2" { 3 } else { 12 };
        let ops = rand_ops(rng, max, h != "toy0");
        emit(format!("run {} {} {} {}", h, f, rand_seed(rng, f), ops.join(" ")));
    }
    // --- random histories, the six real hashers (oracle only)
    let nr = default_n(tier, 6000, 80_000, n);
    for _ in 0..nr {
        let (h, f) = *rng.pick(&COMBOS);
        let ops = rand_ops(rng, 10, false);
        emit(format!("run {} {} {} {}", h, f, rand_seed(rng, f), ops.join(" ")));
    }
    // --- the six real hashers with a recorded digest table: the model replays the coin logic
    let no = default_n(tier, 1500, 20_000, n);
    for _ in 0..no {
        let (h, f) = *rng.pick(&COMBOS);
        let ops = rand_ops(rng, 5, true);
        let seed_s = rand_seed(rng, f);
        let seed = parse_seed(&seed_s).unwrap();
        if let Some(Some(table)) = dispatch(h, f, TableJob { field: f, seed: &seed, ops: &ops }) {
            if table.len() < 60_000 {
                emit(format!("oracle {} {} {} {} {}", h, f, seed_s, table, ops.join(" ")));
            }
        }
    }
    // --- boundary nonces, pairwise: different nonces give different merge_with_int digests, positions and later draws;
    //     boundary reseed digests (all-zero, all-ones / largest canonical elements); every real hasher and the toy one
    let mut bnd_combos: Vec<(&str, &str)> = COMBOS.to_vec();
    bnd_combos.extend_from_slice(&[("toy0", "f64"), ("toy0", "f62"), ("toy0", "f128")]);
    for (h, f) in &bnd_combos {
        let zero = hex(&[0u8; 32]);
        let top = match *h {
            // element digests: four canonical elements M-1
            "rp64" | "rpj64" | "rp62" => {
                let m = (modulus(f) - 1) as u64;
                hex(&(0..4).flat_map(|_| m.to_le_bytes()).collect::<Vec<u8>>())
            },
            _ => hex(&[255u8; 32]),
        };
        let m1 = modulus(f) - 1;
        let mut hist: Vec<String> = vec![
            "-".into(),
            "0".into(),
            format!("{} rd:{}", m1, zero),
            format!("1,2 rd:{}", top),
            format!("0,0,0,0 rd:{} d:1 rd:{}", zero, zero),
            format!("5 rs:- d:1 d:2 di:7:64:{}", wf_harness::fields::M64),
        ];
        for _ in 0..(if thorough { 12 } else { 2 }) {
            let ops: Vec<String> = rand_ops(rng, 5, true).into_iter().filter(|t| t.starts_with("rs:") || t.starts_with("d:1") || t.starts_with("d:2")).collect();
            hist.push(format!("{} {}", rand_seed(rng, f), ops.join(" ")).trim_end().to_string());
        }
        for hh in hist {
            emit(format!("bnd {} {} {}", h, f, hh));
        }
        // the same boundary digests in ordinary histories (shadow coin, determinism, sensitivity probes)
        emit(format!("run {} {} 1,2 rd:{} d:1 d:2 lz:0 di:5:64:0 rd:{} d:1", h, f, zero, top));
        emit(format!("run {} {} - rd:{} rd:{} lz:{} di:9:1024:{}", h, f, top, zero, wf_harness::fields::M64, wf_harness::fields::M62));
    }
    // --- numbers of earlier draws 0/1/255/256/1000/1001 (one more draw changes the next output; the counter survives)
    for (h, f) in [("toy0", "f64"), ("toy0", "f62"), ("b3_256", "f128"), ("rp64", "f64"), ("rp62", "f62"), ("sha3", "f62")] {
        for k in [0usize, 1, 255, 256, 1000, 1001] {
            let draws = vec!["d:1"; k].join(" ");
            emit(format!("run {} {} 3,4 rs:01 {} lz:5 d:2", h, f, draws).replace("  ", " "));
        }
    }
    // --- requested counts 0/1/255/256/1000/1001 of draw_integers on every hasher
    for (h, f) in &bnd_combos {
        for (n, dom) in [(0u64, 2u64), (1, 2), (255, 256), (256, 512), (1000, 1024), (1001, 2048)] {
            emit(format!("run {} {} 9 di:{}:{}:{} d:1", h, f, n, dom, wf_harness::fields::M64));
        }
    }
    // --- end to end: the nonce found by the prover's search against the verifier's test
    for (f, h) in [("f64", "b3_256"), ("f64", "b3_192"), ("f64", "sha3"), ("f64", "rp64"), ("f64", "rpj64"), ("f62", "rp62"), ("f62", "b3_256"), ("f128", "b3_256"), ("f128", "sha3"), ("f128", "b3_192"), ("f64", "toy0")] {
        for gf in if thorough { vec![0u32, 1, 2, 3, 4, 5, 6, 7, 8, 9, 10] } else { vec![0u32, 1, 3, 6, 8] } {
            emit(format!("pow {} {} {}", f, h, gf));
        }
    }
    // --- histories (a ;; b ;; c back to back in one process): coins are independent objects and the hashers are pure
    //     functions, so a coin's outputs must not depend on coins driven before it.  Consecutive coins differ in exactly
    //     one thing (nonce at a boundary, one seed element, the domain size, the count, the element degree, the reseed
    //     data), in both orders and A ;; B ;; A; toy hasher compared with the model directly, the real hashers through
    //     digest tables recorded here (in this process, op by op, before the histories run)
    {
        let mut all: Vec<(&str, &str)> = vec![("toy0", "f64"), ("toy0", "f62"), ("toy0", "f128"), ("toy1", "f62")];
        all.extend_from_slice(&COMBOS);
        for (h, f) in all {
            let p64 = wf_harness::fields::M64 as u64;
            let line = |seed: &str, ops: &str| -> Option<String> {
                if h.starts_with("toy") {
                    Some(format!("run {} {} {} {}", h, f, seed, ops))
                } else {
                    let opsv: Vec<String> = ops.split(' ').map(|x| x.to_string()).collect();
                    let sd = parse_seed(seed).unwrap();
                    let table = dispatch(h, f, TableJob { field: f, seed: &sd, ops: &opsv })??;
                    Some(format!("oracle {} {} {} {} {}", h, f, seed, table, ops))
                }
            };
            let base_ops = |nonce: u64, n: u64, dom: u64, deg: u64, rs: &str| format!("d:{} rs:{} lz:{} di:{}:{}:{} d:1 d:{}", deg, rs, nonce, n, dom, nonce, deg);
            let mut variants: Vec<(String, String, String)> = vec![];
            for (la, lb, a, b) in [
                ("nonce0", "nonceP", base_ops(0, 5, 64, 1, "01"), base_ops(p64, 5, 64, 1, "01")),
                ("nonceP", "nonceP+1", base_ops(p64, 5, 64, 1, "01"), base_ops(p64 + 1, 5, 64, 1, "01")),
                ("nonce0", "nonceMax", base_ops(0, 5, 64, 1, "01"), base_ops(u64::MAX, 5, 64, 1, "01")),
                ("nonce0", "nonce2^32", base_ops(0, 5, 64, 1, "01"), base_ops(1 << 32, 5, 64, 1, "01")),
                ("nonce1", "nonce2^63+1", base_ops(1, 5, 64, 1, "01"), base_ops((1 << 63) + 1, 5, 64, 1, "01")),
                ("n5", "n6", base_ops(7, 5, 64, 1, "01"), base_ops(7, 6, 64, 1, "01")),
                ("dom64", "dom128", base_ops(7, 5, 64, 1, "01"), base_ops(7, 5, 128, 1, "01")),
                ("deg1", "deg2", base_ops(7, 5, 64, 1, "01"), base_ops(7, 5, 64, 2, "01")),
                ("rs01", "rs02", base_ops(7, 5, 64, 1, "01"), base_ops(7, 5, 64, 1, "02")),
            ] {
                variants.push((format!("{}->{}", la, lb), format!("3,4|{}", a), format!("3,4|{}", b)));
            }
            variants.push(("seed3,4->seed3,5".into(), format!("3,4|{}", base_ops(7, 5, 64, 1, "01")), format!("3,5|{}", base_ops(7, 5, 64, 1, "01"))));
            variants.push(("seed3->seed3,0".into(), format!("3|{}", base_ops(7, 5, 64, 1, "01")), format!("3,0|{}", base_ops(7, 5, 64, 1, "01"))));
            for (label, a, b) in variants {
                let (sa, oa) = a.split_once('|').unwrap();
                let (sb, ob) = b.split_once('|').unwrap();
                if let (Some(la), Some(lb)) = (line(sa, oa), line(sb, ob)) {
                    if la.len() + lb.len() < 40_000 {
                        emit(format!("tag {}.{}:{} ;; {} ;; {}", h, f, label, la, lb));
                        emit(format!("tag {}.{}:{}:rev ;; {} ;; {}", h, f, label, lb, la));
                        emit(format!("tag {}.{}:{}:aba ;; {} ;; {} ;; {}", h, f, label, la, lb, la));
                    }
                }
            }
            // random pairs
            for _ in 0..(if thorough { 60 } else { 8 }) {
                let oa = rand_ops(rng, 4, true).join(" ");
                let ob = rand_ops(rng, 4, true).join(" ");
                let (sa, sb) = (rand_seed(rng, f), rand_seed(rng, f));
                if let (Some(la), Some(lb)) = (line(&sa, &oa), line(&sb, &ob)) {
                    if la.len() + lb.len() < 40_000 {
                        emit(format!("tag {}.{}:random ;; {} ;; {} ;; {}", h, f, la, lb, la));
                    }
                }
            }
        }
        // across hashers and fields: a coin over one hasher / field must not disturb the next one
        emit("tag cross ;; run toy0 f64 1 d:1 lz:3 ;; run toy0 f62 1 d:1 lz:3 ;; run toy1 f64 1 d:1 lz:3 ;; run toy0 f64 1 d:1 lz:3".to_string());
    }
    // --- malformed stream
    for l in ["", "run", "run toy0", "run toy0 f64", "run toy0 f65 1 d:1", "run toy0 f64 1 d:4", "run toy0 f64 x d:1", "run toy0 f64 1 zz", "run toy0 f64 1 di:1:2", "run toy0 f64 1 rs:0", "oracle b3_256 f64 1"] {
        emit(l.to_string());
    }
}

impl Prop for P {
    fn id(&self) -> &'static str {
        "C19"
    }
    fn gen(&self, rng: &mut Rng, tier: Tier, n: usize, emit: &mut dyn FnMut(String)) {
        let mut lines: Vec<String> = vec![];
        gen_all(rng, tier, n, &mut |l| lines.push(l));
        let k = 16;
        for i in 0..k {
            for j in (i..lines.len()).step_by(k) {
                emit(std::mem::take(&mut lines[j]));
            }
        }
    }
    fn exec(&self, line: &str) -> Outcome {
        let t: Vec<&str> = line.split(' ').collect();
        match t[0] {
            "tag" => Outcome::ok(if t.len() == 2 { "t" } else { "bad-op" }),
            "run" => exec_run(&t[1..], false),
            "oracle" => exec_run(&t[1..], true),
            "pow" => exec_pow(&t[1..]),
            "bnd" => exec_bnd(&t[1..]),
            "rnd" => exec_rnd(&t[1..]),
            _ => Outcome::ok("bad-op"),
        }
    }
    fn timeout_ms(&self) -> u64 {
        60_000
    }
    fn class(&self, line: &str, out: &str) -> String {
        let t: Vec<&str> = line.split(' ').collect();
        if line.contains(" ;; ") {
            let label = if t[0] == "tag" { t.get(1).copied().unwrap_or("") } else { "unlabelled" };
            return format!("hist:{}:{}", label, if out.contains("panic") { "panic" } else { "ok" });
        }
        if t[0] == "rnd" {
            let len = t.get(2).map(|h| if *h == "-" { 0 } else { h.len() / 2 }).unwrap_or(0);
            let w = t.get(1).and_then(|w| w.parse::<usize>().ok()).unwrap_or(0);
            let rel = if len < w / 8 { "short" } else if len == w / 8 { "exact" } else { "long" };
            return format!("rnd.u{}.{}:{}", w, rel, out.split(' ').next().unwrap_or(""));
        }
        let o = if out == "bad-op" {
            "bad-op"
        } else if out.ends_with("panic") {
            "panic"
        } else if out.contains("err") {
            "ok+err"
        } else {
            "ok"
        };
        format!("{}.{}.{}:{}", t[0], t.get(1).unwrap_or(&""), t.get(2).unwrap_or(&""), o)
    }
    fn rule(&self) -> &'static str {
        "coin histories (seed of 0..6 base elements incl. 0, 1, M-1; 1..12 operations out of reseed / draw of a base, quadratic or cubic element / \
         draw_integers with counts 1..255 (boundaries 0, domain-1, domain, 1000, 1001), power-of-two domains 2^1..2^63 (and non powers of two), nonces \
         0, 2^64-1, random / check_leading_zeros / the prover's nonce search) over the three fields: toy hashers (plain, 75% all-ones digests, 100% all-ones \
         digests) compared with the Lean model; the six real hashers judged by the shadow coin, and a third of them replayed by the model from a recorded \
         digest table; every history is also run twice (determinism) and against four minimally different histories (sensitivity); bnd lines compare merge_with_int digests, \
         check_leading_zeros, query positions and later draws pairwise over boundary nonces (0, 1, p-1, p, p+1, 2p-1, 2p, ... for the three moduli, 2^32+-1, 2^62, 2^63, 2^64-1) \
         after histories with boundary reseed digests, for the six real hashers and the toy one; numbers of earlier draws and requested counts 0/1/255/256/1000/1001. A case is non-trivial \
         when its op line is distinct."
    }
}

fn main() {
    wf_harness::core::main_for(&P);
}
