//! C18: security estimate and acceptance policy.
//! Op lines mirror lean/Winter/Drv/C18.lean.
//!   opts q b g ext ff fr                                   ProofOptions::new -> ok | panic
//!   bits modhex                                            Context::num_modulus_bits
//!   conj b g ext log2len modhex hname cr                   security_level::<H>(true) for q = 1..255 (run-length coded)
//!   prov b g ext log2len modhex hname cr q1 q2             security_level::<H>(false) for q = q1..q2
//!   gconj b g ext log2len modhex hname cr                  the same sweep as `conj`; the model side evaluates the definition REGENERATED from
//!                                                          get_conjectured_security (Winter/Gen/Security.lean): translation validation (tie T)
//!   alpha b log2len                                        side condition 0 <= 1-theta_plus < 1 over the m range
//!   validate POL q b g ext ff fr log2len modhex hname cr [k o..]            AcceptableOptions::validate
//!   verify CFG EB airmodhex quad cube airok POL q b g ext ff fr log2len modhex hname cr [k o..]   verify()
//! Oracle (independent of the Lean model): the documented formula of the conjectured estimate written
//! directly on i128, monotonicity between neighbouring tuples (q+1, g+1, ext+1, next larger collision
//! resistance), the policy "reject iff level < minimum / options not in the set", and for verify():
//! a proof whose modulus bytes differ from the AIR's field must be refused with InconsistentBaseField.
#![allow(dead_code, unused_variables, unused_imports, unused_mut)]
use std::{collections::HashMap, marker::PhantomData, sync::Mutex};

use wf_harness::core::*;
use winter_air::{
    proof::{Context, Proof},
    Air, AirContext, Assertion, AuxRandElements, ConstraintCompositionCoefficients, EvaluationFrame, FieldExtension,
    ProofOptions, TraceInfo, TransitionConstraintDegree,
};
use winter_crypto::{
    hashers::{Blake3_192, Blake3_256, Rp62_248, Rp64_256, RpJive64_256, Sha3_256},
    DefaultRandomCoin, Digest, ElementHasher, Hasher,
};
use winter_math::{
    fields::{f128, f62, f64},
    ExtensibleField, FieldElement, StarkField, ToElements,
};
use winter_prover::{
    matrix::ColMatrix, DefaultConstraintEvaluator, DefaultTraceLde, Prover, StarkDomain, Trace, TracePolyTable, TraceTable,
};
use winter_utils::{ByteReader, ByteWriter, Deserializable, DeserializationError, Serializable};
use winter_verifier::{verify, AcceptableOptions, VerifierError};

pub struct P;

// ------------------------------------------------------------------------------------ hashers
#[derive(Debug, Default, Copy, Clone, PartialEq, Eq)]
pub struct D32([u8; 32]);
impl Digest for D32 {
    fn as_bytes(&self) -> [u8; 32] {
        self.0
    }
}
impl Serializable for D32 {
    fn write_into<W: ByteWriter>(&self, t: &mut W) {
        t.write_bytes(&self.0)
    }
}
impl Deserializable for D32 {
    fn read_from<R: ByteReader>(s: &mut R) -> Result<Self, DeserializationError> {
        Ok(D32(s.read_array()?))
    }
}
/// a hasher type whose only relevant property is its declared collision resistance
pub struct CrH<const CR: u32>;
impl<const CR: u32> Hasher for CrH<CR> {
    type Digest = D32;
    const COLLISION_RESISTANCE: u32 = CR;
    fn hash(_b: &[u8]) -> D32 {
        D32::default()
    }
    fn merge(_v: &[D32; 2]) -> D32 {
        D32::default()
    }
    fn merge_with_int(s: D32, _v: u64) -> D32 {
        s
    }
}

trait HJob {
    type Out;
    fn run<H: Hasher>(self) -> Self::Out;
}

const CR_SYN: [u32; 18] = [0, 1, 31, 64, 79, 80, 81, 96, 100, 124, 127, 128, 129, 160, 192, 255, 256, 4294967295];
/// hasher names in increasing order of collision resistance (used for the "next larger cr" neighbour)
const HNAMES: [&str; 24] = [
    "cr0", "cr1", "cr31", "cr64", "cr79", "cr80", "cr81", "b3_192", "cr96", "cr100", "rp62", "cr124", "cr127", "b3_256",
    "sha3", "rp64", "rpj64", "cr128", "cr129", "cr160", "cr192", "cr255", "cr256", "cr4294967295",
];

fn dispatch<J: HJob>(hname: &str, j: J) -> Option<J::Out> {
    type B = f64::BaseElement;
    Some(match hname {
        "b3_256" => j.run::<Blake3_256<B>>(),
        "b3_192" => j.run::<Blake3_192<B>>(),
        "sha3" => j.run::<Sha3_256<B>>(),
        "rp64" => j.run::<Rp64_256>(),
        "rpj64" => j.run::<RpJive64_256>(),
        "rp62" => j.run::<Rp62_248>(),
        "cr0" => j.run::<CrH<0>>(),
        "cr1" => j.run::<CrH<1>>(),
        "cr31" => j.run::<CrH<31>>(),
        "cr64" => j.run::<CrH<64>>(),
        "cr79" => j.run::<CrH<79>>(),
        "cr80" => j.run::<CrH<80>>(),
        "cr81" => j.run::<CrH<81>>(),
        "cr96" => j.run::<CrH<96>>(),
        "cr100" => j.run::<CrH<100>>(),
        "cr124" => j.run::<CrH<124>>(),
        "cr127" => j.run::<CrH<127>>(),
        "cr128" => j.run::<CrH<128>>(),
        "cr129" => j.run::<CrH<129>>(),
        "cr160" => j.run::<CrH<160>>(),
        "cr192" => j.run::<CrH<192>>(),
        "cr255" => j.run::<CrH<255>>(),
        "cr256" => j.run::<CrH<256>>(),
        "cr4294967295" => j.run::<CrH<4294967295>>(),
        _ => return None,
    })
}

struct CrOf;
impl HJob for CrOf {
    type Out = u32;
    fn run<H: Hasher>(self) -> u32 {
        H::COLLISION_RESISTANCE
    }
}
fn cr_of(hname: &str) -> Option<u32> {
    dispatch(hname, CrOf)
}
fn next_hasher(hname: &str) -> Option<&'static str> {
    let cr = cr_of(hname)?;
    HNAMES.iter().copied().find(|h| cr_of(h).unwrap() > cr)
}

fn unhex_opt(s: &str) -> Option<Vec<u8>> {
    if s == "-" {
        return Some(vec![]);
    }
    if s.len() % 2 != 0 || !s.bytes().all(|c| c.is_ascii_hexdigit()) {
        return None;
    }
    Some(unhex(s))
}

// ------------------------------------------------------------------------------------ contexts
#[derive(Clone, Copy, Debug, PartialEq, Eq)]
struct Opt {
    q: u64,
    b: u64,
    g: u64,
    ext: u64,
    ff: u64,
    fr: u64,
}

fn ext_of(e: u64) -> Option<FieldExtension> {
    match e {
        1 => Some(FieldExtension::None),
        2 => Some(FieldExtension::Quadratic),
        3 => Some(FieldExtension::Cubic),
        _ => None,
    }
}

fn ctx_bytes(width: u8, o: &Opt, log2len: u8, modulus: &[u8]) -> Vec<u8> {
    let mut v = vec![width, 0, 0, log2len, 0, 0, modulus.len() as u8];
    v.extend_from_slice(modulus);
    v.extend_from_slice(&[o.q as u8, o.b as u8, o.g as u8, o.ext as u8, o.ff as u8, o.fr as u8]);
    v
}

/// a context read from bytes (the only way to get trace lengths above 2^32 / foreign moduli)
fn make_ctx(width: u8, o: &Opt, log2len: u8, modulus: &[u8]) -> Option<Context> {
    if o.q > 255 || o.b > 255 || o.g > 255 || o.ff > 255 || o.fr > 255 || modulus.is_empty() || modulus.len() > 255 {
        return None;
    }
    guarded(|| Context::read_from_bytes(&ctx_bytes(width, o, log2len, modulus)).ok()).ok().flatten()
}

fn dummy_proof(ctx: Context) -> Proof {
    let mut p = Proof::new_dummy();
    p.context = ctx;
    p
}

struct Level<'a> {
    proof: &'a Proof,
    conj: bool,
}
impl<'a> HJob for Level<'a> {
    type Out = Option<u32>;
    fn run<H: Hasher>(self) -> Option<u32> {
        guarded(|| self.proof.security_level::<H>(self.conj)).ok()
    }
}

fn level(hname: &str, o: &Opt, log2len: u8, modulus: &[u8], conj: bool) -> Option<Option<u32>> {
    let ctx = make_ctx(1, o, log2len, modulus)?;
    let p = dummy_proof(ctx);
    dispatch(hname, Level { proof: &p, conj })
}

// ------------------------------------------------------------------------------------ oracle
fn bit_length(bytes: &[u8]) -> u128 {
    let mut n = 0u128;
    for (i, b) in bytes.iter().enumerate() {
        for k in 0..8 {
            if (b >> k) & 1 == 1 {
                n = (8 * i + k + 1) as u128;
            }
        }
    }
    n
}

fn log2_exact(x: u64) -> i128 {
    let mut k = 0;
    while (1u128 << (k + 1)) <= x as u128 {
        k += 1;
    }
    k
}

/// the documented formula: min(min(field_bits*ext - log2(lde), q*log2(blowup) [+ grinding if >= 80]) - 1, cr);
/// None when a machine integer of the implementation would wrap
fn documented(fb: u128, o: &Opt, log2len: u8, cr: u32) -> Option<u128> {
    let lb = log2_exact(o.b);
    let lde_log2 = log2len as i128 + lb;
    if lde_log2 >= 64 {
        return None;
    }
    let fs = fb as i128 * o.ext as i128 - lde_log2;
    if fs < 0 {
        return None;
    }
    let mut qs = o.q as i128 * lb;
    if qs >= 80 {
        qs += o.g as i128;
    }
    let m = fs.min(qs) - 1;
    if m < 0 {
        return None;
    }
    Some((m as u128).min(cr as u128))
}

fn rle(xs: &[String]) -> String {
    let mut out: Vec<String> = vec![];
    let mut i = 0;
    while i < xs.len() {
        let mut j = i;
        while j + 1 < xs.len() && xs[j + 1] == xs[i] {
            j += 1;
        }
        let k = j - i + 1;
        out.push(if k > 1 { format!("{}*{}", xs[i], k) } else { xs[i].clone() });
        i = j + 1;
    }
    out.join(",")
}

fn show(l: Option<u32>) -> String {
    match l {
        Some(v) => v.to_string(),
        None => "p".into(),
    }
}

/// monotonicity between a tuple and one neighbour: the neighbour must not panic when the tuple does
/// not, and its level must not be smaller
fn mono(o: &mut Outcome, site: &str, what: &str, l: Option<u32>, l2: Option<Option<u32>>, desc: &str) {
    if let (Some(a), Some(b)) = (l, l2) {
        match b {
            None => o.fails.push((format!("{}.mono.{}", site, what), format!("{}: level {} but the neighbour panics", desc, a))),
            Some(b) if b < a => {
                o.fails.push((format!("{}.mono.{}", site, what), format!("{}: level {} decreases to {}", desc, a, b)))
            },
            _ => {},
        }
    }
}

fn sweep(conj: bool, t: &[&str]) -> Outcome {
    let p = |s: &str| s.parse::<u64>().ok();
    let (b, g, e, l2, modhex, hname, cr) = (t[0], t[1], t[2], t[3], t[4], t[5], t[6]);
    let (Some(b), Some(g), Some(e), Some(l2), Some(cr)) = (p(b), p(g), p(e), p(l2), p(cr)) else {
        return Outcome::ok("bad-op");
    };
    let (q1, q2) = if conj {
        (1u64, 255u64)
    } else {
        match (p(t[7]), p(t[8])) {
            (Some(a), Some(b)) => (a, b),
            _ => return Outcome::ok("bad-op"),
        }
    };
    let Some(modulus) = unhex_opt(modhex) else { return Outcome::ok("bad-op") };
    if cr_of(hname) != Some(cr as u32) || modulus.is_empty() || l2 > 63 || q2 > 255 || b > 255 || g > 255 {
        return Outcome::ok("bad-op");
    }
    let site = if conj { "conj" } else { "prov" };
    let fb = bit_length(&modulus);
    let nh = next_hasher(hname);
    let mut o = Outcome::ok("");
    let mut outs = vec![];
    let mut prev: Option<Option<u32>> = None;
    for q in q1..=q2 {
        let op = Opt { q, b, g, ext: e, ff: 8, fr: 0 };
        let Some(l) = level(hname, &op, l2 as u8, &modulus, conj) else {
            // the context is refused by Context::read_from (trace length / LDE domain size above u32::MAX)
            return Outcome::ok("noctx");
        };
        let desc = format!("q={} b={} g={} ext={} log2len={} bits={} cr={}", q, b, g, e, l2, fb, cr);
        if conj {
            let exp = documented(fb, &op, l2 as u8, cr as u32);
            if let Some(x) = exp {
                if l.map(|v| v as u128) != Some(x) {
                    o.fails.push(("conj.formula".into(), format!("{}: got {} documented {}", desc, show(l), x)));
                }
            }
        } else if let Some(v) = l {
            if v > cr as u32 {
                o.fails.push(("prov.above-cr".into(), format!("{}: {} > collision resistance", desc, v)));
            }
        }
        if let Some(pl) = prev {
            mono(&mut o, site, "queries", pl, Some(l), &format!("{} (from q-1)", desc));
        }
        if g < 32 {
            mono(&mut o, site, "grinding", l, level(hname, &Opt { g: g + 1, ..op }, l2 as u8, &modulus, conj), &desc);
        }
        if e < 3 {
            mono(&mut o, site, "extension", l, level(hname, &Opt { ext: e + 1, ..op }, l2 as u8, &modulus, conj), &desc);
        }
        if let Some(nh) = nh {
            mono(&mut o, site, "collision-resistance", l, level(nh, &op, l2 as u8, &modulus, conj), &desc);
        }
        prev = Some(l);
        outs.push(show(l));
    }
    o.out = rle(&outs);
    o
}

/// the queries sweep of `conj` without the oracle's neighbour evaluations: these lines are compared with the
/// Lean definition regenerated from `get_conjectured_security` on this run (translation validation)
fn sweep_plain(t: &[&str]) -> Outcome {
    let p = |s: &str| s.parse::<u64>().ok();
    let (Some(b), Some(g), Some(e), Some(l2), Some(cr)) = (p(t[0]), p(t[1]), p(t[2]), p(t[3]), p(t[6])) else {
        return Outcome::ok("bad-op");
    };
    let Some(modulus) = unhex_opt(t[4]) else { return Outcome::ok("bad-op") };
    if cr_of(t[5]) != Some(cr as u32) || modulus.is_empty() || l2 > 63 || b > 255 || g > 255 {
        return Outcome::ok("bad-op");
    }
    let mut outs = vec![];
    for q in 1..=255u64 {
        let op = Opt { q, b, g, ext: e, ff: 8, fr: 0 };
        let Some(l) = level(t[5], &op, l2 as u8, &modulus, true) else {
            return Outcome::ok("noctx");
        };
        outs.push(show(l));
    }
    Outcome::ok(rle(&outs))
}

// ------------------------------------------------------------------------------------ alpha side condition
/// `1 - theta_plus` of proven_security_protocol_for_m, recomputed here from the paper's formulas
fn alpha_base(b: u64, n: f64, m: f64) -> f64 {
    let rho = 1.0 / b as f64;
    let alpha = (1.0 + 0.5 / m) * rho.sqrt();
    let lde = n * b as f64;
    let rho_plus = (n + 2.0) / lde;
    let m_plus = (1.0 / (2.0 * (alpha / rho_plus.sqrt() - 1.0))).ceil();
    let alpha_plus = (1.0 + 0.5 / m_plus) * rho_plus.sqrt();
    let theta_plus = 1.0 - alpha_plus;
    1.0 - theta_plus
}

fn upper_m(h: f64) -> u64 {
    let m_max = (0.25 * h * (1.0 + (1.0 + 2.0 / h).sqrt())).ceil();
    (m_max as u64).min(1000)
}

// ------------------------------------------------------------------------------------ policy
struct Pol {
    kind: String,
    min: u32,
    set: Vec<Opt>,
}

struct Parsed {
    pol: Pol,
    opt: Opt,
    log2len: u8,
    modulus: Vec<u8>,
    hname: String,
    cr: u32,
}

fn parse_policy(t: &[&str]) -> Option<Parsed> {
    let p = |s: &str| s.parse::<u64>().ok();
    let (kind, min, rest) = match t.first()? {
        &"conj" | &"proven" => (t[0], p(t.get(1)?)?, &t[2..]),
        &"set" => ("set", 0, &t[1..]),
        _ => return None,
    };
    if rest.len() < 10 || min > u32::MAX as u64 {
        return None;
    }
    let n: Option<Vec<u64>> = rest[..7].iter().map(|s| p(s)).collect();
    let n = n?;
    let opt = Opt { q: n[0], b: n[1], g: n[2], ext: n[3], ff: n[4], fr: n[5] };
    ext_of(opt.ext)?;
    let log2len = n[6];
    let modulus = unhex_opt(rest[7])?;
    let hname = rest[8].to_string();
    let cr = p(rest[9])?;
    if cr_of(&hname) != Some(cr as u32) || log2len > 63 {
        return None;
    }
    let tail: Option<Vec<u64>> = rest[10..].iter().map(|s| p(s)).collect();
    let tail = tail?;
    let mut set = vec![];
    if !tail.is_empty() {
        let body = &tail[1..];
        if body.len() % 6 != 0 {
            return None;
        }
        for c in body.chunks(6) {
            ext_of(c[3])?;
            set.push(Opt { q: c[0], b: c[1], g: c[2], ext: c[3], ff: c[4], fr: c[5] });
        }
    }
    Some(Parsed { pol: Pol { kind: kind.into(), min: min as u32, set }, opt, log2len: log2len as u8, modulus, hname, cr: cr as u32 })
}

fn mk_options(o: &Opt) -> Option<ProofOptions> {
    let e = ext_of(o.ext)?;
    guarded(|| ProofOptions::new(o.q as usize, o.b as usize, o.g as u32, e, o.ff as usize, o.fr as usize)).ok()
}

fn mk_acceptable(pol: &Pol) -> Option<AcceptableOptions> {
    Some(match pol.kind.as_str() {
        "conj" => AcceptableOptions::MinConjecturedSecurity(pol.min),
        "proven" => AcceptableOptions::MinProvenSecurity(pol.min),
        _ => {
            let mut v = vec![];
            for o in &pol.set {
                v.push(mk_options(o)?);
            }
            AcceptableOptions::OptionSet(v)
        },
    })
}

fn err_str(e: &VerifierError) -> Option<String> {
    Some(match e {
        VerifierError::InconsistentBaseField => "err field".into(),
        VerifierError::UnsupportedFieldExtension(d) => format!("err ext {}", d),
        VerifierError::InsufficientConjecturedSecurity(m, l) => format!("err conj {} {}", m, l),
        VerifierError::InsufficientProvenSecurity(m, l) => format!("err proven {} {}", m, l),
        VerifierError::UnacceptableProofOptions => "err options".into(),
        _ => return None,
    })
}

/// what the policy must answer, computed independently: Ok(()) = accept, Err(text) = that error;
/// None = no expectation (the level computation itself is outside the admissible range)
fn expected_policy(x: &Parsed, proven_level: Option<u32>) -> Option<Result<(), String>> {
    match x.pol.kind.as_str() {
        "conj" => {
            let l = documented(bit_length(&x.modulus), &x.opt, x.log2len, x.cr)?;
            Some(if l < x.pol.min as u128 { Err(format!("err conj {} {}", x.pol.min, l)) } else { Ok(()) })
        },
        "proven" => {
            let l = proven_level?;
            Some(if l < x.pol.min { Err(format!("err proven {} {}", x.pol.min, l)) } else { Ok(()) })
        },
        _ => Some(if x.pol.set.iter().any(|o| *o == x.opt) { Ok(()) } else { Err("err options".into()) }),
    }
}

struct Validate<'a> {
    acc: &'a AcceptableOptions,
    proof: &'a Proof,
}
impl<'a> HJob for Validate<'a> {
    type Out = Result<Result<(), VerifierError>, String>;
    fn run<H: Hasher>(self) -> Self::Out {
        guarded(|| self.acc.validate::<H>(self.proof))
    }
}

fn exec_validate(t: &[&str]) -> Outcome {
    let Some(x) = parse_policy(t) else { return Outcome::ok("bad-op") };
    let Some(acc) = mk_acceptable(&x.pol) else { return Outcome::ok("bad-op") };
    let Some(ctx) = make_ctx(1, &x.opt, x.log2len, &x.modulus) else { return Outcome::ok("noctx") };
    let proof = dummy_proof(ctx);
    let r = dispatch(&x.hname, Validate { acc: &acc, proof: &proof }).unwrap();
    let out = match &r {
        Ok(Ok(())) => "ok".to_string(),
        Ok(Err(e)) => err_str(e).unwrap_or_else(|| "err other".into()),
        Err(_) => "panic".into(),
    };
    let mut o = Outcome::ok(out.clone());
    let pl = if x.pol.kind == "proven" { dispatch(&x.hname, Level { proof: &proof, conj: false }).unwrap() } else { None };
    if let Some(exp) = expected_policy(&x, pl) {
        let want = match exp {
            Ok(()) => "ok".to_string(),
            Err(s) => s,
        };
        if out != want {
            o = o.fail(format!("validate.{}", x.pol.kind), format!("got `{}` but the policy says `{}`", out, want));
        }
    }
    o
}

// ------------------------------------------------------------------------------------ a real (tiny) proof
pub struct FibAir<B: StarkField> {
    context: AirContext<B>,
    result: B,
}

impl<B: StarkField + ExtensibleField<2> + ExtensibleField<3> + 'static> Air for FibAir<B> {
    type BaseField = B;
    type PublicInputs = B;
    type GkrProof = ();
    type GkrVerifier = ();

    fn new(trace_info: TraceInfo, pub_inputs: B, options: ProofOptions) -> Self {
        let degrees = vec![TransitionConstraintDegree::new(1), TransitionConstraintDegree::new(1)];
        FibAir { context: AirContext::new(trace_info, degrees, 3, options), result: pub_inputs }
    }
    fn context(&self) -> &AirContext<B> {
        &self.context
    }
    fn evaluate_transition<E: FieldElement<BaseField = B>>(&self, frame: &EvaluationFrame<E>, _p: &[E], result: &mut [E]) {
        let c = frame.current();
        let n = frame.next();
        result[0] = n[0] - (c[0] + c[1]);
        result[1] = n[1] - (c[1] + n[0]);
    }
    fn get_assertions(&self) -> Vec<Assertion<B>> {
        let last = self.trace_length() - 1;
        vec![Assertion::single(0, 0, B::ONE), Assertion::single(1, 0, B::ONE), Assertion::single(1, last, self.result)]
    }
}

pub struct FibProver<B: StarkField, H: ElementHasher> {
    options: ProofOptions,
    _p: PhantomData<(B, H)>,
}

impl<B, H> Prover for FibProver<B, H>
where
    B: StarkField + ExtensibleField<2> + ExtensibleField<3> + 'static,
    H: ElementHasher<BaseField = B> + Send + Sync,
{
    type BaseField = B;
    type Air = FibAir<B>;
    type Trace = TraceTable<B>;
    type HashFn = H;
    type RandomCoin = DefaultRandomCoin<H>;
    type TraceLde<E: FieldElement<BaseField = B>> = DefaultTraceLde<E, H>;
    type ConstraintEvaluator<'a, E: FieldElement<BaseField = B>> = DefaultConstraintEvaluator<'a, FibAir<B>, E>;

    fn get_pub_inputs(&self, trace: &Self::Trace) -> B {
        trace.get(1, trace.length() - 1)
    }
    fn options(&self) -> &ProofOptions {
        &self.options
    }
    fn new_trace_lde<E: FieldElement<BaseField = B>>(
        &self,
        trace_info: &TraceInfo,
        main_trace: &ColMatrix<B>,
        domain: &StarkDomain<B>,
    ) -> (Self::TraceLde<E>, TracePolyTable<E>) {
        DefaultTraceLde::new(trace_info, main_trace, domain)
    }
    fn new_evaluator<'a, E: FieldElement<BaseField = B>>(
        &self,
        air: &'a FibAir<B>,
        aux: Option<AuxRandElements<E>>,
        cc: ConstraintCompositionCoefficients<E>,
    ) -> Self::ConstraintEvaluator<'a, E> {
        DefaultConstraintEvaluator::new(air, aux, cc)
    }
}

fn fib_proof<B, H>(options: ProofOptions, len: usize) -> (Vec<u8>, B)
where
    B: StarkField + ExtensibleField<2> + ExtensibleField<3> + 'static,
    H: ElementHasher<BaseField = B> + Send + Sync,
{
    let mut trace = TraceTable::<B>::new(2, len);
    trace.fill(
        |s| {
            s[0] = B::ONE;
            s[1] = B::ONE;
        },
        |_, s| {
            s[0] += s[1];
            s[1] += s[0];
        },
    );
    let result = trace.get(1, len - 1);
    let prover = FibProver::<B, H> { options, _p: PhantomData };
    let proof = prover.prove(trace).expect("proving the Fibonacci trace");
    (proof.to_bytes(), result)
}

/// CFG = field/hname/q/b/g/ext/ff/fr/log2len: the parameters the honest proof is generated with
#[derive(Clone)]
struct Cfg {
    field: String,
    hname: String,
    opt: Opt,
    log2len: u8,
}

fn parse_cfg(s: &str) -> Option<Cfg> {
    let p: Vec<&str> = s.split('/').collect();
    if p.len() != 9 {
        return None;
    }
    let n: Option<Vec<u64>> = p[2..].iter().map(|x| x.parse::<u64>().ok()).collect();
    let n = n?;
    Some(Cfg {
        field: p[0].into(),
        hname: p[1].into(),
        opt: Opt { q: n[0], b: n[1], g: n[2], ext: n[3], ff: n[4], fr: n[5] },
        log2len: n[6] as u8,
    })
}

static PROOFS: Mutex<Option<HashMap<String, (Vec<u8>, u128)>>> = Mutex::new(None);

fn field_modulus(field: &str) -> Vec<u8> {
    match field {
        "f64" => f64::BaseElement::get_modulus_le_bytes(),
        "f62" => f62::BaseElement::get_modulus_le_bytes(),
        _ => f128::BaseElement::get_modulus_le_bytes(),
    }
}

macro_rules! with_cfg {
    ($field:expr, $hname:expr, $f:ident, $($args:expr),*) => {
        match ($field, $hname) {
            ("f64", "b3_256") => Some($f::<f64::BaseElement, Blake3_256<f64::BaseElement>>($($args),*)),
            ("f64", "b3_192") => Some($f::<f64::BaseElement, Blake3_192<f64::BaseElement>>($($args),*)),
            ("f64", "sha3") => Some($f::<f64::BaseElement, Sha3_256<f64::BaseElement>>($($args),*)),
            ("f64", "rp64") => Some($f::<f64::BaseElement, Rp64_256>($($args),*)),
            ("f64", "rpj64") => Some($f::<f64::BaseElement, RpJive64_256>($($args),*)),
            ("f62", "b3_256") => Some($f::<f62::BaseElement, Blake3_256<f62::BaseElement>>($($args),*)),
            ("f62", "b3_192") => Some($f::<f62::BaseElement, Blake3_192<f62::BaseElement>>($($args),*)),
            ("f62", "rp62") => Some($f::<f62::BaseElement, Rp62_248>($($args),*)),
            ("f128", "b3_256") => Some($f::<f128::BaseElement, Blake3_256<f128::BaseElement>>($($args),*)),
            ("f128", "b3_192") => Some($f::<f128::BaseElement, Blake3_192<f128::BaseElement>>($($args),*)),
            ("f128", "sha3") => Some($f::<f128::BaseElement, Sha3_256<f128::BaseElement>>($($args),*)),
            _ => None,
        }
    };
}

fn build_proof<B, H>(c: &Cfg) -> (Vec<u8>, u128)
where
    B: StarkField + ExtensibleField<2> + ExtensibleField<3> + 'static,
    H: ElementHasher<BaseField = B> + Send + Sync,
{
    let options = mk_options(&c.opt).expect("cfg options");
    let (bytes, result) = fib_proof::<B, H>(options, 1usize << c.log2len);
    let mut rb = result.to_bytes();
    rb.resize(16, 0);
    (bytes, u128::from_le_bytes(rb.try_into().unwrap()))
}

fn get_proof(cfg_s: &str, c: &Cfg) -> Option<(Vec<u8>, u128)> {
    let mut g = PROOFS.lock().unwrap();
    let map = g.get_or_insert_with(HashMap::new);
    if let Some(v) = map.get(cfg_s) {
        return Some(v.clone());
    }
    let v = with_cfg!(c.field.as_str(), c.hname.as_str(), build_proof, c)?;
    map.insert(cfg_s.to_string(), v.clone());
    Some(v)
}

fn run_verify<B, H>(proof: Proof, result: u128, acc: &AcceptableOptions) -> Result<Result<(), VerifierError>, String>
where
    B: StarkField + ExtensibleField<2> + ExtensibleField<3> + 'static,
    H: ElementHasher<BaseField = B> + Send + Sync,
{
    let mut rb = result.to_le_bytes().to_vec();
    rb.truncate(B::ELEMENT_BYTES);
    let pub_in = B::read_from_bytes(&rb).expect("public input");
    guarded(move || verify::<FibAir<B>, H, DefaultRandomCoin<H>>(proof, pub_in, acc))
}

fn two_adicity(field: &str) -> u32 {
    match field {
        "f64" => f64::BaseElement::TWO_ADICITY,
        "f62" => f62::BaseElement::TWO_ADICITY,
        _ => f128::BaseElement::TWO_ADICITY,
    }
}

fn exec_verify(t: &[&str]) -> Outcome {
    if t.len() < 7 {
        return Outcome::ok("bad-op");
    }
    let Some(cfg) = parse_cfg(t[0]) else { return Outcome::ok("bad-op") };
    let p = |s: &str| s.parse::<u64>().ok();
    let (Some(eb), Some(quad), Some(cube), Some(airok)) = (p(t[1]), p(t[3]), p(t[4]), p(t[5])) else {
        return Outcome::ok("bad-op");
    };
    let Some(airmod) = unhex_opt(t[2]) else { return Outcome::ok("bad-op") };
    let Some(x) = parse_policy(&t[6..]) else { return Outcome::ok("bad-op") };
    // the line must describe the verifier side truthfully
    let elem_bytes = match cfg.field.as_str() {
        "f128" => 16,
        _ => 8,
    };
    let real_quad = 1;
    let real_cube = if cfg.field == "f128" { 0 } else { 1 };
    let real_airok = (x.log2len as u32 + log2_exact(x.opt.b) as u32 <= two_adicity(&cfg.field)) as u64;
    if airmod != field_modulus(&cfg.field)
        || eb != elem_bytes
        || quad != real_quad
        || cube != real_cube
        || airok != real_airok
        || x.hname != cfg.hname
    {
        return Outcome::ok("bad-op");
    }
    let Some(acc) = mk_acceptable(&x.pol) else { return Outcome::ok("bad-op") };
    let Some((bytes, result)) = get_proof(t[0], &cfg) else { return Outcome::ok("bad-op") };
    let mut proof = Proof::from_bytes(&bytes).expect("own proof");
    let Some(ctx) = make_ctx(2, &x.opt, x.log2len, &x.modulus) else { return Outcome::ok("noctx") };
    let mutated = x.opt != cfg.opt || x.log2len != cfg.log2len || x.modulus != airmod;
    proof.context = ctx;
    let proven_level =
        if x.pol.kind == "proven" { dispatch(&x.hname, Level { proof: &proof, conj: false }).unwrap() } else { None };
    let r = with_cfg!(cfg.field.as_str(), cfg.hname.as_str(), run_verify, proof, result, &acc).unwrap();
    let mut info = String::new();
    let out = match &r {
        Ok(Ok(())) => "pass".to_string(),
        Ok(Err(e)) => err_str(e).unwrap_or_else(|| "pass".into()),
        Err(loc) => {
            info = loc.clone();
            // a panic raised by the top of verify() (level computation, context.to_elements(), AIR::new)
            // is the outcome `panic`; a panic further down is not this property's business
            if loc.contains("air/src/proof/")
                || loc.contains("ELEMENT_BYTES")
                || loc.contains("element deserialization failed")
                || airok == 0
            {
                "panic".into()
            } else {
                "pass".into()
            }
        },
    };
    let mut o = Outcome::ok(out.clone());
    if !info.is_empty() {
        o.fails.push(("#info".into(), info.clone()));
    }
    if x.modulus != airmod {
        // the claimed field is not the computation's field: refused, with an error
        if out == "panic" {
            o = o.fail("verify.field-mismatch.panic", format!("modulus bytes {} against a {} AIR: panic at {}", hex(&x.modulus), cfg.field, info));
        } else if !out.starts_with("err") {
            o = o.fail("verify.field-mismatch.not-refused", format!("modulus bytes {} against a {} AIR: `{}`", hex(&x.modulus), cfg.field, out));
        }
    } else if let Some(exp) = expected_policy(&x, proven_level) {
        match exp {
            Err(want) => {
                if out != want {
                    o = o.fail(format!("verify.policy.{}", x.pol.kind), format!("got `{}` but the policy says `{}`", out, want));
                }
            },
            Ok(()) if (x.opt.q as u128) >= ((1u128 << x.log2len) * x.opt.b as u128) => {
                // more queries than points in the LDE domain: refused right after the policy check
                if out != "err options" {
                    o = o.fail("verify.queries-vs-domain", format!("{} queries over a domain of {} points: `{}`", x.opt.q, (1u128 << x.log2len) * x.opt.b as u128, out));
                }
            },
            Ok(()) => {
                if out.starts_with("err conj") || out.starts_with("err proven") || out == "err options" {
                    o = o.fail(format!("verify.policy.{}", x.pol.kind), format!("acceptable parameters refused: `{}`", out));
                }
                if !mutated && !matches!(r, Ok(Ok(()))) {
                    o = o.fail("verify.honest-proof-rejected", format!("{:?}", r.as_ref().map(|x| x.as_ref().map_err(|e| e.to_string()))));
                }
            },
        }
    }
    o
}

// ------------------------------------------------------------------------------------ exec
fn exec_line(line: &str) -> Outcome {
    let t: Vec<&str> = line.split(' ').collect();
    let p = |s: &str| s.parse::<u64>().ok();
    match t.as_slice() {
        ["opts", q, b, g, e, ff, fr] => {
            let (Some(q), Some(b), Some(g), Some(e), Some(ff), Some(fr)) = (p(q), p(b), p(g), p(e), p(ff), p(fr)) else {
                return Outcome::ok("bad-op");
            };
            let Some(ext) = ext_of(e) else { return Outcome::ok("bad-op") };
            if g > u32::MAX as u64 {
                return Outcome::ok("bad-op");
            }
            let r = guarded(|| ProofOptions::new(q as usize, b as usize, g as u32, ext, ff as usize, fr as usize));
            let out = if r.is_ok() { "ok" } else { "panic" };
            let pow2 = |x: u64| x != 0 && x & (x - 1) == 0;
            let documented_ok = (1..=255).contains(&q)
                && pow2(b)
                && (2..=128).contains(&b)
                && g <= 32
                && [2, 4, 8, 16].contains(&ff)
                && fr <= 255
                && pow2(fr + 1);
            let mut o = Outcome::ok(out);
            if documented_ok != r.is_ok() {
                o = o.fail("opts.constructor", format!("documented acceptance {} but constructor {}", documented_ok, out));
            }
            if let Ok(po) = r {
                if po.num_queries() as u64 != q || po.blowup_factor() as u64 != b || po.grinding_factor() as u64 != g {
                    o = o.fail("opts.accessors", "stored options differ from the arguments");
                }
                // the remaining accessors (the estimate reads the extension degree through field_extension().degree())
                let fe = po.field_extension();
                let fo = po.to_fri_options();
                if fe != ext
                    || fe.degree() as u64 != e
                    || fe.is_none() != (e == 1)
                    || fo.folding_factor() as u64 != ff
                    || fo.remainder_max_degree() as u64 != fr
                    || fo.blowup_factor() as u64 != b
                    || po.domain_offset::<f64::BaseElement>() != f64::BaseElement::GENERATOR
                    || po.domain_offset::<f128::BaseElement>() != f128::BaseElement::GENERATOR
                {
                    o = o.fail("opts.accessors", "field_extension / to_fri_options / domain_offset differ from the arguments");
                }
            }
            o
        },
        ["tag", _] => Outcome::ok("t"),
        ["lvl", kind, q, b, g, e, l2, modhex, hname, cr] => {
            // ONE call of Proof::security_level (no neighbour evaluations): the building block of histories
            let v: Option<Vec<u64>> = [q, b, g, e, l2, cr].iter().map(|s| p(s)).collect();
            let (Some(v), Some(m)) = (v, unhex_opt(modhex)) else { return Outcome::ok("bad-op") };
            let conj = match *kind {
                "C" => true,
                "P" => false,
                _ => return Outcome::ok("bad-op"),
            };
            if cr_of(hname) != Some(v[5] as u32) || m.is_empty() || v[4] > 63 || ext_of(v[3]).is_none() {
                return Outcome::ok("bad-op");
            }
            let op = Opt { q: v[0], b: v[1], g: v[2], ext: v[3], ff: 8, fr: 0 };
            let Some(l) = level(hname, &op, v[4] as u8, &m, conj) else { return Outcome::ok("noctx") };
            let mut o = Outcome::ok(show(l));
            if conj {
                if let Some(x) = documented(bit_length(&m), &op, v[4] as u8, v[5] as u32) {
                    if l.map(|y| y as u128) != Some(x) {
                        o = o.fail("conj.formula", format!("got {} documented {}", show(l), x));
                    }
                }
            } else if let Some(y) = l {
                if y > v[5] as u32 {
                    o = o.fail("prov.above-cr", format!("{} > collision resistance {}", y, v[5]));
                }
            }
            o
        },
        ["bits", modhex] => {
            let Some(m) = unhex_opt(modhex) else { return Outcome::ok("bad-op") };
            let Some(ctx) = make_ctx(1, &Opt { q: 1, b: 2, g: 0, ext: 1, ff: 2, fr: 0 }, 3, &m) else {
                return Outcome::ok("bad-op");
            };
            let r = guarded(|| ctx.num_modulus_bits());
            match r {
                Ok(v) => {
                    let mut o = Outcome::ok(v.to_string());
                    if v as u128 != bit_length(&m) {
                        o = o.fail("bits.value", format!("num_modulus_bits {} but the bit length is {}", v, bit_length(&m)));
                    }
                    if ctx.field_modulus_bytes() != &m[..] {
                        o = o.fail("bits.modulus-bytes", "field_modulus_bytes() is not the modulus the context was read with");
                    }
                    o
                },
                Err(_) => Outcome::ok("panic").fail("bits.panic", "num_modulus_bits panicked"),
            }
        },
        ["optsb", q, b, g, e, ff, fr] => {
            // ProofOptions read from (untrusted) bytes: accepted exactly like the constructor, refused with an error
            let v: Option<Vec<u64>> = [q, b, g, e, ff, fr].iter().map(|s| p(s)).collect();
            let Some(v) = v else { return Outcome::ok("bad-op") };
            if v.iter().any(|x| *x > 255) {
                return Outcome::ok("bad-op");
            }
            let bytes: Vec<u8> = v.iter().map(|x| *x as u8).collect();
            let r = guarded(|| ProofOptions::read_from_bytes(&bytes));
            let out = match &r {
                Ok(Ok(_)) => "ok",
                Ok(Err(_)) => "err",
                Err(_) => "panic",
            };
            let pow2 = |x: u64| x != 0 && x & (x - 1) == 0;
            let documented_ok = (1..=255).contains(&v[0])
                && pow2(v[1])
                && (2..=128).contains(&v[1])
                && v[2] <= 32
                && (1..=3).contains(&v[3])
                && [2, 4, 8, 16].contains(&v[4])
                && pow2(v[5] + 1);
            let mut o = Outcome::ok(out);
            if out != (if documented_ok { "ok" } else { "err" }) {
                o = o.fail("optsb.read_from", format!("documented acceptance {} but read_from gives {}", documented_ok, out));
            }
            if let Ok(Ok(po)) = r {
                if po.to_bytes() != bytes {
                    o = o.fail("optsb.roundtrip", "options read from bytes do not write back to them");
                }
            }
            o
        },
        ["ctx", field, l2, b] => {
            // the two public constructors of a Context: Context::new (asserts) and read_from (errors)
            let (Some(l2), Some(b)) = (p(l2), p(b)) else { return Outcome::ok("bad-op") };
            if l2 < 3 || l2 > 63 || !BLOWUPS.contains(&b) || !["f64", "f62", "f128"].contains(field) {
                return Outcome::ok("bad-op");
            }
            let op = Opt { q: 1, b, g: 0, ext: 1, ff: 2, fr: 0 };
            let m = field_modulus(field);
            let read = make_ctx(1, &op, l2 as u8, &m);
            let built = guarded(|| {
                let ti = TraceInfo::new(1, 1usize << l2);
                let po = mk_options(&op).unwrap();
                match *field {
                    "f64" => Context::new::<f64::BaseElement>(ti, po),
                    "f62" => Context::new::<f62::BaseElement>(ti, po),
                    _ => Context::new::<f128::BaseElement>(ti, po),
                }
            })
            .ok();
            let documented_ok = (1u128 << l2) <= u32::MAX as u128 && (1u128 << l2) * b as u128 <= u32::MAX as u128;
            let mut o = Outcome::ok(if read.is_some() { "ok" } else { "refused" });
            if read.is_some() != documented_ok {
                o = o.fail("ctx.read_from", format!("trace 2^{} blowup {}: read_from accepts={} documented={}", l2, b, read.is_some(), documented_ok));
            }
            if built.is_some() != documented_ok {
                o = o.fail("ctx.new", format!("trace 2^{} blowup {}: Context::new accepts={} documented={}", l2, b, built.is_some(), documented_ok));
            }
            if let (Some(a), Some(c)) = (&read, &built) {
                if a != c || a.num_modulus_bits() != c.num_modulus_bits() || a.lde_domain_size() != c.lde_domain_size() {
                    o = o.fail("ctx.constructors-differ", "Context::new and Context::read_from build different contexts");
                }
            }
            // every accessor the estimate and the policy read, on both contexts and through the proof's own wrappers
            for (name, c) in [("read_from", &read), ("new", &built)] {
                if let Some(c) = c {
                    let p = dummy_proof(c.clone());
                    let lde = (1u128 << l2) * b as u128;
                    if c.lde_domain_size() as u128 != lde
                        || p.lde_domain_size() as u128 != lde
                        || c.trace_info().length() as u128 != 1u128 << l2
                        || p.trace_info().length() as u128 != 1u128 << l2
                        || c.field_modulus_bytes() != &m[..]
                        || c.num_modulus_bits() as u128 != bit_length(&m)
                        || c.options() != &mk_options(&op).unwrap()
                        || p.options() != c.options()
                    {
                        o = o.fail("ctx.accessors", format!("trace 2^{} blowup {} ({}): lde_domain_size / trace_info / field_modulus_bytes / num_modulus_bits / options", l2, b, name));
                    }
                }
            }
            o
        },
        ["plevel", cfg, modhex, cr] => {
            // security_level of an honest proof as produced by the prover and read back from bytes
            let Some(c) = parse_cfg(cfg) else { return Outcome::ok("bad-op") };
            let Some(cr) = p(cr) else { return Outcome::ok("bad-op") };
            if unhex_opt(modhex) != Some(field_modulus(&c.field)) || cr_of(&c.hname) != Some(cr as u32) {
                return Outcome::ok("bad-op");
            }
            let Some((bytes, _)) = get_proof(cfg, &c) else { return Outcome::ok("bad-op") };
            let proof = Proof::from_bytes(&bytes).expect("own proof");
            let lc = dispatch(&c.hname, Level { proof: &proof, conj: true }).unwrap();
            let lp = dispatch(&c.hname, Level { proof: &proof, conj: false }).unwrap();
            let mut o = Outcome::ok(format!("{} {}", show(lc), show(lp)));
            let exp = documented(bit_length(&field_modulus(&c.field)), &c.opt, c.log2len, cr as u32);
            if lc.map(|v| v as u128) != exp {
                o = o.fail("conj.formula", format!("honest proof {}: conjectured level {} documented {:?}", cfg, show(lc), exp));
            }
            if proof.options() != &mk_options(&c.opt).unwrap() || proof.trace_info().length() != 1usize << c.log2len {
                o = o.fail("plevel.context", "the proof does not carry the options / trace length it was generated with");
            }
            o
        },
        ["conj", _, _, _, _, _, _, _] => sweep(true, &t[1..]),
        ["gconj", _, _, _, _, _, _, _] => sweep_plain(&t[1..]),
        ["prov", _, _, _, _, _, _, _, _, _] => sweep(false, &t[1..]),
        ["alpha", b, l2] => {
            let (Some(b), Some(l2)) = (p(b), p(l2)) else { return Outcome::ok("bad-op") };
            if l2 > 63 || b == 0 {
                return Outcome::ok("bad-op");
            }
            let n = (1u128 << l2) as f64;
            let mm = upper_m(n);
            let mut bad = 0;
            for m in 3..mm {
                let x = alpha_base(b, n, m as f64);
                if !(0.0 <= x && x < 1.0) {
                    bad += 1;
                }
            }
            let mut o = Outcome::ok(format!("{} {}", mm, bad));
            if bad != 0 && b.is_power_of_two() && (2..=128).contains(&b) && l2 >= 3 {
                o = o.fail("alpha.side-condition", format!("{} values of m with 1-theta_plus outside [0,1)", bad));
            }
            o
        },
        ["validate", ..] => exec_validate(&t[1..]),
        ["verify", ..] => exec_verify(&t[1..]),
        _ => Outcome::ok("bad-op"),
    }
}

// ------------------------------------------------------------------------------------ gen
fn opt_str(o: &Opt) -> String {
    format!("{} {} {} {} {} {}", o.q, o.b, o.g, o.ext, o.ff, o.fr)
}

const BLOWUPS: [u64; 7] = [2, 4, 8, 16, 32, 64, 128];

fn rand_opt(rng: &mut Rng) -> Opt {
    Opt {
        q: if rng.chance(1, 8) { *rng.pick(&[1u64, 2, 79, 80, 81, 254, 255]) } else { rng.range(1, 255) },
        b: *rng.pick(&BLOWUPS),
        g: if rng.chance(1, 4) { *rng.pick(&[0u64, 1, 31, 32]) } else { rng.range(0, 32) },
        ext: rng.range(1, 3),
        ff: *rng.pick(&[2u64, 4, 8, 16]),
        fr: *rng.pick(&[0u64, 1, 3, 7, 15, 31, 63, 127, 255]),
    }
}

fn policy_tail(rng: &mut Rng, x: &Opt, member: bool) -> String {
    let k = rng.range(0, 4);
    let mut set: Vec<Opt> = vec![];
    for _ in 0..k {
        let mut o = *x;
        // differs from x in exactly one stored field
        match rng.below(6) {
            0 => o.q = if o.q == 255 { 254 } else { o.q + 1 },
            1 => o.b = if o.b == 128 { 64 } else { o.b * 2 },
            2 => o.g = if o.g == 32 { 31 } else { o.g + 1 },
            3 => o.ext = if o.ext == 3 { 1 } else { o.ext + 1 },
            4 => o.ff = if o.ff == 16 { 2 } else { o.ff * 2 },
            _ => o.fr = if o.fr == 255 { 127 } else { 2 * o.fr + 1 },
        }
        set.push(o);
    }
    if member {
        let at = rng.below(set.len() as u64 + 1) as usize;
        set.insert(at, *x);
    }
    let mut s = format!("{}", set.len());
    for o in &set {
        s.push(' ');
        s.push_str(&opt_str(o));
    }
    s
}

fn gen_all(rng: &mut Rng, tier: Tier, n: usize, emit: &mut dyn FnMut(String)) {
    let thorough = tier == Tier::Thorough;
    let mods: Vec<(String, Vec<u8>)> = ["f62", "f64", "f128"].iter().map(|f| (f.to_string(), field_modulus(f))).collect();
    // --- constructor guard
    let qs = [0u64, 1, 2, 254, 255, 256, 65537];
    let bs = [0u64, 1, 2, 3, 4, 64, 127, 128, 129, 256];
    let gs = [0u64, 31, 32, 33, 4294967295];
    let ffs = [0u64, 1, 2, 3, 4, 8, 15, 16, 17, 32];
    let frs = [0u64, 1, 2, 3, 7, 127, 128, 254, 255, 256, 511];
    for q in qs {
        for b in bs {
            for g in gs {
                for ff in ffs {
                    for fr in frs {
                        emit(format!("opts {} {} {} {} {} {}", q, b, g, 1 + (q + b + g + ff + fr) % 3, ff, fr));
                    }
                }
            }
        }
    }
    for _ in 0..(if thorough { 20000 } else { 2000 }) {
        let o = rand_opt(rng);
        emit(format!("opts {}", opt_str(&o)));
    }
    // --- num_modulus_bits
    for (_, m) in &mods {
        emit(format!("bits {}", hex(m)));
    }
    for len in 1..=40usize {
        for top in [0u8, 1, 2, 3, 0x7f, 0x80, 0xff] {
            let mut v = rng.bytes(len);
            v[len - 1] = top;
            emit(format!("bits {}", hex(&v)));
            let mut z = vec![0u8; len];
            z[rng.below(len as u64) as usize] = top;
            emit(format!("bits {}", hex(&z)));
        }
    }
    for len in [64usize, 128, 254, 255] {
        let mut v = rng.bytes(len);
        emit(format!("bits {}", hex(&v)));
        v[len - 1] = 0;
        emit(format!("bits {}", hex(&v)));
        emit(format!("bits {}", hex(&vec![0u8; len])));
    }
    // --- conjectured estimate: the whole grid (quick: a sub-grid of grinding factors / hashers)
    let g_grid: Vec<u64> = if thorough { (0..=32).collect() } else { vec![0, 1, 16, 31, 32] };
    let h_grid: Vec<&str> = if thorough {
        vec!["b3_192", "rp62", "b3_256", "sha3", "rp64", "rpj64", "cr64", "cr100", "cr127", "cr129", "cr256"]
    } else {
        vec!["b3_192", "rp62", "b3_256"]
    };
    let mut l_grid: Vec<u64> = (3..=32).collect();
    l_grid.extend_from_slice(&[33, 40, 50, 56, 57, 58, 63]);
    for (_, m) in &mods {
        for b in BLOWUPS {
            for e in 1..=3u64 {
                for l2 in &l_grid {
                    for g in &g_grid {
                        for h in &h_grid {
                            emit(format!("conj {} {} {} {} {} {} {}", b, g, e, l2, hex(m), h, cr_of(h).unwrap()));
                            // translation validation of the regenerated definition: smallest / largest grinding factor
                            if (*g == g_grid[0] || *g == g_grid[g_grid.len() - 1]) && *h == h_grid[0] {
                                emit(format!("gconj {} {} {} {} {} {} {}", b, g, e, l2, hex(m), h, cr_of(h).unwrap()));
                            }
                        }
                    }
                }
            }
        }
    }
    // the three remaining real hashers and the synthetic collision resistances on a coarser grid
    for h in HNAMES {
        for (_, m) in &mods {
            for b in [2u64, 8, 128] {
                for e in 1..=3u64 {
                    for l2 in [3u64, 10, 20, 32] {
                        emit(format!("conj {} {} {} {} {} {} {}", b, rng.range(0, 32), e, l2, hex(m), h, cr_of(h).unwrap()));
                    }
                }
            }
        }
    }
    // foreign moduli (any byte string a proof may carry), including ones too small for the domain
    for _ in 0..(if thorough { 4000 } else { 400 }) {
        let len = *rng.pick(&[1usize, 1, 2, 3, 4, 5, 6, 7, 8, 9, 12, 15, 16, 17, 24, 31, 32, 33, 64]);
        let mut m = rng.bytes(len);
        match rng.below(4) {
            0 => m[len - 1] = 0,
            1 => m[len - 1] = 1 << rng.below(8),
            _ => {},
        }
        if rng.chance(1, 10) {
            m = vec![0u8; len];
        }
        let h = *rng.pick(&HNAMES);
        let tail = format!(
            "{} {} {} {} {} {} {}",
            rng.pick(&BLOWUPS),
            rng.range(0, 32),
            rng.range(1, 3),
            rng.pick(&l_grid),
            hex(&m),
            h,
            cr_of(h).unwrap()
        );
        emit(format!("conj {}", tail));
        emit(format!("gconj {}", tail));
    }
    // --- alpha side condition: the whole (blowup x trace length) grid
    for b in BLOWUPS {
        for l2 in 3..=(if thorough { 56 } else { 40 }) {
            emit(format!("alpha {} {}", b, l2));
        }
    }
    // --- proven estimate: dense sample
    let np = default_n(tier, 1400, 16000, n);
    for i in 0..np {
        let (_, m) = rng.pick(&mods).clone();
        let b = *rng.pick(&BLOWUPS);
        let g = if rng.chance(1, 4) { *rng.pick(&[0u64, 1, 31, 32]) } else { rng.range(0, 32) };
        let e = rng.range(1, 3);
        let l2 = if rng.chance(1, 5) { *rng.pick(&[3u64, 4, 5, 6, 31, 32, 33, 40, 56]) } else { rng.range(3, 32) };
        let h = if rng.chance(1, 3) { *rng.pick(&HNAMES) } else { *rng.pick(&["b3_192", "rp62", "b3_256", "sha3", "rp64", "rpj64"]) };
        let (q1, q2) = if i % 16 == 0 {
            (1, 255)
        } else {
            let w = rng.range(4, 12);
            let a = rng.range(1, 255 - w);
            (a, a + w)
        };
        emit(format!("prov {} {} {} {} {} {} {} {} {}", b, g, e, l2, hex(&m), h, cr_of(h).unwrap(), q1, q2));
    }
    // the pinned unit-test points of the repository
    let m64 = hex(&field_modulus("f64"));
    for (b, e, l2, q) in [(4u64, 3u64, 18u64, 80u64), (8, 3, 18, 53), (8, 3, 18, 85), (16, 3, 18, 65), (8, 2, 18, 85), (8, 3, 20, 80), (8, 3, 16, 80), (8, 3, 20, 60), (8, 3, 20, 30), (16, 3, 20, 30)] {
        emit(format!("prov {} 20 {} {} {} b3_256 128 {} {}", b, e, l2, m64, q, q));
    }
    // --- hardening: options read from bytes, boundary product of every byte
    for q in [0u64, 1, 255] {
        for b in [0u64, 1, 2, 3, 127, 128, 129, 255] {
            for g in [0u64, 32, 33, 255] {
                for e in [0u64, 1, 3, 4] {
                    for ff in [0u64, 1, 2, 16, 17, 32] {
                        for fr in [0u64, 1, 2, 127, 254, 255] {
                            emit(format!("optsb {} {} {} {} {} {}", q, b, g, e, ff, fr));
                        }
                    }
                }
            }
        }
    }
    // --- hardening: both constructors of a Context on, just below and above the u32 limits
    for (f, _) in &mods {
        for b in BLOWUPS {
            for l2 in (3..=40u64).chain([62, 63]) {
                emit(format!("ctx {} {} {}", f, l2, b));
            }
        }
    }
    // --- hardening: every (queries, blowup) pair around the 80-bit grinding floor, and the all-minimum / all-maximum
    //     corners, under all three AcceptableOptions variants with minima on, just below and just above the level,
    //     for both estimates (the proven level is computed here with the implementation under test)
    {
        let mut tuples: Vec<(Opt, u64, usize, &str)> = vec![];
        for (bi, b) in BLOWUPS.iter().enumerate() {
            let lb = log2_exact(*b) as u64;
            let q0 = 80 / lb;
            for q in q0.saturating_sub(1)..=q0 + 2 {
                for g in [0u64, 1, 32] {
                    for e in 1..=3u64 {
                        for (fi, l2) in [(0usize, 4u64), (1, 11), (2, 4)] {
                            let h = ["b3_192", "rp62", "b3_256", "cr256"][(bi + q as usize + e as usize) % 4];
                            tuples.push((Opt { q, b: *b, g, ext: e, ff: 8, fr: 7 }, l2, fi, h));
                        }
                    }
                }
            }
        }
        // corners: every parameter at its minimum or maximum
        for mask in 0..32u32 {
            let pick = |bit: u32, lo: u64, hi: u64| if mask >> bit & 1 == 1 { hi } else { lo };
            let b = pick(1, 2, 128);
            let l2 = if mask >> 4 & 1 == 1 { 31 - log2_exact(b) as u64 } else { 3 };
            let o = Opt { q: pick(0, 1, 255), b, g: pick(2, 0, 32), ext: pick(3, 1, 3), ff: pick(0, 2, 16), fr: pick(2, 0, 255) };
            for fi in 0..3usize {
                for h in ["cr0", "b3_192", "b3_256", "cr4294967295"] {
                    tuples.push((o, l2, fi, h));
                }
            }
        }
        for (x, l2, fi, h) in tuples {
            let m = &mods[fi].1;
            let cr = cr_of(h).unwrap();
            let tail = format!("{} {} {} {} {}", opt_str(&x), l2, hex(m), h, cr);
            let lc = documented(bit_length(m), &x, l2 as u8, cr).unwrap_or(0) as i64;
            for min in [lc - 1, lc, lc + 1] {
                if min >= 0 {
                    emit(format!("validate conj {} {}", min, tail));
                }
            }
            let lp = level(h, &x, l2 as u8, m, false).flatten().unwrap_or(0) as i64;
            for min in [lp - 1, lp, lp + 1] {
                if min >= 0 {
                    emit(format!("validate proven {} {}", min, tail));
                }
            }
            emit(format!("validate set {} 1 {}", tail, opt_str(&x)));
            let mut y = x;
            y.g = if y.g == 32 { 31 } else { y.g + 1 };
            emit(format!("validate set {} 2 {} {}", tail, opt_str(&y), opt_str(&Opt { fr: if x.fr == 255 { 127 } else { 2 * x.fr + 1 }, ..x })));
        }
    }
    // --- hardening: the proven estimate at the small / large ends of the query range (where `- 1` could underflow and
    //     where the collision resistance caps), for every blowup, by construction
    for (_, m) in &mods {
        for b in BLOWUPS {
            for g in [0u64, 32] {
                for e in [1u64, 3] {
                    for l2 in [3u64, 11] {
                        for (h, q1, q2) in [("b3_256", 1u64, 12u64), ("b3_192", 244, 255)] {
                            emit(format!("prov {} {} {} {} {} {} {} {} {}", b, g, e, l2, hex(m), h, cr_of(h).unwrap(), q1, q2));
                        }
                    }
                }
            }
        }
    }
    // --- hardening: trace lengths around the cap of the proximity parameter (m_max reaches 1000 between 2^10 and 2^11)
    for l2 in 3..=13u64 {
        emit(format!("prov 8 16 2 {} {} b3_256 128 20 24", l2, hex(&mods[1].1)));
    }
    // --- hardening: a large option set (more than 255 entries), the proof's options last / absent
    {
        let x = Opt { q: 27, b: 8, g: 16, ext: 2, ff: 8, fr: 127 };
        let mut set: Vec<Opt> = (1..=255u64).filter(|q| *q != 27).map(|q| Opt { q, ..x }).collect();
        set.extend((0..=32u64).filter(|g| *g != 16).map(|g| Opt { g, ..x }));
        let body = |s: &Vec<Opt>| format!("{} {}", s.len(), s.iter().map(opt_str).collect::<Vec<_>>().join(" "));
        let tail = format!("{} 10 {} b3_256 128", opt_str(&x), hex(&mods[1].1));
        emit(format!("validate set {} {}", tail, body(&set)));
        set.push(x);
        emit(format!("validate set {} {}", tail, body(&set)));
    }
    // --- histories (a ;; b ;; c runs back to back in one process): the estimates and the policy are pure functions,
    //     so the result of an op must not depend on what was evaluated before it.  Consecutive ops differ in exactly
    //     one parameter, taken from its boundary set, in both orders, and A ;; B ;; A returns to the first.
    {
        let crs = ["cr0", "b3_192", "rp62", "b3_256", "cr129", "cr4294967295"];
        #[derive(Clone, Copy)]
        struct T {
            conj: bool,
            q: u64,
            b: u64,
            g: u64,
            e: u64,
            l2: u64,
            f: usize,
            h: &'static str,
        }
        let mods2 = mods.clone();
        let show_t = |t: &T| {
            format!(
                "lvl {} {} {} {} {} {} {} {} {}",
                if t.conj { "C" } else { "P" },
                t.q,
                t.b,
                t.g,
                t.e,
                t.l2,
                hex(&mods2[t.f].1),
                t.h,
                cr_of(t.h).unwrap()
            )
        };
        let mut hist = |label: String, parts: Vec<String>, emit: &mut dyn FnMut(String)| {
            emit(format!("tag {} ;; {}", label, parts.join(" ;; ")));
        };
        // base tuples: each field size, each extension degree, a small and a large trace, blowups 2/8/128, queries 1/27/255
        let mut bases: Vec<T> = vec![];
        for (i, (b, q)) in [(2u64, 1u64), (8, 27), (128, 255), (2, 255), (128, 1), (8, 255), (8, 1), (2, 27), (128, 27)].iter().enumerate() {
            for f in 0..3usize {
                let e = 1 + ((i + f) % 3) as u64;
                let l2 = if (i + f) % 2 == 0 { 3 } else { 16 };
                let g = [0u64, 32, 16][(i + 2 * f) % 3];
                bases.push(T { conj: false, q: *q, b: *b, g, e, l2, f, h: ["b3_256", "b3_192", "rp62"][(i + f) % 3] });
            }
        }
        let nb = if thorough { bases.len() } else { 12 };
        for (bi, base) in bases.iter().enumerate().take(nb) {
            // every ordered pair of boundary values of one parameter
            let mut variants: Vec<(String, Vec<(String, T)>)> = vec![];
            variants.push(("g".into(), [0u64, 1, 15, 16, 31, 32].iter().map(|g| (format!("g{}", g), T { g: *g, ..*base })).collect()));
            variants.push(("q".into(), [1u64, 2, 127, 128, 254, 255].iter().map(|q| (format!("q{}", q), T { q: *q, ..*base })).collect()));
            variants.push(("b".into(), BLOWUPS.iter().map(|b| (format!("b{}", b), T { b: *b, l2: base.l2.min(31 - log2_exact(*b) as u64), ..*base })).collect()));
            variants.push(("e".into(), (1..=3u64).map(|e| (format!("e{}", e), T { e, ..*base })).collect()));
            variants.push(("f".into(), (0..3usize).map(|f| (format!("f{}", [62, 64, 128][f]), T { f, ..*base })).collect()));
            let top = 31 - log2_exact(base.b) as u64;
            let mut ls: Vec<u64> = vec![3, 4, 15, 16, 17, top - 1, top];
            ls.dedup();
            variants.push(("n".into(), ls.iter().map(|l| (format!("n{}", l), T { l2: *l, ..*base })).collect()));
            variants.push(("cr".into(), crs.iter().map(|h| (format!("cr{}", cr_of(h).unwrap()), T { h, ..*base })).collect()));
            variants.push(("k".into(), vec![("proven".to_string(), T { conj: false, ..*base }), ("conj".to_string(), T { conj: true, ..*base })]));
            for (_, vs) in &variants {
                for (i, (la, a)) in vs.iter().enumerate() {
                    for (j, (lb, b)) in vs.iter().enumerate() {
                        if i == j {
                            continue;
                        }
                        // quick: every ordered pair for grinding / extension / estimate kind, a rotating half of the others
                        let dense = la.starts_with('g') || la.starts_with('e') || la == "proven" || la == "conj";
                        if !thorough && !dense && (i + j + bi) % 2 == 1 {
                            continue;
                        }
                        hist(format!("{}->{}", la, lb), vec![show_t(a), show_t(b)], emit);
                        if i < j {
                            hist(format!("{}->{}->{}", la, lb, la), vec![show_t(a), show_t(b), show_t(a)], emit);
                        }
                    }
                }
            }
        }
        // a few hundred random pairs / triples (any parameters may differ)
        let rt = |rng: &mut Rng| {
            let b = *rng.pick(&BLOWUPS);
            T {
                conj: rng.chance(1, 4),
                q: *rng.pick(&[1u64, 2, 27, 127, 128, 254, 255]),
                b,
                g: *rng.pick(&[0u64, 1, 15, 16, 31, 32]),
                e: rng.range(1, 3),
                l2: (*rng.pick(&[3u64, 4, 10, 11, 16, 24])).min(31 - log2_exact(b) as u64),
                f: rng.below(3) as usize,
                h: *rng.pick(&crs),
            }
        };
        for _ in 0..(if thorough { 3000 } else { 300 }) {
            let a = rt(rng);
            let mut b = a;
            // mostly one or two parameters apart, so that a partial key would collide
            for _ in 0..rng.range(1, 2) {
                let c = rt(rng);
                match rng.below(6) {
                    0 => b.g = c.g,
                    1 => b.q = c.q,
                    2 => b.e = c.e,
                    3 => b.f = c.f,
                    4 => b.h = c.h,
                    _ => b.conj = c.conj,
                }
            }
            if rng.chance(1, 2) {
                hist("random".into(), vec![show_t(&a), show_t(&b)], emit);
            } else {
                hist("random3".into(), vec![show_t(&a), show_t(&b), show_t(&a)], emit);
            }
        }
        // mixed kinds of ops: sweeps, the policy on synthetic proofs, and the levels around them
        for base in bases.iter().take(if thorough { 27 } else { 9 }) {
            for (ga, gb) in [(32u64, 0u64), (0, 32), (31, 32), (32, 16)] {
                let a = T { g: ga, ..*base };
                let b = T { g: gb, ..*base };
                let m = hex(&mods2[a.f].1);
                let cr = cr_of(a.h).unwrap();
                let val = |t: &T, min: u64| format!("validate proven {} {} {} {} {} 8 0 {} {} {} {}", min, t.q, t.b, t.g, t.e, t.l2, m, t.h, cr);
                let sweep = |t: &T| format!("prov {} {} {} {} {} {} {} {} {}", t.b, t.g, t.e, t.l2, m, t.h, cr, t.q, t.q);
                let lb_ = level(b.h, &Opt { q: b.q, b: b.b, g: b.g, ext: b.e, ff: 8, fr: 0 }, b.l2 as u8, &mods2[b.f].1, false).flatten().unwrap_or(0) as u64;
                hist(format!("validate-g{}->lvl-g{}", ga, gb), vec![val(&a, 0), show_t(&b)], emit);
                hist(format!("validate-g{}->validate-g{}", ga, gb), vec![val(&a, 4294967295), val(&b, lb_), val(&b, lb_ + 1)], emit);
                hist(format!("lvl-g{}->validate-g{}", ga, gb), vec![show_t(&a), val(&b, lb_ + 1), val(&b, lb_)], emit);
                hist(format!("prov-g{}->prov-g{}", ga, gb), vec![sweep(&a), sweep(&b), sweep(&a)], emit);
                hist(format!("conj-g{}->lvl-g{}", ga, gb), vec![format!("conj {} {} {} {} {} {} {}", a.b, a.g, a.e, a.l2, m, a.h, cr), show_t(&a), show_t(&b)], emit);
            }
        }
    }
    // --- validate
    let nv = if thorough { 30000 } else { 3000 };
    for i in 0..nv {
        let (_, m) = rng.pick(&mods).clone();
        let x = rand_opt(rng);
        let l2 = rng.range(3, 32);
        let h = *rng.pick(&HNAMES);
        let cr = cr_of(h).unwrap();
        let tail = format!("{} {} {} {} {}", opt_str(&x), l2, hex(&m), h, cr);
        match i % 3 {
            0 => {
                let lvl = documented(bit_length(&m), &x, l2 as u8, cr).unwrap_or(0) as i64;
                let min = match rng.below(6) {
                    0 => lvl,
                    1 => lvl + 1,
                    2 => (lvl - 1).max(0),
                    3 => 0,
                    4 => 4294967295,
                    _ => rng.range(0, 200) as i64,
                };
                emit(format!("validate conj {} {}", min, tail));
            },
            1 => {
                // the proven level is not known to the generator: minima spread over the whole range
                let min = match rng.below(5) {
                    0 => 0,
                    1 => 4294967295,
                    2 => cr as u64,
                    _ => rng.range(0, 140),
                };
                emit(format!("validate proven {} {}", min, tail));
            },
            _ => {
                let member = rng.chance(1, 2);
                emit(format!("validate set {} {}", tail, policy_tail(rng, &x, member)));
            },
        }
    }
    // --- verify(): honest tiny proofs, with the context replaced
    let cfgs = [
        "f64/b3_256/8/8/2/1/4/7/4",
        "f64/rp64/12/4/0/2/2/3/5",
        "f64/b3_192/6/16/1/3/8/15/3",
        "f64/rpj64/5/2/0/1/2/0/4",
        "f64/sha3/9/8/3/2/4/1/3",
        "f128/b3_256/10/8/1/1/4/7/4",
        "f128/sha3/7/4/0/2/2/3/3",
        "f128/b3_192/6/8/2/1/4/3/5",
        "f62/rp62/8/8/0/1/4/7/4",
        "f62/b3_192/6/4/1/3/2/1/3",
        "f62/b3_256/7/16/2/2/8/3/4",
        "f64/b3_256/1/2/0/1/2/0/3",
        "f128/sha3/15/2/0/1/16/255/3",
    ];
    let reps = if thorough { 8 } else { 1 };
    for cs in cfgs {
        let c = parse_cfg(cs).unwrap();
        let am = field_modulus(&c.field);
        let eb = if c.field == "f128" { 16 } else { 8 };
        let cube = if c.field == "f128" { 0 } else { 1 };
        let cr = cr_of(&c.hname).unwrap();
        let lvl = documented(bit_length(&am), &c.opt, c.log2len, cr).unwrap() as i64;
        let head = |airok: u64| format!("verify {} {} {} 1 {} {}", cs, eb, hex(&am), cube, airok);
        let ctx = |o: &Opt, l2: u8, m: &[u8]| format!("{} {} {} {} {}", opt_str(o), l2, hex(m), c.hname, cr);
        let airok = |o: &Opt, l2: u8| (l2 as u32 + log2_exact(o.b) as u32 <= two_adicity(&c.field)) as u64;
        let mut pols: Vec<String> = vec![
            format!("conj {}", lvl),
            format!("conj {}", lvl + 1),
            "conj 0".into(),
            "conj 4294967295".into(),
            "proven 0".into(),
            "proven 1".into(),
            "proven 4294967295".into(),
        ];
        for _ in 0..reps {
            // (a) the honest proof under every policy
            for pol in &pols {
                emit(format!("{} {} {}", head(1), pol, ctx(&c.opt, c.log2len, &am)));
            }
            for pv in 0..=(lvl as u64 + 2).min(40) {
                emit(format!("{} proven {} {}", head(1), pv, ctx(&c.opt, c.log2len, &am)));
            }
            for member in [true, false, true, false] {
                emit(format!("{} set {} {}", head(1), ctx(&c.opt, c.log2len, &am), policy_tail(rng, &c.opt, member)));
            }
            // (b) a claimed field that is not the AIR's field
            let mut foreign: Vec<Vec<u8>> = vec![];
            for (f, m) in &mods {
                if *f != c.field {
                    foreign.push(m.clone());
                }
            }
            let mut one_off = am.clone();
            one_off[0] ^= 2;
            foreign.push(one_off);
            let mut longer = am.clone();
            longer.push(0);
            foreign.push(longer);
            foreign.push(am[..am.len() - 1].to_vec());
            for len in [1usize, 2, 7, 8, 9, 14, 15, 16, 17, 30, 31, 32, 33, 64, 255] {
                foreign.push(vec![0u8; len]);
                foreign.push(vec![0xffu8; len]);
                foreign.push(rng.bytes(len));
                let mut small = vec![0u8; len];
                small[0] = 5;
                foreign.push(small);
            }
            for m in &foreign {
                if *m == am {
                    continue;
                }
                let pol = match rng.below(4) {
                    0 => "conj 0".to_string(),
                    1 => format!("conj {}", rng.range(1, 130)),
                    2 => format!("proven {}", rng.range(0, 60)),
                    _ => "set".to_string(),
                };
                if pol == "set" {
                    let member = rng.chance(1, 2);
                    emit(format!("{} set {} {}", head(1), ctx(&c.opt, c.log2len, m), policy_tail(rng, &c.opt, member)));
                } else {
                    emit(format!("{} {} {}", head(1), pol, ctx(&c.opt, c.log2len, m)));
                }
            }
            // (d) hardening, by construction: the honest proof's own levels; queries on / below / above the LDE domain
            //     size; every extension degree; the all-minimum and all-maximum options; minima around the levels
            emit(format!("plevel {} {} {}", cs, hex(&am), cr));
            // histories at verify() level: a proof claiming grinding 32 (0) under a proven policy, then the level / the
            // policy for the same parameters with grinding 0 (32), and back
            for (ga, gb) in [(32u64, 0u64), (0, 32)] {
                let oa = Opt { g: ga, ..c.opt };
                let ob = Opt { g: gb, ..c.opt };
                let lvl_line = |o: &Opt| format!("lvl P {} {} {} {} {} {} {} {}", o.q, o.b, o.g, o.ext, c.log2len, hex(&am), c.hname, cr);
                let ver = |o: &Opt, min: u64| format!("{} proven {} {}", head(1), min, ctx(o, c.log2len, &am));
                let lb_ = level(&c.hname, &ob, c.log2len, &am, false).flatten().unwrap_or(0) as u64;
                emit(format!("tag verify-g{}->lvl-g{} ;; {} ;; {}", ga, gb, ver(&oa, 0), lvl_line(&ob)));
                emit(format!("tag verify-g{}->verify-g{} ;; {} ;; {} ;; {}", ga, gb, ver(&oa, 4294967295), ver(&ob, lb_ + 1), ver(&ob, lb_)));
                emit(format!("tag lvl-g{}->verify-g{}->plevel ;; {} ;; {} ;; plevel {} {} {}", ga, gb, lvl_line(&oa), ver(&ob, lb_ + 1), cs, hex(&am), cr));
            }
            let mut muts: Vec<(Opt, u8)> = vec![];
            for (l2, b) in [(3u8, 2u64), (3, 4), (4, 4), (3, 16), (5, 8)] {
                let lde = (1u64 << l2) * b;
                for q in [lde - 1, lde, lde + 1] {
                    if (1..=255).contains(&q) {
                        muts.push((Opt { q, b, ..c.opt }, l2));
                    }
                }
            }
            for e in 1..=3u64 {
                muts.push((Opt { ext: e, ..c.opt }, c.log2len));
            }
            muts.push((Opt { q: 1, b: 2, g: 0, ext: 1, ff: 2, fr: 0 }, 3));
            muts.push((Opt { q: 255, b: 128, g: 32, ext: 3, ff: 16, fr: 255 }, 24));
            muts.push((Opt { q: 255, b: 128, g: 32, ext: 2, ff: 16, fr: 255 }, c.log2len));
            for (o, l2) in muts {
                let ok = airok(&o, l2);
                let lc = documented(bit_length(&am), &o, l2, cr).unwrap_or(0) as i64;
                let lp = level(&c.hname, &o, l2, &am, false).flatten().unwrap_or(0) as i64;
                for min in [0, lc, lc + 1] {
                    emit(format!("{} conj {} {}", head(ok), min, ctx(&o, l2, &am)));
                }
                for min in [0, lp, lp + 1] {
                    emit(format!("{} proven {} {}", head(ok), min, ctx(&o, l2, &am)));
                }
                emit(format!("{} set {} 1 {}", head(ok), ctx(&o, l2, &am), opt_str(&o)));
                emit(format!("{} set {} 1 {}", head(ok), ctx(&o, l2, &am), opt_str(&Opt { ff: if o.ff == 16 { 8 } else { o.ff * 2 }, ..o })));
            }
            // (c) the AIR's field, but other options / trace length bound into the proof
            for _ in 0..24 {
                let mut o = c.opt;
                let mut l2 = c.log2len;
                match rng.below(6) {
                    0 => o.q = rng.range(1, 255),
                    1 => o.g = rng.range(0, 32),
                    2 => o.b = *rng.pick(&BLOWUPS),
                    3 => o.ext = rng.range(1, 3),
                    4 => l2 = rng.range(3, 34) as u8,
                    _ => o = Opt { ff: c.opt.ff, fr: c.opt.fr, ..rand_opt(rng) },
                }
                let l = documented(bit_length(&am), &o, l2, cr).unwrap_or(0) as i64;
                let ok = airok(&o, l2);
                match rng.below(4) {
                    0 => emit(format!("{} conj {} {}", head(ok), (l + rng.range(0, 2) as i64 - 1).max(0), ctx(&o, l2, &am))),
                    1 => emit(format!("{} conj {} {}", head(ok), rng.range(0, 130), ctx(&o, l2, &am))),
                    2 => emit(format!("{} proven {} {}", head(ok), rng.range(0, 40), ctx(&o, l2, &am))),
                    _ => {
                        let member = rng.chance(1, 2);
                        emit(format!("{} set {} {}", head(ok), ctx(&o, l2, &am), policy_tail(rng, &o, member)))
                    },
                }
            }
        }
    }
    // --- malformed stream
    for l in ["", "conj", "conj 8 20 3 18 zz b3_256 128", "prov 8 20 3 18 01 b3_256 128 5", "opts 1 2 3", "validate conj", "verify x", "bits zz", "alpha 0 3", "alpha 8 64", "opts 1 2 0 4 2 0", "bits -", "conj 8 20 3 64 01000000ffffffff b3_256 128", "gconj", "gconj 8 20 3 64 01000000ffffffff b3_256 128", "gconj 8 20 3 18 zz b3_256 128"] {
        emit(l.to_string());
    }
}

impl Prop for P {
    fn id(&self) -> &'static str {
        "C18"
    }
    fn gen(&self, rng: &mut Rng, tier: Tier, n: usize, emit: &mut dyn FnMut(String)) {
        // the lines are emitted in a strided order so that every contiguous chunk handed to a worker
        // (implementation and model alike) is a uniform sample of all kinds of lines
        let mut lines: Vec<String> = vec![];
        gen_all(rng, tier, n, &mut |l| lines.push(l));
        let k = 16;
        for i in 0..k {
            for j in (i..lines.len()).step_by(k) {
                emit(std::mem::take(&mut lines[j]));
            }
        }
    }
    fn exec(&self, line: &str) -> Outcome {
        exec_line(line)
    }
    fn timeout_ms(&self) -> u64 {
        60_000
    }
    fn class(&self, line: &str, out: &str) -> String {
        let t: Vec<&str> = line.split(' ').collect();
        if line.contains(" ;; ") {
            let label = if t[0] == "tag" { t.get(1).copied().unwrap_or("") } else { "unlabelled" };
            let o = if out.contains("panic") { "panic" } else { "ok" };
            return format!("hist:{}:{}", label, o);
        }
        let op = match t[0] {
            "tag" | "lvl" => t[0].to_string(),
            "validate" => format!("validate.{}", t.get(1).unwrap_or(&"")),
            "verify" => format!("verify.{}.{}", t.get(1).unwrap_or(&"").split('/').next().unwrap_or(""), t.get(7).unwrap_or(&"")),
            "opts" | "optsb" | "ctx" | "plevel" | "bits" | "conj" | "gconj" | "prov" | "alpha" => t[0].to_string(),
            _ => "malformed".into(),
        };
        let o = if out == "bad-op" || out == "noctx" {
            out.to_string()
        } else if out.starts_with("err") {
            out.split(' ').take(2).collect::<Vec<_>>().join("-")
        } else if out == "panic" || out == "hang" || out == "abort" || out == "pass" {
            out.to_string()
        } else if out.contains('p') && (t[0] == "conj" || t[0] == "gconj" || t[0] == "prov") {
            "ok+panics".into()
        } else {
            "ok".into()
        };
        format!("{}:{}", op, o)
    }
    fn panic_site(&self, line: &str) -> Option<String> {
        None
    }
    fn rule(&self) -> &'static str {
        "conj: the full grid blowup {2..128} x extension 1..3 x trace length 2^3..2^32 (+2^33..2^63; a context is read from bytes, sizes above u32::MAX give `noctx`) x field {62,64,128 bits} \
         x grinding x hasher, each line sweeping queries 1..255 and comparing with the documented formula and with the neighbours q+1, g+1, ext+1 and \
         the next larger collision resistance (quick: grinding {0,1,16,31,32} and collision resistance {96,124,128}; thorough: grinding 0..32 and eleven \
         hashers); prov: seeded dense sample of the proven estimate (windows of queries, every 16th line the whole range 1..255) compared bit-for-bit \
         with the Float model and with the same neighbours; opts: boundary product of constructor arguments; bits: boundary/random modulus byte strings; \
         alpha: the side condition 0 <= 1-theta_plus < 1 for every m of every (blowup, trace length); validate/verify: the three AcceptableOptions variants \
         with minima around the actual level and option sets with/without the proof's options, on synthetic proofs and on honest Fibonacci proofs over the \
         three fields whose context is replaced (foreign modulus bytes, other options). A case is non-trivial when its op line is distinct."
    }
}

fn main() {
    wf_harness::core::main_for(&P);
}
