//! C12: serialization round-trip for every serializable value.
//! Op lines mirror lean/Winter/Drv/C12.lean:
//!   enc <type> <value text>   build the value through its public constructor, encode it, decode it back
//!                             out: `reject` (constructor refuses) | `wpanic` (writer panics) |
//!                                  `<hex> rt` (decoded value equal, exactly the written bytes consumed) |
//!                                  `<hex> ne <decoded> <rest>` | `<hex> err|eof|panic`
//!   dec <type> <hex>          decode: `ok <value> <rest len> <hex of re-encoding>` | err | eof | panic
//!   qparse/oparse/cparse/rparse ...   decode + the type's own `parse` step (see below)
//! Oracle (independent of the model): every value the constructor accepts decodes to an equal value after
//! encoding, consuming exactly the written bytes, through SliceReader, Cursor and ReadAdapter (several chunkings).
#![allow(dead_code, unused_variables, unused_imports, unused_mut, clippy::all)]
use std::collections::{BTreeMap, BTreeSet};
use std::io::{Cursor, Read};

use wf_harness::core::*;
#[cfg(feature = "genair")]
use wf_harness::genair::{gen_trace, prove, random_desc, Budget, FieldId, HashId, OptSpec};
use winter_air::{
    proof::{Commitments, Context, OodFrame, Proof, Queries, Table, TraceOodFrame},
    FieldExtension, LagrangeKernelEvaluationFrame, ProofOptions, TraceInfo,
};
use winter_crypto::{
    hashers::{Blake3_192, Blake3_256, Rp62_248, Rp64_256, Sha3_256},
    BatchMerkleProof, DefaultRandomCoin, Digest, ElementHasher, Hasher, MerkleTree,
};
use winter_fri::{DefaultProverChannel, FriOptions, FriProof, FriProver};
use winter_math::{
    fields::{f128, f62, f64, CubeExtension, QuadExtension},
    FieldElement, StarkField,
};
use winter_utils::{
    ByteReader, ByteWriter, Deserializable, DeserializationError, ReadAdapter, Serializable, SliceReader,
};

type B64 = f64::BaseElement;
type B62 = f62::BaseElement;
type B128 = f128::BaseElement;

// ------------------------------------------------------------------------------------ allocator
/// counts the bytes requested from the allocator: decoding must stay proportional to the input whatever length
/// prefixes the bytes carry and whichever byte source delivers them (same judgement as c06.rs)
struct Counting;
static CUR: std::sync::atomic::AtomicUsize = std::sync::atomic::AtomicUsize::new(0);
static PEAK: std::sync::atomic::AtomicUsize = std::sync::atomic::AtomicUsize::new(0);
fn note_add(n: usize) {
    use std::sync::atomic::Ordering::Relaxed;
    let c = CUR.fetch_add(n, Relaxed) + n;
    PEAK.fetch_max(c, Relaxed);
}
unsafe impl std::alloc::GlobalAlloc for Counting {
    unsafe fn alloc(&self, l: std::alloc::Layout) -> *mut u8 {
        let p = std::alloc::System.alloc(l);
        if !p.is_null() {
            note_add(l.size());
        }
        p
    }
    unsafe fn alloc_zeroed(&self, l: std::alloc::Layout) -> *mut u8 {
        let p = std::alloc::System.alloc_zeroed(l);
        if !p.is_null() {
            note_add(l.size());
        }
        p
    }
    unsafe fn dealloc(&self, p: *mut u8, l: std::alloc::Layout) {
        std::alloc::System.dealloc(p, l);
        CUR.fetch_sub(l.size(), std::sync::atomic::Ordering::Relaxed);
    }
    unsafe fn realloc(&self, p: *mut u8, l: std::alloc::Layout, new: usize) -> *mut u8 {
        let q = std::alloc::System.realloc(p, l, new);
        if !q.is_null() {
            if new >= l.size() {
                note_add(new - l.size());
            } else {
                CUR.fetch_sub(l.size() - new, std::sync::atomic::Ordering::Relaxed);
            }
        }
        q
    }
}
#[global_allocator]
static GLOBAL: Counting = Counting;

/// run `f`, return its result and the peak growth of live heap bytes while it ran
fn measured<T>(f: impl FnOnce() -> T) -> (T, usize) {
    use std::sync::atomic::Ordering::Relaxed;
    let base = CUR.load(Relaxed);
    PEAK.store(base, Relaxed);
    let r = f();
    (r, PEAK.load(Relaxed).saturating_sub(base))
}
/// heap a decoder may request for an input of this many bytes
fn alloc_limit(input_len: usize) -> usize {
    (64usize << 20).min(1000 * input_len + (1 << 20))
}
thread_local! {
    /// byte source the next `decode_from` runs over, and the over-allocations seen since the last `drain_alloc`
    static CUR_SRC: std::cell::RefCell<String> = std::cell::RefCell::new("slicereader".into());
    static ALLOC_NOTES: std::cell::RefCell<Vec<(String, String)>> = std::cell::RefCell::new(vec![]);
}
fn set_src(s: &str) {
    CUR_SRC.with(|c| *c.borrow_mut() = s.to_string());
}
fn drain_alloc(mut o: Outcome) -> Outcome {
    for (site, detail) in ALLOC_NOTES.with(|n| std::mem::take(&mut *n.borrow_mut())) {
        o = o.fail(site, detail);
    }
    o
}

// ------------------------------------------------------------------------------------ text parser
pub struct P<'a> {
    s: &'a [u8],
    i: usize,
}

impl<'a> P<'a> {
    fn new(s: &'a str) -> Self {
        P { s: s.as_bytes(), i: 0 }
    }
    fn peek(&self) -> u8 {
        if self.i < self.s.len() {
            self.s[self.i]
        } else {
            0
        }
    }
    fn eat(&mut self, c: u8) -> bool {
        if self.peek() == c {
            self.i += 1;
            true
        } else {
            false
        }
    }
    fn expect(&mut self, c: u8) {
        if !self.eat(c) {
            panic!("syntax: expected {} at {}", c as char, self.i);
        }
    }
    fn num(&mut self) -> u128 {
        let st = self.i;
        let mut v: u128 = 0;
        while self.peek().is_ascii_digit() {
            v = v.checked_mul(10).expect("syntax: number").checked_add((self.peek() - b'0') as u128).expect("syntax: number");
            self.i += 1;
        }
        if st == self.i {
            panic!("syntax: number expected at {}", st);
        }
        v
    }
    fn word(&mut self) -> String {
        let st = self.i;
        while self.peek().is_ascii_alphanumeric() {
            self.i += 1;
        }
        String::from_utf8(self.s[st..self.i].to_vec()).unwrap()
    }
    /// `x<hex>`
    fn xbytes(&mut self) -> Vec<u8> {
        self.expect(b'x');
        let st = self.i;
        while self.peek().is_ascii_hexdigit() {
            self.i += 1;
        }
        let h = std::str::from_utf8(&self.s[st..self.i]).unwrap();
        if h.len() % 2 != 0 {
            panic!("syntax: odd hex");
        }
        unhex(h)
    }
    /// `[a,b,c]`
    fn list<T>(&mut self, mut f: impl FnMut(&mut P) -> T) -> Vec<T> {
        self.expect(b'[');
        let mut v = vec![];
        if self.eat(b']') {
            return v;
        }
        loop {
            v.push(f(self));
            if self.eat(b']') {
                return v;
            }
            self.expect(b',');
        }
    }
    /// `N` | `S<v>`
    fn opt<T>(&mut self, f: impl FnOnce(&mut P) -> T) -> Option<T> {
        if self.eat(b'N') {
            None
        } else {
            self.expect(b'S');
            Some(f(self))
        }
    }
    fn end(&self) {
        if self.i != self.s.len() {
            panic!("syntax: trailing input at {}", self.i);
        }
    }
}

fn xhex(b: &[u8]) -> String {
    let mut s = String::with_capacity(1 + 2 * b.len());
    s.push('x');
    for v in b {
        s.push_str(&format!("{:02x}", v));
    }
    s
}

fn show_list<T>(xs: impl IntoIterator<Item = T>, f: impl Fn(T) -> String) -> String {
    format!("[{}]", xs.into_iter().map(f).collect::<Vec<_>>().join(","))
}

// ------------------------------------------------------------------------------------ Val
/// a serializable type with a text syntax for its values (`parse` goes through the public constructor,
/// `show` prints the canonical form of a value) and a generator of boundary-heavy value texts
pub trait Val: Serializable + Deserializable + PartialEq + Sized {
    fn ty() -> String;
    fn parse(p: &mut P) -> Self;
    fn show(&self) -> String;
    fn gen(rng: &mut Rng, sz: usize) -> String;
}

fn int_bounds(bits: u32) -> Vec<u128> {
    let max = if bits == 128 { u128::MAX } else { (1u128 << bits) - 1 };
    let mut v = vec![0u128, 1, 2, max, max - 1, max / 2, max / 2 + 1];
    for k in 1..=18 {
        for base in [7 * k, 8 * k] {
            if base < bits {
                let p = 1u128 << base;
                v.push(p - 1);
                v.push(p);
                v.push(p + 1);
            }
        }
    }
    v.retain(|x| *x <= max);
    v.sort();
    v.dedup();
    v
}

fn gen_int(rng: &mut Rng, bits: u32) -> u128 {
    let max = if bits == 128 { u128::MAX } else { (1u128 << bits) - 1 };
    match rng.below(4) {
        0 => *rng.pick(&int_bounds(bits)),
        1 => rng.u128() & max,
        2 => (rng.u128() & max) >> rng.below(bits as u64),
        _ => rng.below(300) as u128 & max,
    }
}

macro_rules! int_val {
    ($t:ty, $name:expr, $bits:expr) => {
        impl Val for $t {
            fn ty() -> String {
                $name.into()
            }
            fn parse(p: &mut P) -> Self {
                <$t>::try_from(p.num()).expect("reject: out of range")
            }
            fn show(&self) -> String {
                format!("{}", self)
            }
            fn gen(rng: &mut Rng, _sz: usize) -> String {
                format!("{}", gen_int(rng, $bits))
            }
        }
    };
}
int_val!(u8, "u8", 8);
int_val!(u16, "u16", 16);
int_val!(u32, "u32", 32);
int_val!(u64, "u64", 64);
int_val!(u128, "u128", 128);
int_val!(usize, "usize", 64);

impl Val for Bool {
    fn ty() -> String {
        "bool".into()
    }
    fn parse(p: &mut P) -> Self {
        if p.eat(b'T') {
            Bool(true)
        } else {
            p.expect(b'F');
            Bool(false)
        }
    }
    fn show(&self) -> String {
        if self.0 { "T" } else { "F" }.into()
    }
    fn gen(rng: &mut Rng, _sz: usize) -> String {
        if rng.chance(1, 2) { "T" } else { "F" }.into()
    }
}

impl Val for () {
    fn ty() -> String {
        "unit".into()
    }
    fn parse(p: &mut P) -> Self {
        p.expect(b'U');
    }
    fn show(&self) -> String {
        "U".into()
    }
    fn gen(_rng: &mut Rng, _sz: usize) -> String {
        "U".into()
    }
}

fn gen_len(rng: &mut Rng, sz: usize) -> usize {
    let b = [0usize, 1, 2, 3, 127, 128, 129, 255, 256, 257, 16383, 16384, 16385, 65535, 65536];
    let cand: Vec<usize> = b.iter().cloned().filter(|x| *x <= sz).collect();
    match rng.below(3) {
        0 => *rng.pick(&cand),
        1 => rng.below(sz.min(8) as u64 + 1) as usize,
        _ => rng.below(sz as u64 + 1) as usize,
    }
}

fn gen_utf8(rng: &mut Rng, n: usize) -> Vec<u8> {
    let mut s = String::new();
    while s.len() < n {
        let c = match rng.below(5) {
            0 => 'é',
            1 => '€',
            2 => '😀',
            _ => (b'a' + rng.below(26) as u8) as char,
        };
        if s.len() + c.len_utf8() <= n {
            s.push(c);
        } else {
            s.push('z');
        }
    }
    s.into_bytes()
}

impl Val for String {
    fn ty() -> String {
        "str".into()
    }
    fn parse(p: &mut P) -> Self {
        String::from_utf8(p.xbytes()).expect("reject: not utf8")
    }
    fn show(&self) -> String {
        xhex(self.as_bytes())
    }
    fn gen(rng: &mut Rng, sz: usize) -> String {
        let n = gen_len(rng, sz);
        xhex(&gen_utf8(rng, n))
    }
}

/// `Vec<u8>` with the compact text form `x<hex>` (delegates to the `Vec<u8>` implementations)
#[derive(PartialEq, Clone, Debug, PartialOrd, Ord, Eq)]
pub struct Bytes(pub Vec<u8>);
impl Serializable for Bytes {
    fn write_into<W: ByteWriter>(&self, target: &mut W) {
        self.0.write_into(target)
    }
}
impl Deserializable for Bytes {
    fn read_from<R: ByteReader>(source: &mut R) -> Result<Self, DeserializationError> {
        Ok(Bytes(Vec::<u8>::read_from(source)?))
    }
}
impl Val for Bytes {
    fn ty() -> String {
        "bytes".into()
    }
    fn parse(p: &mut P) -> Self {
        Bytes(p.xbytes())
    }
    fn show(&self) -> String {
        xhex(&self.0)
    }
    fn gen(rng: &mut Rng, sz: usize) -> String {
        let n = gen_len(rng, sz);
        xhex(&rng.bytes(n))
    }
}

impl<T: Val> Val for Option<T> {
    fn ty() -> String {
        format!("opt({})", T::ty())
    }
    fn parse(p: &mut P) -> Self {
        p.opt(|p| T::parse(p))
    }
    fn show(&self) -> String {
        match self {
            None => "N".into(),
            Some(v) => format!("S{}", v.show()),
        }
    }
    fn gen(rng: &mut Rng, sz: usize) -> String {
        if rng.chance(1, 3) {
            "N".into()
        } else {
            format!("S{}", T::gen(rng, sz))
        }
    }
}

impl<T: Val> Val for Vec<T> {
    fn ty() -> String {
        format!("vec({})", T::ty())
    }
    fn parse(p: &mut P) -> Self {
        p.list(|p| T::parse(p))
    }
    fn show(&self) -> String {
        show_list(self.iter(), |x| x.show())
    }
    fn gen(rng: &mut Rng, sz: usize) -> String {
        let n = gen_len(rng, sz);
        let inner = (sz / (n + 1)).min(sz / 2 + 1).max(1);
        let items: Vec<String> = (0..n).map(|_| T::gen(rng, inner)).collect();
        format!("[{}]", items.join(","))
    }
}

impl<T: Val, const N: usize> Val for [T; N] {
    fn ty() -> String {
        format!("arr{}({})", N, T::ty())
    }
    fn parse(p: &mut P) -> Self {
        let v = p.list(|p| T::parse(p));
        match v.try_into() {
            Ok(a) => a,
            Err(_) => panic!("reject: array length"),
        }
    }
    fn show(&self) -> String {
        show_list(self.iter(), |x| x.show())
    }
    fn gen(rng: &mut Rng, sz: usize) -> String {
        let items: Vec<String> = (0..N).map(|_| T::gen(rng, sz / (N + 1) + 1)).collect();
        format!("[{}]", items.join(","))
    }
}

macro_rules! tup_val {
    ($($t:ident $i:tt),+) => {
        impl<$($t: Val),+> Val for ($($t,)+) {
            fn ty() -> String {
                format!("tup({})", vec![$($t::ty()),+].join(","))
            }
            fn parse(p: &mut P) -> Self {
                p.expect(b'(');
                let r = ($({ if $i > 0 { p.expect(b','); } $t::parse(p) },)+);
                p.expect(b')');
                r
            }
            fn show(&self) -> String {
                format!("({})", vec![$(self.$i.show()),+].join(","))
            }
            fn gen(rng: &mut Rng, sz: usize) -> String {
                format!("({})", vec![$($t::gen(rng, sz / 2 + 1)),+].join(","))
            }
        }
    };
}
tup_val!(A 0);
tup_val!(A 0, B 1);
tup_val!(A 0, B 1, C 2);
tup_val!(A 0, B 1, C 2, D 3);
tup_val!(A 0, B 1, C 2, D 3, E 4);
tup_val!(A 0, B 1, C 2, D 3, E 4, F 5);

impl<K: Val + Ord, V: Val> Val for BTreeMap<K, V> {
    fn ty() -> String {
        format!("map({},{})", K::ty(), V::ty())
    }
    fn parse(p: &mut P) -> Self {
        p.expect(b'{');
        let mut m = BTreeMap::new();
        if p.eat(b'}') {
            return m;
        }
        loop {
            let k = K::parse(p);
            p.expect(b':');
            let v = V::parse(p);
            m.insert(k, v);
            if p.eat(b'}') {
                return m;
            }
            p.expect(b',');
        }
    }
    fn show(&self) -> String {
        format!("{{{}}}", self.iter().map(|(k, v)| format!("{}:{}", k.show(), v.show())).collect::<Vec<_>>().join(","))
    }
    fn gen(rng: &mut Rng, sz: usize) -> String {
        let n = gen_len(rng, sz.min(300));
        let items: Vec<String> =
            (0..n).map(|_| format!("{}:{}", K::gen(rng, sz / (n + 1) + 1), V::gen(rng, sz / (n + 1) + 1))).collect();
        format!("{{{}}}", items.join(","))
    }
}

impl<T: Val + Ord> Val for BTreeSet<T> {
    fn ty() -> String {
        format!("set({})", T::ty())
    }
    fn parse(p: &mut P) -> Self {
        p.list(|p| T::parse(p)).into_iter().collect()
    }
    fn show(&self) -> String {
        show_list(self.iter(), |x| x.show())
    }
    fn gen(rng: &mut Rng, sz: usize) -> String {
        let n = gen_len(rng, sz.min(300));
        let items: Vec<String> = (0..n).map(|_| T::gen(rng, sz / (n + 1) + 1)).collect();
        format!("[{}]", items.join(","))
    }
}

/// `[T]` (the slice implementation of `Serializable`, written through a reference); read back as `Vec<T>`
#[derive(PartialEq, Clone, Debug)]
pub struct SliceOf<T>(pub Vec<T>);
impl<T: Serializable> Serializable for SliceOf<T> {
    fn write_into<W: ByteWriter>(&self, target: &mut W) {
        let s: &[T] = self.0.as_slice();
        s.write_into(target);
    }
}
impl<T: Deserializable> Deserializable for SliceOf<T> {
    fn read_from<R: ByteReader>(source: &mut R) -> Result<Self, DeserializationError> {
        Ok(SliceOf(source.read()?))
    }
}
impl<T: Val> Val for SliceOf<T> {
    fn ty() -> String {
        format!("slice({})", T::ty())
    }
    fn parse(p: &mut P) -> Self {
        SliceOf(Vec::<T>::parse(p))
    }
    fn show(&self) -> String {
        self.0.show()
    }
    fn gen(rng: &mut Rng, sz: usize) -> String {
        Vec::<T>::gen(rng, sz)
    }
}

/// `str` (the `Serializable` implementation of the unsized string slice); read back as `String`
#[derive(PartialEq, Clone, Debug)]
pub struct StrRef(pub String);
impl Serializable for StrRef {
    fn write_into<W: ByteWriter>(&self, target: &mut W) {
        self.0.as_str().write_into(target)
    }
}
impl Deserializable for StrRef {
    fn read_from<R: ByteReader>(source: &mut R) -> Result<Self, DeserializationError> {
        Ok(StrRef(String::read_from(source)?))
    }
}
impl Val for StrRef {
    fn ty() -> String {
        "strref".into()
    }
    fn parse(p: &mut P) -> Self {
        StrRef(String::parse(p))
    }
    fn show(&self) -> String {
        self.0.show()
    }
    fn gen(rng: &mut Rng, sz: usize) -> String {
        String::gen(rng, sz)
    }
}

// ------------------------------------------------------------------------------------ field elements
const M64: u128 = 0xFFFFFFFF00000001;
const M62: u128 = 4611624995532046337;
const M128: u128 = 340282366920938463463374557953744961537;

fn gen_canon(rng: &mut Rng, m: u128, bits: u32) -> u128 {
    match rng.below(4) {
        0 => *rng.pick(&[0u128, 1, 2, m - 1, m - 2, m / 2, m / 2 + 1, 255, 256, (1 << 32) - 1, 1 << 32]),
        // values >= M are reduced silently by `new`
        1 if rng.chance(1, 4) => {
            let max = if bits == 128 { u128::MAX } else { (1u128 << bits) - 1 };
            *rng.pick(&[m, m + 1, max])
        },
        _ => rng.u128() % m,
    }
}

macro_rules! base_val {
    ($t:ty, $name:expr, $m:expr, $w:ty, $bits:expr) => {
        impl Val for $t {
            fn ty() -> String {
                $name.into()
            }
            fn parse(p: &mut P) -> Self {
                <$t>::new(<$w>::try_from(p.num()).expect("reject: out of range"))
            }
            fn show(&self) -> String {
                format!("{}", self.as_int())
            }
            fn gen(rng: &mut Rng, _sz: usize) -> String {
                format!("{}", gen_canon(rng, $m, $bits))
            }
        }
    };
}
base_val!(B64, "f64", M64, u64, 64);
base_val!(B62, "f62", M62, u64, 64);
base_val!(B128, "f128", M128, u128, 128);

macro_rules! quad_val {
    ($b:ty) => {
        impl Val for QuadExtension<$b> {
            fn ty() -> String {
                format!("q({})", <$b>::ty())
            }
            fn parse(p: &mut P) -> Self {
                p.expect(b'(');
                let a = <$b>::parse(p);
                p.expect(b',');
                let b = <$b>::parse(p);
                p.expect(b')');
                QuadExtension::new(a, b)
            }
            fn show(&self) -> String {
                format!("({},{})", self.base_element(0).show(), self.base_element(1).show())
            }
            fn gen(rng: &mut Rng, sz: usize) -> String {
                format!("({},{})", <$b>::gen(rng, sz), <$b>::gen(rng, sz))
            }
        }
    };
}
quad_val!(B64);
quad_val!(B62);
quad_val!(B128);

macro_rules! cube_val {
    ($b:ty) => {
        impl Val for CubeExtension<$b> {
            fn ty() -> String {
                format!("c({})", <$b>::ty())
            }
            fn parse(p: &mut P) -> Self {
                p.expect(b'(');
                let a = <$b>::parse(p);
                p.expect(b',');
                let b = <$b>::parse(p);
                p.expect(b',');
                let c = <$b>::parse(p);
                p.expect(b')');
                CubeExtension::new(a, b, c)
            }
            fn show(&self) -> String {
                format!("({},{},{})", self.base_element(0).show(), self.base_element(1).show(), self.base_element(2).show())
            }
            fn gen(rng: &mut Rng, sz: usize) -> String {
                format!("({},{},{})", <$b>::gen(rng, sz), <$b>::gen(rng, sz), <$b>::gen(rng, sz))
            }
        }
    };
}
cube_val!(B64);
cube_val!(B62);

// ------------------------------------------------------------------------------------ digests
/// digest kinds (a local trait on the hashers, because `Val` cannot be implemented on the associated type)
pub trait DK: Hasher {
    const NAME: &'static str;
    fn dparse(p: &mut P) -> Self::Digest;
    fn dshow(d: &Self::Digest) -> String;
    fn dgen(rng: &mut Rng) -> String;
}
fn gen_digest_bytes(rng: &mut Rng, n: usize) -> Vec<u8> {
    match rng.below(6) {
        0 => vec![0; n],
        1 => vec![255; n],
        _ => rng.bytes(n),
    }
}
impl<B: StarkField> DK for Blake3_256<B> {
    const NAME: &'static str = "b32";
    fn dparse(p: &mut P) -> Self::Digest {
        let b: [u8; 32] = p.xbytes().try_into().expect("reject: digest length");
        <Self::Digest>::new(b)
    }
    fn dshow(d: &Self::Digest) -> String {
        xhex(&d.as_bytes()[..32])
    }
    fn dgen(rng: &mut Rng) -> String {
        xhex(&gen_digest_bytes(rng, 32))
    }
}
impl<B: StarkField> DK for Blake3_192<B> {
    const NAME: &'static str = "b24";
    fn dparse(p: &mut P) -> Self::Digest {
        let b: [u8; 24] = p.xbytes().try_into().expect("reject: digest length");
        <Self::Digest>::new(b)
    }
    fn dshow(d: &Self::Digest) -> String {
        xhex(&d.as_bytes()[..24])
    }
    fn dgen(rng: &mut Rng) -> String {
        xhex(&gen_digest_bytes(rng, 24))
    }
}
impl DK for Rp64_256 {
    const NAME: &'static str = "e64";
    fn dparse(p: &mut P) -> Self::Digest {
        <Self::Digest>::new(<[B64; 4]>::parse(p))
    }
    fn dshow(d: &Self::Digest) -> String {
        show_list(d.as_elements().iter(), |x| x.show())
    }
    fn dgen(rng: &mut Rng) -> String {
        <[B64; 4]>::gen(rng, 4)
    }
}
impl DK for Rp62_248 {
    const NAME: &'static str = "e62";
    fn dparse(p: &mut P) -> Self::Digest {
        <Self::Digest>::new(<[B62; 4]>::parse(p))
    }
    fn dshow(d: &Self::Digest) -> String {
        show_list(d.as_elements().iter(), |x| x.show())
    }
    fn dgen(rng: &mut Rng) -> String {
        <[B62; 4]>::gen(rng, 4)
    }
}

/// a digest of hasher `H` as a `Val`
pub struct Dg<H: DK>(pub H::Digest);
impl<H: DK> PartialEq for Dg<H> {
    fn eq(&self, o: &Self) -> bool {
        self.0 == o.0
    }
}
impl<H: DK> Clone for Dg<H> {
    fn clone(&self) -> Self {
        Dg(self.0)
    }
}
impl<H: DK> Serializable for Dg<H> {
    fn write_into<W: ByteWriter>(&self, target: &mut W) {
        self.0.write_into(target)
    }
}
impl<H: DK> Deserializable for Dg<H> {
    fn read_from<R: ByteReader>(source: &mut R) -> Result<Self, DeserializationError> {
        Ok(Dg(<H::Digest>::read_from(source)?))
    }
}
impl<H: DK> Val for Dg<H> {
    fn ty() -> String {
        H::NAME.into()
    }
    fn parse(p: &mut P) -> Self {
        Dg(H::dparse(p))
    }
    fn show(&self) -> String {
        H::dshow(&self.0)
    }
    fn gen(rng: &mut Rng, _sz: usize) -> String {
        H::dgen(rng)
    }
}
fn undg<H: DK>(v: Vec<Dg<H>>) -> Vec<H::Digest> {
    v.into_iter().map(|d| d.0).collect()
}
type D32 = Dg<Blake3_256<B64>>;
type D24 = Dg<Blake3_192<B64>>;
type E64 = Dg<Rp64_256>;
type E62 = Dg<Rp62_248>;

/// `bool` has no `Serializable` implementation of its own: `write_bool` / `read_bool`
#[derive(PartialEq, Eq, Clone, Copy, Debug, PartialOrd, Ord)]
pub struct Bool(pub bool);
impl Serializable for Bool {
    fn write_into<W: ByteWriter>(&self, target: &mut W) {
        target.write_bool(self.0)
    }
}
impl Deserializable for Bool {
    fn read_from<R: ByteReader>(source: &mut R) -> Result<Self, DeserializationError> {
        Ok(Bool(source.read_bool()?))
    }
}

// ------------------------------------------------------------------------------------ Debug-string reader
/// the private byte vectors of Commitments / Queries / OodFrame / FriProof are observed through `{:?}`
#[derive(Debug, Clone)]
enum Dbg {
    Num(u128),
    List(Vec<Dbg>),
    Node(String, Vec<(String, Dbg)>),
}

fn dbg_parse(s: &str) -> Dbg {
    fn ws(b: &[u8], i: &mut usize) {
        while *i < b.len() && (b[*i] == b' ' || b[*i] == b'\n') {
            *i += 1;
        }
    }
    fn val(b: &[u8], i: &mut usize) -> Dbg {
        ws(b, i);
        if b[*i].is_ascii_digit() {
            let mut v = 0u128;
            while *i < b.len() && b[*i].is_ascii_digit() {
                v = v * 10 + (b[*i] - b'0') as u128;
                *i += 1;
            }
            return Dbg::Num(v);
        }
        if b[*i] == b'[' {
            *i += 1;
            let mut v = vec![];
            loop {
                ws(b, i);
                if b[*i] == b']' {
                    *i += 1;
                    return Dbg::List(v);
                }
                v.push(val(b, i));
                ws(b, i);
                if b[*i] == b',' {
                    *i += 1;
                }
            }
        }
        let st = *i;
        while *i < b.len() && (b[*i].is_ascii_alphanumeric() || b[*i] == b'_') {
            *i += 1;
        }
        let name = String::from_utf8(b[st..*i].to_vec()).unwrap();
        ws(b, i);
        let mut fields = vec![];
        if *i < b.len() && b[*i] == b'{' {
            *i += 1;
            loop {
                ws(b, i);
                if b[*i] == b'}' {
                    *i += 1;
                    break;
                }
                let st = *i;
                while b[*i] != b':' {
                    *i += 1;
                }
                let f = String::from_utf8(b[st..*i].to_vec()).unwrap();
                *i += 1;
                let v = val(b, i);
                fields.push((f.trim().to_string(), v));
                ws(b, i);
                if b[*i] == b',' {
                    *i += 1;
                }
            }
        } else if *i < b.len() && b[*i] == b'(' {
            *i += 1;
            let mut k = 0;
            loop {
                ws(b, i);
                if b[*i] == b')' {
                    *i += 1;
                    break;
                }
                let v = val(b, i);
                fields.push((format!("{}", k), v));
                k += 1;
                ws(b, i);
                if b[*i] == b',' {
                    *i += 1;
                }
            }
        }
        Dbg::Node(name, fields)
    }
    let mut i = 0;
    val(s.as_bytes(), &mut i)
}

impl Dbg {
    fn field(&self, name: &str) -> &Dbg {
        match self {
            Dbg::Node(_, fs) => &fs.iter().find(|(n, _)| n == name).expect("debug field").1,
            _ => panic!("debug: not a struct"),
        }
    }
    fn bytes(&self) -> Vec<u8> {
        match self {
            Dbg::List(v) => v
                .iter()
                .map(|x| match x {
                    Dbg::Num(n) => *n as u8,
                    _ => panic!("debug: not a byte"),
                })
                .collect(),
            _ => panic!("debug: not a list"),
        }
    }
    fn items(&self) -> &[Dbg] {
        match self {
            Dbg::List(v) => v,
            _ => panic!("debug: not a list"),
        }
    }
    fn num(&self) -> u128 {
        match self {
            Dbg::Num(n) => *n,
            _ => panic!("debug: not a number"),
        }
    }
}

// ------------------------------------------------------------------------------------ kinds
macro_rules! with_digest {
    ($tag:expr, $H:ident, $body:block) => {
        match $tag {
            "b32" => {
                type $H = Blake3_256<B64>;
                $body
            },
            "b24" => {
                type $H = Blake3_192<B64>;
                $body
            },
            "e64" => {
                type $H = Rp64_256;
                $body
            },
            "e62" => {
                type $H = Rp62_248;
                $body
            },
            _ => panic!("syntax: digest kind"),
        }
    };
}
macro_rules! with_elem {
    ($tag:expr, $E:ident, $body:block) => {
        match $tag {
            "f64" => {
                type $E = B64;
                $body
            },
            "f62" => {
                type $E = B62;
                $body
            },
            "f128" => {
                type $E = B128;
                $body
            },
            "q64" => {
                type $E = QuadExtension<B64>;
                $body
            },
            "c64" => {
                type $E = CubeExtension<B64>;
                $body
            },
            "q62" => {
                type $E = QuadExtension<B62>;
                $body
            },
            "c62" => {
                type $E = CubeExtension<B62>;
                $body
            },
            "q128" => {
                type $E = QuadExtension<B128>;
                $body
            },
            _ => panic!("syntax: element kind"),
        }
    };
}
const DIGEST_KINDS: [&str; 4] = ["b32", "b24", "e64", "e62"];
const ELEM_KINDS: [&str; 8] = ["f64", "f62", "f128", "q64", "c64", "q62", "c62", "q128"];
fn digest_len(k: &str) -> usize {
    match k {
        "b32" | "e64" => 32,
        "b24" => 24,
        _ => 31,
    }
}
fn elem_len(k: &str) -> usize {
    match k {
        "f64" | "f62" => 8,
        "f128" | "q64" | "q62" => 16,
        "c64" | "c62" => 24,
        _ => 32,
    }
}
fn gen_digest(rng: &mut Rng, kind: &str) -> String {
    with_digest!(kind, H, { <H as DK>::dgen(rng) })
}
fn gen_elem(rng: &mut Rng, kind: &str) -> String {
    with_elem!(kind, E, { <E as Val>::gen(rng, 4) })
}
fn gen_list(n: usize, mut f: impl FnMut() -> String) -> String {
    let v: Vec<String> = (0..n).map(|_| f()).collect();
    format!("[{}]", v.join(","))
}

// ------------------------------------------------------------------------------------ FieldExtension, ProofOptions
impl Val for FieldExtension {
    fn ty() -> String {
        "fext".into()
    }
    fn parse(p: &mut P) -> Self {
        match p.num() {
            1 => FieldExtension::None,
            2 => FieldExtension::Quadratic,
            3 => FieldExtension::Cubic,
            _ => panic!("reject: field extension"),
        }
    }
    fn show(&self) -> String {
        format!("{}", *self as u8)
    }
    fn gen(rng: &mut Rng, _sz: usize) -> String {
        format!("{}", rng.range(1, 3))
    }
}

impl Val for ProofOptions {
    fn ty() -> String {
        "options".into()
    }
    fn parse(p: &mut P) -> Self {
        p.expect(b'(');
        let nq = usize::parse(p);
        p.expect(b',');
        let bl = usize::parse(p);
        p.expect(b',');
        let gr = u32::parse(p);
        p.expect(b',');
        let fe = FieldExtension::parse(p);
        p.expect(b',');
        let ff = usize::parse(p);
        p.expect(b',');
        let rd = usize::parse(p);
        p.expect(b')');
        ProofOptions::new(nq, bl, gr, fe, ff, rd)
    }
    fn show(&self) -> String {
        let f = self.to_fri_options();
        format!(
            "({},{},{},{},{},{})",
            self.num_queries(),
            self.blowup_factor(),
            self.grinding_factor(),
            self.field_extension().show(),
            f.folding_factor(),
            f.remainder_max_degree()
        )
    }
    fn gen(rng: &mut Rng, _sz: usize) -> String {
        let bad = rng.chance(1, 8);
        let nq = if bad && rng.chance(1, 3) { *rng.pick(&[0u64, 256, 1 << 32]) } else if rng.chance(1, 2) { *rng.pick(&[1u64, 2, 127, 128, 254, 255]) } else { rng.range(1, 255) };
        let bl = if bad && rng.chance(1, 3) { *rng.pick(&[0u64, 1, 3, 256, 384]) } else { 1 << rng.range(1, 7) };
        let gr = if bad && rng.chance(1, 3) { *rng.pick(&[33u64, 255, 256, 4294967295]) } else if rng.chance(1, 2) { *rng.pick(&[0u64, 1, 31, 32]) } else { rng.range(0, 32) };
        let fe = if bad && rng.chance(1, 6) { *rng.pick(&[0u64, 4]) } else { rng.range(1, 3) };
        let ff = if bad && rng.chance(1, 3) { *rng.pick(&[0u64, 1, 3, 32, 256]) } else { 1 << rng.range(1, 4) };
        let rd = if bad && rng.chance(1, 3) { *rng.pick(&[2u64, 256, 511, 254]) } else { (1 << rng.range(0, 8)) - 1 };
        format!("({},{},{},{},{},{})", nq, bl, gr, fe, ff, rd)
    }
}

// ------------------------------------------------------------------------------------ TraceInfo, Context
impl Val for TraceInfo {
    fn ty() -> String {
        "traceinfo".into()
    }
    fn parse(p: &mut P) -> Self {
        // `n(width,length)` = TraceInfo::new, `m(width,length,xmeta)` = TraceInfo::with_meta
        if p.eat(b'n') {
            p.expect(b'(');
            let w = usize::parse(p);
            p.expect(b',');
            let l = usize::parse(p);
            p.expect(b')');
            return TraceInfo::new(w, l);
        }
        if p.eat(b'm') {
            p.expect(b'(');
            let w = usize::parse(p);
            p.expect(b',');
            let l = usize::parse(p);
            p.expect(b',');
            let meta = p.xbytes();
            p.expect(b')');
            return TraceInfo::with_meta(w, l, meta);
        }
        p.expect(b'(');
        let m = usize::parse(p);
        p.expect(b',');
        let a = usize::parse(p);
        p.expect(b',');
        let r = usize::parse(p);
        p.expect(b',');
        let l = usize::parse(p);
        p.expect(b',');
        let meta = p.xbytes();
        p.expect(b')');
        TraceInfo::new_multi_segment(m, a, r, l, meta)
    }
    fn show(&self) -> String {
        format!(
            "({},{},{},{},{})",
            self.main_trace_width(),
            self.aux_segment_width(),
            self.get_num_aux_segment_rand_elements(),
            self.length(),
            xhex(self.meta())
        )
    }
    fn gen(rng: &mut Rng, sz: usize) -> String {
        gen_traceinfo(rng, sz, false)
    }
}

fn gen_traceinfo(rng: &mut Rng, sz: usize, small_len: bool) -> String {
    let bad = rng.chance(1, 8);
    let m = if bad && rng.chance(1, 3) { *rng.pick(&[0u64, 256, 300]) } else if rng.chance(1, 2) { *rng.pick(&[1u64, 2, 127, 128, 254, 255]) } else { rng.range(1, 255) };
    let room = 255u64.saturating_sub(m);
    let a = match rng.below(6) {
        0 | 1 => 0,
        2 => room,
        3 if bad => room + 1,
        4 => rng.range(0, room).min(1),
        _ => rng.range(0, room),
    };
    let r = if a == 0 {
        if bad && rng.chance(1, 3) { 1 } else { 0 }
    } else {
        match rng.below(5) {
            0 => 0,
            1 => 255,
            2 if bad => 256,
            3 => 1,
            _ => rng.range(0, 255),
        }
    };
    let l = if bad && rng.chance(1, 3) {
        *rng.pick(&[0u64, 1, 4, 7, 9, 12, 24])
    } else if small_len {
        1 << rng.range(3, 24)
    } else {
        1 << *rng.pick(&[3u64, 3, 4, 5, 10, 16, 20, 31, 32, 33, 62, 63])
    };
    let n = if bad && rng.chance(1, 3) && sz >= 65536 { 65536 } else { gen_len(rng, sz.min(65535)) };
    format!("({},{},{},{},{})", m, a, r, l, xhex(&rng.bytes(n)))
}

fn parse_context(p: &mut P) -> Context {
    p.expect(b'(');
    let f = p.word();
    p.expect(b',');
    let ti = TraceInfo::parse(p);
    p.expect(b',');
    let o = ProofOptions::parse(p);
    p.expect(b')');
    match f.as_str() {
        "f64" => Context::new::<B64>(ti, o),
        "f62" => Context::new::<B62>(ti, o),
        "f128" => Context::new::<B128>(ti, o),
        _ => panic!("syntax: base field"),
    }
}

impl Val for Context {
    fn ty() -> String {
        "context".into()
    }
    fn parse(p: &mut P) -> Self {
        parse_context(p)
    }
    fn show(&self) -> String {
        format!("({},{},{})", self.trace_info().show(), xhex(self.field_modulus_bytes()), self.options().show())
    }
    fn gen(rng: &mut Rng, sz: usize) -> String {
        let f = *rng.pick(&["f64", "f62", "f128"]);
        let small = !rng.chance(1, 6);
        format!("({},{},{})", f, gen_traceinfo(rng, sz, small), ProofOptions::gen(rng, sz))
    }
}

// ------------------------------------------------------------------------------------ Commitments
impl Val for Commitments {
    fn ty() -> String {
        "commitments".into()
    }
    fn parse(p: &mut P) -> Self {
        if p.eat(b'D') {
            return Commitments::default();
        }
        p.expect(b'(');
        let k = p.word();
        p.expect(b',');
        let c = with_digest!(k.as_str(), H, {
            let t = undg(Vec::<Dg<H>>::parse(p));
            p.expect(b',');
            let c = Dg::<H>::parse(p).0;
            p.expect(b',');
            let f = undg(Vec::<Dg<H>>::parse(p));
            let mut cm = Commitments::new::<H>(t, c, f);
            // optional fifth component: digests appended with Commitments::add
            if p.eat(b',') {
                for d in undg(Vec::<Dg<H>>::parse(p)) {
                    cm.add::<H>(&d);
                }
            }
            cm
        });
        p.expect(b')');
        c
    }
    fn show(&self) -> String {
        xhex(&dbg_parse(&format!("{:?}", self)).field("0").bytes())
    }
    fn gen(rng: &mut Rng, sz: usize) -> String {
        if rng.chance(1, 20) {
            return "D".into();
        }
        let k = *rng.pick(&DIGEST_KINDS);
        let dl = digest_len(k);
        let maxd = (sz / dl).max(3);
        // total number of digests: boundary at 65535 bytes
        let total = if sz >= 65536 && rng.chance(1, 2) {
            let b = 65535 / dl;
            *rng.pick(&[b - 1, b, b + 1, b + 2])
        } else {
            1 + gen_len(rng, maxd.min(64))
        };
        let nt = if total >= 3 { rng.range(0, 2) as usize } else { 0 };
        let nf = total - 1 - nt.min(total - 1);
        let nt = nt.min(total - 1);
        format!("({},{},{},{})", k, gen_list(nt, || gen_digest(rng, k)), gen_digest(rng, k), gen_list(nf, || gen_digest(rng, k)))
    }
}

// ------------------------------------------------------------------------------------ Queries
fn parse_queries(p: &mut P) -> Queries {
    p.expect(b'(');
    let ek = p.word();
    p.expect(b',');
    let dk = p.word();
    p.expect(b',');
    let depth = u8::parse(p);
    p.expect(b',');
    let q = with_digest!(dk.as_str(), H, {
        let nodes: Vec<Vec<<H as Hasher>::Digest>> = Vec::<Vec<Dg<H>>>::parse(p).into_iter().map(undg).collect();
        p.expect(b',');
        let proof = BatchMerkleProof::<H> { leaves: vec![], nodes, depth };
        with_elem!(ek.as_str(), E, {
            let values = Vec::<Vec<E>>::parse(p);
            Queries::new::<H, E>(proof, values)
        })
    });
    p.expect(b')');
    q
}

fn show_queries(q: &Queries) -> String {
    let d = dbg_parse(&format!("{:?}", q));
    format!("({},{})", xhex(&d.field("values").bytes()), xhex(&d.field("paths").bytes()))
}

impl Val for Queries {
    fn ty() -> String {
        "queries".into()
    }
    fn parse(p: &mut P) -> Self {
        parse_queries(p)
    }
    fn show(&self) -> String {
        show_queries(self)
    }
    fn gen(rng: &mut Rng, sz: usize) -> String {
        gen_queries(rng, sz).0
    }
}

/// returns (text, rows, cols, depth)
fn gen_queries(rng: &mut Rng, sz: usize) -> (String, usize, usize, usize) {
    let ek = *rng.pick(&ELEM_KINDS);
    let dk = *rng.pick(&DIGEST_KINDS);
    let big = sz >= 65536 && rng.chance(1, 3);
    let dims = [1usize, 2, 3, 254, 255, 256];
    let (rows, cols) = if big {
        match rng.below(4) {
            0 => (*rng.pick(&dims[3..]), rng.range(1, 3) as usize),
            1 => (rng.range(1, 3) as usize, *rng.pick(&dims[3..])),
            2 => (*rng.pick(&dims[3..5]), *rng.pick(&dims[3..5])),
            _ => (rng.range(1, 40) as usize, rng.range(1, 40) as usize),
        }
    } else if rng.chance(1, 12) {
        (rng.range(0, 2) as usize, rng.range(0, 2) as usize)
    } else {
        (rng.range(1, 9) as usize, rng.range(1, 9) as usize)
    };
    let ragged = rng.chance(1, 15) && rows > 1;
    let depth = rng.range(1, 20) as usize;
    let nvec = if big && rng.chance(1, 3) { *rng.pick(&[254usize, 255, 256]) } else { rng.range(0, 6) as usize };
    let mut long_done = false;
    let nodes = gen_list(nvec, || {
        let n = if big && !long_done && rng.chance(1, 3) {
            long_done = true;
            *rng.pick(&[254usize, 255, 256])
        } else {
            rng.range(0, 4) as usize
        };
        gen_list(n, || gen_digest(rng, dk))
    });
    let mut r = 0;
    let values = gen_list(rows, || {
        r += 1;
        let c = if ragged && r == rows { cols + 1 } else { cols };
        gen_list(c, || gen_elem(rng, ek))
    });
    (format!("({},{},{},{},{})", ek, dk, depth, nodes, values), rows, cols, depth)
}

// ------------------------------------------------------------------------------------ OodFrame
fn parse_oodframe(p: &mut P) -> OodFrame {
    if p.eat(b'D') {
        return OodFrame::default();
    }
    p.expect(b'(');
    let ek = p.word();
    p.expect(b',');
    let f = with_elem!(ek.as_str(), E, {
        let mut frame = OodFrame::default();
        let ts = p.opt(|p| {
            p.expect(b'(');
            let w = usize::parse(p);
            p.expect(b',');
            let cur = Vec::<E>::parse(p);
            p.expect(b',');
            let next = Vec::<E>::parse(p);
            p.expect(b',');
            let lag = Option::<Vec<E>>::parse(p);
            p.expect(b')');
            TraceOodFrame::new(cur, next, w, lag.map(LagrangeKernelEvaluationFrame::new))
        });
        p.expect(b',');
        let ev = Option::<Vec<E>>::parse(p);
        if let Some(ts) = ts {
            frame.set_trace_states::<E, Blake3_256<<E as FieldElement>::BaseField>>(&ts);
        }
        if let Some(ev) = ev {
            frame.set_constraint_evaluations(&ev);
        }
        frame
    });
    p.expect(b')');
    f
}

fn show_oodframe(f: &OodFrame) -> String {
    let d = dbg_parse(&format!("{:?}", f));
    format!(
        "({},{},{})",
        xhex(&d.field("trace_states").bytes()),
        xhex(&d.field("lagrange_kernel_trace_states").bytes()),
        xhex(&d.field("evaluations").bytes())
    )
}

impl Val for OodFrame {
    fn ty() -> String {
        "oodframe".into()
    }
    fn parse(p: &mut P) -> Self {
        parse_oodframe(p)
    }
    fn show(&self) -> String {
        show_oodframe(self)
    }
    fn gen(rng: &mut Rng, sz: usize) -> String {
        gen_oodframe(rng, sz).0
    }
}

/// returns (text, main width, aux width incl. lagrange column, number of evaluations, element kind)
fn gen_oodframe(rng: &mut Rng, sz: usize) -> (String, usize, usize, usize, String) {
    if rng.chance(1, 25) {
        return ("D".into(), 0, 0, 0, "f64".into());
    }
    let ek = *rng.pick(&ELEM_KINDS);
    let el = elem_len(ek);
    let big = sz >= 65536 && rng.chance(1, 3);
    let w = if big { *rng.pick(&[1usize, 127, 128, 254, 255, 256, 1024, 1025]) } else { rng.range(1, 8) as usize };
    let main = if w > 1 { rng.range(1, w as u64) as usize } else { 1 };
    let lag: Option<usize> = match rng.below(4) {
        0 | 1 => None,
        2 if big => Some(*rng.pick(&[0usize, 1, 253, 254, 255, 256])),
        _ => Some(rng.range(0, 33) as usize),
    };
    let nev = if big && rng.chance(1, 2) {
        let b = 65535 / el;
        *rng.pick(&[b - 1, b, b + 1, b + 2])
    } else if rng.chance(1, 20) {
        0
    } else {
        rng.range(1, 9) as usize
    };
    let mismatch = rng.chance(1, 30);
    let ts = if rng.chance(1, 20) {
        "N".to_string()
    } else {
        let cur = gen_list(w, || gen_elem(rng, ek));
        let next = gen_list(if mismatch { w + 1 } else { w }, || gen_elem(rng, ek));
        let l = match lag {
            None => "N".to_string(),
            Some(n) => format!("S{}", gen_list(n, || gen_elem(rng, ek))),
        };
        format!("S({},{},{},{})", main, cur, next, l)
    };
    let ev = if rng.chance(1, 20) { "N".to_string() } else { format!("S{}", gen_list(nev, || gen_elem(rng, ek))) };
    let aux = w - main + if matches!(lag, Some(n) if n > 0) { 1 } else { 0 };
    (format!("({},{},{})", ek, ts, ev), main, aux, nev, ek.to_string())
}

// ------------------------------------------------------------------------------------ FriProof
fn build_fri<E: FieldElement>(logn: usize, blowup: usize, folding: usize, remdeg: usize, nq: usize, seed: u64) -> FriProof
where
    E::BaseField: StarkField,
{
    let n = 1usize << logn;
    let opts = FriOptions::new(blowup, folding, remdeg);
    let mut channel =
        DefaultProverChannel::<E, Blake3_256<E::BaseField>, DefaultRandomCoin<Blake3_256<E::BaseField>>>::new(n, nq);
    let mut prover = FriProver::<E::BaseField, E, _, Blake3_256<E::BaseField>>::new(opts);
    let mut x = seed | 1;
    let evaluations: Vec<E> = (0..n)
        .map(|_| {
            x = x.wrapping_mul(6364136223846793005).wrapping_add(1442695040888963407);
            let a = E::from((x >> 33) as u32);
            x = x.wrapping_mul(6364136223846793005).wrapping_add(1442695040888963407);
            a * a * a + E::from((x >> 33) as u32)
        })
        .collect();
    prover.build_layers(&mut channel, evaluations);
    let mut positions = channel.draw_query_positions(0);
    positions.sort_unstable();
    positions.dedup();
    prover.build_proof(&positions)
}

fn parse_friproof(p: &mut P) -> FriProof {
    if p.eat(b'D') {
        return FriProof::new_dummy();
    }
    if p.peek() == b'x' {
        return FriProof::read_from_bytes(&p.xbytes()).expect("reject: not a FRI proof");
    }
    p.expect(b'(');
    let ek = p.word();
    let mut a = [0usize; 6];
    for v in a.iter_mut() {
        p.expect(b',');
        *v = usize::parse(p);
    }
    p.expect(b')');
    with_elem!(ek.as_str(), E, { build_fri::<E>(a[0], a[1], a[2], a[3], a[4], a[5] as u64) })
}

fn show_friproof(f: &FriProof) -> String {
    let d = dbg_parse(&format!("{:?}", f));
    let layers = show_list(d.field("layers").items().iter(), |l| {
        format!("({},{})", xhex(&l.field("values").bytes()), xhex(&l.field("paths").bytes()))
    });
    format!("({},{},{})", layers, xhex(&d.field("remainder").bytes()), d.field("num_partitions").num())
}

impl Val for FriProof {
    fn ty() -> String {
        "friproof".into()
    }
    fn parse(p: &mut P) -> Self {
        parse_friproof(p)
    }
    fn show(&self) -> String {
        show_friproof(self)
    }
    fn gen(rng: &mut Rng, sz: usize) -> String {
        gen_friproof(rng, sz)
    }
}

fn gen_friproof(rng: &mut Rng, sz: usize) -> String {
    if rng.chance(1, 20) {
        return "D".into();
    }
    let ek = *rng.pick(&ELEM_KINDS);
    let el = elem_len(ek);
    let big = sz >= 65536 && rng.chance(1, 4);
    let folding = 1usize << rng.range(1, 4);
    let blowup = 1usize << rng.range(1, 3);
    if big {
        // maximal remainders: (remdeg + 1) * element bytes around 65535
        let deg1 = (65536 / el).next_power_of_two();
        let remdeg = *rng.pick(&[deg1 / 2 - 1, deg1 - 1, 255]);
        let logn = ((remdeg + 1) * blowup).ilog2() as usize + *rng.pick(&[0usize, 1, 2]);
        return format!("({},{},{},{},{},{},{})", ek, logn.max(3), blowup, folding, remdeg, rng.range(1, 40), rng.below(1000));
    }
    let remdeg = (1usize << rng.range(0, 5)) - 1;
    let logn = rng.range(3, 10) as usize;
    let nq = *rng.pick(&[1u64, 2, 5, 20, 60, 200, 255]);
    format!("({},{},{},{},{},{},{})", ek, logn, blowup, folding, remdeg, nq, rng.below(1000))
}

// ------------------------------------------------------------------------------------ Proof
fn parse_proof(p: &mut P) -> Proof {
    if p.eat(b'D') {
        return Proof::new_dummy();
    }
    if p.peek() == b'x' {
        return Proof::from_bytes(&p.xbytes()).expect("reject: not a proof");
    }
    p.expect(b'(');
    let context = parse_context(p);
    p.expect(b',');
    let num_unique_queries = u8::parse(p);
    p.expect(b',');
    let commitments = <Commitments as Val>::parse(p);
    p.expect(b',');
    let trace_queries = Vec::<Queries>::parse(p);
    p.expect(b',');
    let constraint_queries = parse_queries(p);
    p.expect(b',');
    let ood_frame = parse_oodframe(p);
    p.expect(b',');
    let fri_proof = parse_friproof(p);
    p.expect(b',');
    let pow_nonce = u64::parse(p);
    p.expect(b',');
    let gkr_proof = Option::<Bytes>::parse(p).map(|b| b.0);
    p.expect(b')');
    Proof {
        context,
        num_unique_queries,
        commitments,
        trace_queries,
        constraint_queries,
        ood_frame,
        fri_proof,
        pow_nonce,
        gkr_proof,
    }
}

impl Val for Proof {
    fn ty() -> String {
        "proof".into()
    }
    fn parse(p: &mut P) -> Self {
        parse_proof(p)
    }
    fn show(&self) -> String {
        format!(
            "({},{},{},{},{},{},{},{},{})",
            self.context.show(),
            self.num_unique_queries,
            self.commitments.show(),
            show_list(self.trace_queries.iter(), show_queries),
            show_queries(&self.constraint_queries),
            show_oodframe(&self.ood_frame),
            show_friproof(&self.fri_proof),
            self.pow_nonce,
            match &self.gkr_proof {
                None => "N".to_string(),
                Some(b) => format!("S{}", xhex(b)),
            }
        )
    }
    fn gen(rng: &mut Rng, sz: usize) -> String {
        if rng.chance(1, 25) {
            return "D".into();
        }
        let sz = sz.min(4000);
        // a context the constructor accepts (regenerate until the pieces are accepted)
        let mut ctx = String::new();
        let mut nseg = 1;
        for _ in 0..50 {
            ctx = Context::gen(rng, sz);
            let c = ctx.clone();
            if let Ok(c) = guarded(move || Context::parse(&mut P::new(&c))) {
                nseg = c.trace_info().num_segments();
                break;
            }
        }
        let ntq = if rng.chance(1, 12) { rng.range(0, 3) as usize } else { nseg };
        let tq = gen_list(ntq, || gen_queries(rng, sz).0);
        let fri = if rng.chance(1, 3) { "D".to_string() } else { gen_friproof(rng, sz) };
        let gkr = match rng.below(3) {
            0 => "N".to_string(),
            _ => {
                let n = gen_len(rng, sz);
                format!("S{}", xhex(&rng.bytes(n)))
            },
        };
        format!(
            "({},{},{},{},{},{},{},{},{})",
            ctx,
            gen_int(rng, 8),
            Commitments::gen(rng, sz),
            tq,
            gen_queries(rng, sz).0,
            gen_oodframe(rng, sz).0,
            fri,
            gen_int(rng, 64),
            gkr
        )
    }
}

/// the number of trace query sets a `Proof` literal must carry to be decodable (it is not written)
fn proof_literal_ok(p: &Proof) -> bool {
    p.trace_queries.len() == p.context.trace_info().num_segments()
}

// ------------------------------------------------------------------------------------ readers
#[derive(Clone, PartialEq, Debug)]
enum Verdict {
    Ok(String, usize),
    Err,
    Eof,
    Panic,
}

impl Verdict {
    fn text(&self) -> String {
        match self {
            Verdict::Ok(s, r) => format!("ok {} {}", s, r),
            Verdict::Err => "err".into(),
            Verdict::Eof => "eof".into(),
            Verdict::Panic => "panic".into(),
        }
    }
}

fn decode_from<T: Val, R: ByteReader>(r: &mut R, total: usize) -> (Option<T>, Verdict, String) {
    let (res, growth) = measured(|| guarded(|| T::read_from(r)));
    if growth > alloc_limit(total) {
        let src = CUR_SRC.with(|c| c.borrow().clone());
        ALLOC_NOTES.with(|n| {
            n.borrow_mut().push((
                format!("{}.alloc", src),
                format!("decoding {} from {} bytes over {} requested {} bytes of heap (limit {})", T::ty(), total, src, growth, alloc_limit(total)),
            ))
        });
    }
    match res {
        Err(info) => (None, Verdict::Panic, info),
        Ok(Err(DeserializationError::UnexpectedEOF)) => (None, Verdict::Eof, String::new()),
        Ok(Err(_)) => (None, Verdict::Err, String::new()),
        Ok(Ok(v)) => {
            // count what the reader still holds
            let mut rest = 0usize;
            let cnt = guarded(|| {
                while rest <= total + 4 && r.read_u8().is_ok() {
                    rest += 1;
                }
            });
            if cnt.is_err() {
                rest = usize::MAX;
            }
            let s = v.show();
            (Some(v), Verdict::Ok(s, rest), String::new())
        },
    }
}

/// a `Read` that hands out the data in chunks of the given (cyclic) sizes
struct Chunked<'a> {
    data: &'a [u8],
    pos: usize,
    sizes: Vec<usize>,
    k: usize,
}
impl<'a> Read for Chunked<'a> {
    fn read(&mut self, buf: &mut [u8]) -> std::io::Result<usize> {
        let n = self.sizes[self.k % self.sizes.len()].min(buf.len()).min(self.data.len() - self.pos);
        self.k += 1;
        buf[..n].copy_from_slice(&self.data[self.pos..self.pos + n]);
        self.pos += n;
        Ok(n)
    }
}

fn cross_check<T: Val>(mut o: Outcome, input: &[u8], reference: &Verdict) -> Outcome {
    let total = input.len();
    set_src("cursor");
    let (_, v, info) = decode_from::<T, _>(&mut Cursor::new(input), total);
    if v != *reference {
        o = o.fail("cursor.disagree", format!("Cursor: {} SliceReader: {} {}", short(&v.text()), short(&reference.text()), info));
    }
    let l = input.len();
    let chunkings: [(&str, Vec<usize>); 6] = [
        ("chunk1", vec![1]),
        ("straddle", vec![3, 1, 2, 7, 5]),
        ("whole", vec![1 << 20]),
        ("mixed", vec![l % 5 + 1, 255, l % 11 + 1, 256, 257, 2]),
        ("chunk7", vec![7]),
        ("chunk256", vec![256]),
    ];
    for (name, sizes) in chunkings.iter() {
        let mut src = Chunked { data: input, pos: 0, sizes: sizes.clone(), k: 0 };
        let mut ad = ReadAdapter::new(&mut src);
        set_src(&format!("readadapter.{}", name));
        let (_, v, info) = decode_from::<T, _>(&mut ad, total);
        set_src("slicereader");
        if v != *reference {
            o = o.fail(
                format!("readadapter.{}", name),
                format!("ReadAdapter({}): {} SliceReader: {} {}", name, short(&v.text()), short(&reference.text()), info),
            );
        }
    }
    o
}

fn short(s: &str) -> String {
    if s.len() > 120 {
        format!("{}…({} chars)", &s[..100], s.len())
    } else {
        s.to_string()
    }
}

fn base_of(ty: &str) -> String {
    ty.split('(').next().unwrap_or("").to_string()
}

const SUFFIX: [u8; 3] = [0xa5, 0x01, 0x80];

// ------------------------------------------------------------------------------------ enc / dec
fn run_enc<T: Val>(text: &str) -> Outcome {
    let base = base_of(&T::ty());
    let t = text.to_string();
    let v = match guarded(move || {
        let mut p = P::new(&t);
        let v = T::parse(&mut p);
        p.end();
        v
    }) {
        Ok(v) => v,
        Err(info) => {
            return if info.contains("syntax:") { Outcome::ok("bad-op") } else { Outcome::ok("reject") };
        },
    };
    let bytes = match guarded(|| v.to_bytes()) {
        Ok(b) => b,
        Err(info) => {
            return Outcome::ok("wpanic")
                .fail(format!("{}.encode.panic", base), format!("the writer panics on a value the constructor accepted: {}", info))
        },
    };
    let mut input = bytes.clone();
    input.extend_from_slice(&SUFFIX);
    let (d, verdict, info) = decode_from::<T, _>(&mut SliceReader::new(&input), input.len());
    // a Proof literal with the wrong number of trace query sets is not a value any constructor builds
    let exempt = T::ty() == "proof" && !text.starts_with('D') && !proof_trace_queries_ok(text);
    let mut o;
    match (&d, &verdict) {
        (Some(d), Verdict::Ok(s, rest)) if *d == v && *rest == SUFFIX.len() => {
            o = Outcome::ok(format!("{} rt", hex(&bytes)));
            if *s != v.show() {
                o = o.fail(format!("{}.roundtrip.show", base), "decoded value compares equal but prints differently");
            }
        },
        (Some(d), Verdict::Ok(s, rest)) => {
            o = Outcome::ok(format!("{} ne {} {}", hex(&bytes), s, rest));
            if !exempt {
                if *d != v {
                    o = o.fail(
                        format!("{}.roundtrip.value", base),
                        format!("decoded value differs: wrote {} read {}", short(&v.show()), short(s)),
                    );
                } else {
                    o = o.fail(
                        format!("{}.roundtrip.consumed", base),
                        format!("{} bytes written, {} of {} left after decoding", bytes.len(), rest, input.len()),
                    );
                }
            }
        },
        (_, vd) => {
            o = Outcome::ok(format!("{} {}", hex(&bytes), vd.text()));
            if !exempt {
                o = o.fail(
                    format!("{}.roundtrip.{}", base, vd.text()),
                    format!("a value the constructor accepted ({}) does not decode: {} {}", short(text), vd.text(), info),
                );
            }
        },
    }
    o = cross_check::<T>(o, &input, &verdict);
    // exact input (no suffix): the reader must be exhausted
    let (_, v2, _) = decode_from::<T, _>(&mut SliceReader::new(&bytes), bytes.len());
    o = cross_check::<T>(o, &bytes, &v2);
    drain_alloc(twins::<T>(o, &v, &bytes, &input, d.as_ref(), &verdict))
}

/// a byte sink that takes at most three bytes per call (the blanket `ByteWriter for W: io::Write` must write all)
struct Dribble(Vec<u8>);
impl std::io::Write for Dribble {
    fn write(&mut self, b: &[u8]) -> std::io::Result<usize> {
        let n = b.len().min(3);
        self.0.extend_from_slice(&b[..n]);
        Ok(n)
    }
    fn flush(&mut self) -> std::io::Result<()> {
        Ok(())
    }
}

/// twin entry points of `to_bytes` / `read_from` (DESIGN 9.5 lesson 14) on the same value: `write_into` on a writer
/// that already holds data, through `Serializable for &T`, `ByteWriter::write`, `write_many`, on other `io::Write`
/// sinks (a Cursor, a sink that takes three bytes per call); `read_from_bytes`, `ByteReader::read`, `read_many`
fn twins<T: Val>(mut o: Outcome, v: &T, bytes: &[u8], input: &[u8], d: Option<&T>, reference: &Verdict) -> Outcome {
    let base = base_of(&T::ty());
    match guarded(|| {
        let mut w1: Vec<u8> = vec![0xa5];
        v.write_into(&mut w1);
        let mut w2 = Cursor::new(Vec::<u8>::new());
        (&v).write_into(&mut w2);
        let mut w3 = Dribble(vec![]);
        ByteWriter::write(&mut w3, v);
        let mut w4: Vec<u8> = vec![];
        w4.write_many([v, v]);
        (w1, w2.into_inner(), w3.0, w4)
    }) {
        Ok((w1, w2, w3, w4)) => {
            if w1[0] != 0xa5 || w1[1..] != bytes[..] {
                o = o.fail(format!("{}.write_into.appends", base), "write_into on a non-empty writer does not append to_bytes()");
            }
            if w2 != bytes || w3 != bytes {
                o = o.fail(format!("{}.write_into.sink", base), "write_into on another io::Write sink (Cursor / three bytes per call, through &T / ByteWriter::write) differs from to_bytes()");
            }
            if w4.len() != 2 * bytes.len() || w4[..bytes.len()] != bytes[..] || w4[bytes.len()..] != bytes[..] {
                o = o.fail(format!("{}.write_many", base), "write_many([v, v]) is not to_bytes() twice");
            }
        },
        Err(info) => o = o.fail(format!("{}.write_into.panic", base), format!("to_bytes() succeeded but a twin writer panicked: {}", info)),
    }
    // readers: the default read_from_bytes and the generic ByteReader::read must behave like read_from on a SliceReader
    let kind = |r: &Result<Result<T, DeserializationError>, String>| -> Verdict {
        match r {
            Err(_) => Verdict::Panic,
            Ok(Err(DeserializationError::UnexpectedEOF)) => Verdict::Eof,
            Ok(Err(_)) => Verdict::Err,
            Ok(Ok(_)) => Verdict::Ok(String::new(), 0),
        }
    };
    let same_kind = |a: &Verdict, b: &Verdict| std::mem::discriminant(a) == std::mem::discriminant(b);
    let rb = guarded(|| T::read_from_bytes(input));
    let rr = guarded(|| SliceReader::new(input).read::<T>());
    for (name, r) in [("read_from_bytes", &rb), ("reader.read", &rr)] {
        let agrees = same_kind(&kind(r), reference)
            && match (r, d) {
                (Ok(Ok(x)), Some(d)) => x == d,
                (Ok(Ok(_)), None) => false,
                _ => true,
            };
        if !agrees {
            o = o.fail(format!("{}.{}", base, name), format!("{} disagrees with read_from on a SliceReader ({})", name, short(&reference.text())));
        }
    }
    // read_many(2) over two encodings: both values, exactly the written bytes
    if let (Some(d), Verdict::Ok(_, rest)) = (d, reference) {
        if *rest == SUFFIX.len() && d == v && bytes.len() <= 200_000 {
            let mut two = bytes.to_vec();
            two.extend_from_slice(bytes);
            two.extend_from_slice(&SUFFIX);
            let r = guarded(|| {
                let mut rd = SliceReader::new(&two);
                let vs: Result<Vec<T>, DeserializationError> = rd.read_many(2);
                let mut left = 0usize;
                while rd.read_u8().is_ok() {
                    left += 1;
                }
                (vs, left)
            });
            match r {
                Ok((Ok(vs), left)) if vs.len() == 2 && vs[0] == *v && vs[1] == *v && left == SUFFIX.len() => {},
                _ => o = o.fail(format!("{}.read_many", base), "read_many(2) over two encodings does not give the value twice and stop after them"),
            }
        }
    }
    o
}

fn proof_trace_queries_ok(text: &str) -> bool {
    let t = text.to_string();
    guarded(move || proof_literal_ok(&parse_proof(&mut P::new(&t)))).unwrap_or(true)
}

fn run_dec<T: Val>(h: &str) -> Outcome {
    let base = base_of(&T::ty());
    let input = unhex(h);
    let (d, verdict, info) = decode_from::<T, _>(&mut SliceReader::new(&input), input.len());
    let mut o;
    match (&d, &verdict) {
        (Some(d), Verdict::Ok(s, rest)) => {
            match guarded(|| d.to_bytes()) {
                Ok(b) => {
                    o = Outcome::ok(format!("ok {} {} {}", s, rest, hex(&b)));
                    // a decoded value is a value of the type: it must survive another round trip
                    let (d2, v2, _) = decode_from::<T, _>(&mut SliceReader::new(&b), b.len());
                    match (d2, v2) {
                        (Some(d2), Verdict::Ok(_, 0)) if d2 == *d => {},
                        (_, v2) => {
                            o = o.fail(
                                format!("{}.reencode", base),
                                format!("decoded value {} re-encodes to bytes that decode as {}", short(s), short(&v2.text())),
                            )
                        },
                    }
                },
                Err(info) => {
                    o = Outcome::ok(format!("ok {} {} wpanic", s, rest))
                        .fail(format!("{}.encode.panic", base), format!("the writer panics on a decoded value: {}", info));
                },
            }
        },
        (_, vd) => {
            o = Outcome::ok(vd.text());
            if *vd == Verdict::Panic {
                o.fails.push(("#info".into(), info));
            }
        },
    }
    drain_alloc(cross_check::<T>(o, &input, &verdict))
}

/// reader that refuses length prefixes above 2^22 (used by the generator only, to keep allocation
/// behaviour on hostile length prefixes, which belongs to C06, out of the correspondence)
struct Guard<'a> {
    inner: SliceReader<'a>,
    huge: bool,
}
impl<'a> ByteReader for Guard<'a> {
    fn read_u8(&mut self) -> Result<u8, DeserializationError> {
        self.inner.read_u8()
    }
    fn peek_u8(&self) -> Result<u8, DeserializationError> {
        self.inner.peek_u8()
    }
    fn read_slice(&mut self, len: usize) -> Result<&[u8], DeserializationError> {
        self.inner.read_slice(len)
    }
    fn read_array<const N: usize>(&mut self) -> Result<[u8; N], DeserializationError> {
        self.inner.read_array()
    }
    fn check_eor(&self, num_bytes: usize) -> Result<(), DeserializationError> {
        self.inner.check_eor(num_bytes)
    }
    fn has_more_bytes(&self) -> bool {
        self.inner.has_more_bytes()
    }
    fn read_usize(&mut self) -> Result<usize, DeserializationError> {
        let v = self.inner.read_usize()?;
        if v > (1 << 22) {
            self.huge = true;
            return Err(DeserializationError::UnknownError("huge".into()));
        }
        Ok(v)
    }
}

fn safe_to_decode<T: Val>(input: &[u8]) -> bool {
    let mut g = Guard { inner: SliceReader::new(input), huge: false };
    let _ = guarded(|| T::read_from(&mut g).is_ok());
    !g.huge
}

fn mutate(rng: &mut Rng, b: &[u8]) -> Vec<u8> {
    let mut v = b.to_vec();
    match rng.below(9) {
        0 => {},
        1 => {
            v.truncate(rng.below(b.len() as u64 + 1) as usize);
        },
        2 => {
            if !v.is_empty() {
                v.pop();
            }
        },
        3 => {
            let n = rng.range(1, 12) as usize;
            v.extend(rng.bytes(n));
        },
        4 | 5 => {
            if !v.is_empty() {
                // early positions hold the counters and tags
                let i = if rng.chance(1, 2) { rng.below(v.len().min(12) as u64) } else { rng.below(v.len() as u64) } as usize;
                let r = rng.u64() as u8;
                v[i] = *rng.pick(&[0u8, 1, 2, 3, 4, 127, 128, 254, 255, r]);
            }
        },
        6 => {
            if !v.is_empty() {
                let i = rng.below(v.len() as u64) as usize;
                v[i] ^= 1 << rng.below(8);
            }
        },
        7 => {
            if !v.is_empty() {
                let i = rng.below(v.len() as u64) as usize;
                v.insert(i, rng.u64() as u8);
            }
        },
        _ => {
            if !v.is_empty() {
                let i = rng.below(v.len() as u64) as usize;
                v.remove(i);
            }
        },
    }
    v
}

fn gen_lines<T: Val>(rng: &mut Rng, n: usize, sz: usize, emit: &mut dyn FnMut(String)) {
    let ty = T::ty();
    for i in 0..n {
        let text = T::gen(rng, sz);
        emit(format!("enc {} {}", ty, text));
        let t = text.clone();
        let bytes = match guarded(move || T::parse(&mut P::new(&t)).to_bytes()) {
            Ok(b) => b,
            Err(_) => continue,
        };
        if bytes.len() > 300_000 {
            continue;
        }
        // every proper prefix of a small encoding, and the ends of a larger one
        if i < 4 && bytes.len() <= 48 {
            for cut in 0..bytes.len() {
                emit(format!("dec {} {}", ty, hex(&bytes[..cut])));
            }
        } else if i < 4 {
            for cut in [1usize, 2, bytes.len() - 2, bytes.len() - 1] {
                if safe_to_decode::<T>(&bytes[..cut]) {
                    emit(format!("dec {} {}", ty, hex(&bytes[..cut])));
                }
            }
        }
        for _ in 0..(if bytes.len() > 4096 { 1 } else { 3 }) {
            let m = mutate(rng, &bytes);
            if safe_to_decode::<T>(&m) {
                emit(format!("dec {} {}", ty, hex(&m)));
            }
        }
    }
    // pure garbage and the empty input
    emit(format!("dec {} -", ty));
    for _ in 0..(n / 4 + 2) {
        let k = rng.range(1, 40) as usize;
        let m = rng.bytes(k);
        if safe_to_decode::<T>(&m) {
            emit(format!("dec {} {}", ty, hex(&m)));
        }
    }
}

// ------------------------------------------------------------------------------------ parse steps
fn verdict_of<T>(r: &Result<Result<T, DeserializationError>, String>) -> &'static str {
    match r {
        Err(_) => "panic",
        Ok(Err(DeserializationError::UnexpectedEOF)) => "eof",
        Ok(Err(_)) => "err",
        Ok(Ok(_)) => "ok",
    }
}

/// `qparse <queries text>`: constructor -> bytes -> read_from -> Queries::parse must give back the
/// query values and the Merkle proof nodes
fn qparse_go<E: FieldElement + Val, H: ElementHasher<BaseField = E::BaseField> + DK>(p: &mut P, depth: u8) -> Outcome {
    let nodes: Vec<Vec<H::Digest>> = Vec::<Vec<Dg<H>>>::parse(p).into_iter().map(undg).collect();
    p.expect(b',');
    let values = Vec::<Vec<E>>::parse(p);
    p.expect(b')');
    p.end();
    let (n2, v2) = (nodes.clone(), values.clone());
    let q = match guarded(move || Queries::new::<H, E>(BatchMerkleProof::<H> { leaves: vec![], nodes: n2, depth }, v2)) {
        Ok(q) => q,
        Err(_) => return Outcome::ok("reject"),
    };
    let bytes = q.to_bytes();
    let q2 = match Queries::read_from_bytes(&bytes) {
        Ok(q2) if q2 == q => q2,
        _ => return Outcome::ok("ne").fail("queries.roundtrip.value", "read_from(to_bytes(q)) != q"),
    };
    let (rows, cols) = (values.len(), values[0].len());
    let r = guarded(move || q2.parse::<H, E>(1usize << depth, rows, cols));
    let vd = verdict_of(&r);
    let mut o;
    match r {
        Ok(Ok((mp, table))) => {
            let got: Vec<Vec<E>> = table.rows().map(|r| r.to_vec()).collect();
            o = Outcome::ok(format!(
                "ok {} {}",
                show_list(got.iter(), |r| show_list(r.iter(), |e| e.show())),
                show_list(mp.nodes.iter(), |v| show_list(v.iter(), |d| H::dshow(d)))
            ));
            if got != values || mp.nodes != nodes || mp.depth != depth {
                o = o.fail("queries.parse.value", "parsed query values / Merkle nodes differ from what the constructor was given");
            }
        },
        // the documented limits of Queries::parse / Table::from_bytes: at most 255 queries of at most 255 values
        Ok(Err(e)) => {
            o = Outcome::ok(vd);
            if rows <= 255 && cols <= 255 {
                o = o.fail(format!("queries.parse.{}", vd), format!("{} queries x {} values, {}: {}", rows, cols, E::ty(), e));
            }
        },
        Err(info) => {
            o = Outcome::ok(vd);
            if rows <= 255 && cols <= 255 {
                o = o.fail("queries.parse.panic", format!("{} queries x {} values, {}: {}", rows, cols, E::ty(), info));
            }
        },
    }
    o
}

fn run_qparse(text: &str) -> Outcome {
    let mut p = P::new(text);
    let r = guarded(move || {
        p.expect(b'(');
        let ek = p.word();
        p.expect(b',');
        let dk = p.word();
        p.expect(b',');
        let depth = u8::parse(&mut p);
        p.expect(b',');
        if depth == 0 || depth > 40 {
            return Outcome::ok("bad-op");
        }
        match dk.as_str() {
            "b32" => with_elem!(ek.as_str(), E, { qparse_go::<E, Blake3_256<<E as FieldElement>::BaseField>>(&mut p, depth) }),
            "b24" => with_elem!(ek.as_str(), E, { qparse_go::<E, Blake3_192<<E as FieldElement>::BaseField>>(&mut p, depth) }),
            "e64" => match ek.as_str() {
                "f64" => qparse_go::<B64, Rp64_256>(&mut p, depth),
                "q64" => qparse_go::<QuadExtension<B64>, Rp64_256>(&mut p, depth),
                "c64" => qparse_go::<CubeExtension<B64>, Rp64_256>(&mut p, depth),
                _ => Outcome::ok("bad-op"),
            },
            _ => Outcome::ok("bad-op"),
        }
    });
    match r {
        Ok(o) => o,
        Err(info) => {
            if info.contains("syntax:") {
                Outcome::ok("bad-op")
            } else {
                Outcome::ok("reject")
            }
        },
    }
}

/// `oparse <oodframe text>`: constructor -> bytes -> read_from -> OodFrame::parse gives back the rows
fn oparse_go<E: FieldElement + Val>(p: &mut P) -> Outcome {
    p.expect(b'S');
    p.expect(b'(');
    let w = usize::parse(p);
    p.expect(b',');
    let cur = Vec::<E>::parse(p);
    p.expect(b',');
    let next = Vec::<E>::parse(p);
    p.expect(b',');
    let lag = Option::<Vec<E>>::parse(p);
    p.expect(b')');
    p.expect(b',');
    p.expect(b'S');
    let ev = Vec::<E>::parse(p);
    p.expect(b')');
    p.end();
    let (c2, n2, l2, e2) = (cur.clone(), next.clone(), lag.clone(), ev.clone());
    let f = match guarded(move || {
        let mut frame = OodFrame::default();
        let ts = TraceOodFrame::new(c2, n2, w, l2.map(LagrangeKernelEvaluationFrame::new));
        frame.set_trace_states::<E, Blake3_256<<E as FieldElement>::BaseField>>(&ts);
        frame.set_constraint_evaluations(&e2);
        frame
    }) {
        Ok(f) => f,
        Err(_) => return Outcome::ok("reject"),
    };
    if w == 0 || w > cur.len() {
        return Outcome::ok("bad-op");
    }
    let bytes = f.to_bytes();
    let f2 = match OodFrame::read_from_bytes(&bytes) {
        Ok(f2) if f2 == f => f2,
        _ => return Outcome::ok("ne").fail("oodframe.roundtrip.value", "read_from(to_bytes(f)) != f"),
    };
    let has_lag = matches!(&lag, Some(l) if !l.is_empty());
    let aux = cur.len() - w + has_lag as usize;
    let nev = ev.len();
    let r = guarded(move || f2.parse::<E>(w, aux, nev));
    let vd = verdict_of(&r);
    match r {
        Ok(Ok((ts, evals))) => {
            let lg: Option<Vec<E>> = ts.lagrange_kernel_frame().map(|l| l.inner().to_vec());
            let mut o = Outcome::ok(format!(
                "ok {} {} {} {}",
                show_list(ts.current_row().iter(), |e| e.show()),
                show_list(ts.next_row().iter(), |e| e.show()),
                lg.show(),
                show_list(evals.iter(), |e| e.show())
            ));
            let want_lag = if has_lag { lag.clone() } else { None };
            if ts.current_row() != &cur[..] || ts.next_row() != &next[..] || lg != want_lag || evals != ev {
                o = o.fail("oodframe.parse.value", "parsed rows / evaluations differ from what was set");
            }
            o
        },
        Ok(Err(e)) => Outcome::ok(vd).fail(format!("oodframe.parse.{}", vd), format!("{}", e)),
        Err(info) => Outcome::ok(vd).fail("oodframe.parse.panic", info),
    }
}

fn run_oparse(text: &str) -> Outcome {
    let mut p = P::new(text);
    let r = guarded(move || {
        p.expect(b'(');
        let ek = p.word();
        p.expect(b',');
        with_elem!(ek.as_str(), E, { oparse_go::<E>(&mut p) })
    });
    match r {
        Ok(o) => o,
        Err(info) => Outcome::ok(if info.contains("syntax:") { "bad-op" } else { "reject" }),
    }
}

/// `cparse <commitments text>`
fn cparse_go<H: DK>(p: &mut P) -> Outcome {
    let t = undg(Vec::<Dg<H>>::parse(p));
    p.expect(b',');
    let c = Dg::<H>::parse(p).0;
    p.expect(b',');
    let f = undg(Vec::<Dg<H>>::parse(p));
    p.expect(b')');
    p.end();
    if f.is_empty() {
        return Outcome::ok("bad-op");
    }
    let (t2, f2) = (t.clone(), f.clone());
    let cm = Commitments::new::<H>(t2, c, f2);
    let bytes = match guarded(|| cm.to_bytes()) {
        Ok(b) => b,
        Err(info) => return Outcome::ok("wpanic").fail("commitments.encode.panic", info),
    };
    let cm2 = match Commitments::read_from_bytes(&bytes) {
        Ok(x) if x == cm => x,
        _ => return Outcome::ok("ne").fail("commitments.roundtrip.value", "read_from(to_bytes(c)) != c"),
    };
    let (nt, nf) = (t.len(), f.len() - 1);
    let r = guarded(move || cm2.parse::<H>(nt, nf));
    let vd = verdict_of(&r);
    match r {
        Ok(Ok((t3, c3, f3))) => {
            let mut o = Outcome::ok(format!(
                "ok {} {} {}",
                show_list(t3.iter(), |d| H::dshow(d)),
                H::dshow(&c3),
                show_list(f3.iter(), |d| H::dshow(d))
            ));
            if t3 != t || c3 != c || f3 != f {
                o = o.fail("commitments.parse.value", "parsed commitments differ");
            }
            o
        },
        Ok(Err(e)) => Outcome::ok(vd).fail(format!("commitments.parse.{}", vd), format!("{}", e)),
        Err(info) => Outcome::ok(vd).fail("commitments.parse.panic", info),
    }
}

fn run_cparse(text: &str) -> Outcome {
    let mut p = P::new(text);
    let r = guarded(move || {
        p.expect(b'(');
        let k = p.word();
        p.expect(b',');
        with_digest!(k.as_str(), H, { cparse_go::<H>(&mut p) })
    });
    match r {
        Ok(o) => o,
        Err(info) => Outcome::ok(if info.contains("syntax:") { "bad-op" } else { "reject" }),
    }
}

/// `rparse <friproof constructor text>`: prover -> bytes -> read_from -> parse_remainder / parse_layers
/// agree with the same calls on the original
fn rparse_go<E: FieldElement + Val>(a: [usize; 6]) -> Outcome {
    let f = match guarded(move || build_fri::<E>(a[0], a[1], a[2], a[3], a[4], a[5] as u64)) {
        Ok(f) => f,
        Err(_) => return Outcome::ok("reject"),
    };
    let bytes = f.to_bytes();
    let f2 = match FriProof::read_from_bytes(&bytes) {
        Ok(x) if x == f => x,
        Ok(_) => return Outcome::ok("ne").fail("friproof.roundtrip.value", "read_from(to_bytes(p)) != p"),
        Err(e) => return Outcome::ok("err").fail("friproof.roundtrip.err", format!("{}", e)),
    };
    let r1 = f.parse_remainder::<E>();
    let r2 = f2.parse_remainder::<E>();
    let nl = f2.num_layers();
    let (n, folding) = (1usize << a[0], a[2]);
    let l1 = guarded(move || f.parse_layers::<Blake3_256<E::BaseField>, E>(n, folding).map(|(q, m)| (q, m.len())));
    let l2 = guarded(move || f2.parse_layers::<Blake3_256<E::BaseField>, E>(n, folding).map(|(q, m)| (q, m.len())));
    let mut o = Outcome::ok(format!(
        "{} {} {} {}",
        if r2.is_ok() { "ok" } else { "err" },
        r2.as_ref().map(|r| r.len()).unwrap_or(0),
        verdict_of(&l2),
        nl
    ));
    if r1 != r2 || r2.is_err() {
        o = o.fail("friproof.parse_remainder", "remainder of the decoded proof does not parse to the prover's remainder");
    }
    match (l1, l2) {
        (Ok(Ok(x)), Ok(Ok(y))) if x == y => {},
        _ => o = o.fail("friproof.parse_layers", "layers of the decoded proof do not parse like the original's"),
    }
    o
}

fn run_rparse(text: &str) -> Outcome {
    let mut p = P::new(text);
    let r = guarded(move || {
        p.expect(b'(');
        let ek = p.word();
        let mut a = [0usize; 6];
        for v in a.iter_mut() {
            p.expect(b',');
            *v = usize::parse(&mut p);
        }
        p.expect(b')');
        p.end();
        with_elem!(ek.as_str(), E, { rparse_go::<E>(a) })
    });
    match r {
        Ok(o) => o,
        Err(info) => Outcome::ok(if info.contains("syntax:") { "bad-op" } else { "reject" }),
    }
}

/// Untrusted element counts (HARDENING 8; seeded change C06-9): every collection whose decoder hands a count read from the
/// bytes to `read_many` is decoded from a count that no input can satisfy (2^16 + 1 .. usize::MAX) followed by a tail of
/// 0, 1, 255, 256, 257 or 1000 bytes - so that a streaming source has, or has not, seen the end of the data when the
/// count arrives - alone, nested, and as the trailing `gkr_proof` of a whole proof. `run_dec` sends each line through
/// SliceReader, Cursor and ReadAdapter over 1-, 7-, 256-byte, mixed and whole-input reads: all must end in the same kind of
/// error (never a panic), with heap requests proportional to the input (`<source>.alloc`; the workers also run under an
/// address-space cap, so a reservation of the full count aborts the worker: outcome `abort`).
fn gen_huge_counts(rng: &mut Rng, emit: &mut dyn FnMut(String)) {
    let counts: [u64; 19] = [
        (1 << 16) + 1,
        1 << 20,
        1 << 24,
        1 << 28,
        (1 << 31) - 1,
        1 << 31,
        (1 << 31) + 1,
        (1 << 32) - 1,
        1 << 32,
        (1 << 32) + 1,
        (1 << 62) - 1,
        1 << 62,
        (1 << 63) - 1,
        1 << 63,
        (1 << 63) + 1,
        u64::MAX / 16,
        u64::MAX / 8 + 1,
        u64::MAX - 1,
        u64::MAX,
    ];
    let tails = [0usize, 1, 255, 256, 257, 1000];
    let vint = |v: u64| -> Vec<u8> {
        let mut b = vec![];
        b.write_usize(v as usize);
        b
    };
    // (type, bytes before the count)
    let plain: [(&str, Vec<u8>); 12] = [
        ("vec(u8)", vec![]),
        ("vec(u64)", vec![]),
        ("vec(u16)", vec![]),
        ("vec(usize)", vec![]),
        ("str", vec![]),
        ("vec(str)", vec![]),
        ("map(u8,u8)", vec![]),
        ("set(u16)", vec![]),
        ("opt(vec(u8))", vec![1]),
        ("opt(str)", vec![1]),
        ("vec(vec(u32))", vec![]),
        // a good first element, then an inner count nothing satisfies
        ("vec(vec(u32))", {
            let mut b = vint(3);
            b.extend(vint(1));
            b.extend([7, 0, 0, 0]);
            b
        }),
    ];
    for (k, (ty, pre)) in plain.iter().enumerate() {
        for (ci, c) in counts.iter().enumerate() {
            for (ti, tl) in tails.iter().enumerate() {
                let mut b = pre.clone();
                b.extend(vint(*c));
                // zero / random tails in rotation (zeros decode as elements of every type above)
                if (k + ci + ti) % 2 == 0 {
                    b.extend(vec![0u8; *tl]);
                } else {
                    b.extend(rng.bytes(*tl));
                }
                emit(format!("dec {} {}", ty, hex(&b)));
            }
        }
    }
    // the same count as the trailing gkr_proof of whole proofs (the only count of a proof that reaches read_many on the
    // outer reader unchecked): the dummy proof and two generated ones
    let mut proofs: Vec<Vec<u8>> = vec![];
    {
        let mut d = Proof::new_dummy();
        d.gkr_proof = None;
        proofs.push(d.to_bytes());
    }
    for _ in 0..40 {
        if proofs.len() >= 3 {
            break;
        }
        let text = <Proof as Val>::gen(rng, 40);
        if let Ok(mut p) = guarded(move || parse_proof(&mut P::new(&text))) {
            p.gkr_proof = None;
            if let Ok(b) = guarded(|| p.to_bytes()) {
                if Proof::from_bytes(&b).is_ok() && b.len() < 4000 {
                    proofs.push(b);
                }
            }
        }
    }
    for pb in &proofs {
        // the last byte is the `None` marker of gkr_proof
        let body = &pb[..pb.len() - 1];
        for c in counts.iter() {
            for tl in tails.iter() {
                let mut b = body.to_vec();
                b.push(1);
                b.extend(vint(*c));
                b.extend(rng.bytes(*tl));
                emit(format!("dec proof {}", hex(&b)));
            }
        }
    }
}

/// `vint <v>`: the variable-length size encoding: `<hex> <len>`
fn run_vint(v: &str) -> Outcome {
    let v: u64 = v.parse().unwrap();
    let mut b = vec![];
    b.write_usize(v as usize);
    let mut o = Outcome::ok(format!("{} {}", hex(&b), b.len()));
    let bits = 64 - v.leading_zeros() as usize;
    let want = if bits > 56 { 9 } else { ((bits + 6) / 7).max(1) };
    if b.len() != want {
        o = o.fail("usize.encoded_len", format!("{} is written in {} bytes, the format needs {}", v, b.len(), want));
    }
    let mut r = SliceReader::new(&b);
    match r.read_usize() {
        Ok(x) if x as u64 == v && !r.has_more_bytes() => {},
        _ => o = o.fail("usize.roundtrip.value", format!("{} does not read back", v)),
    }
    o
}

// ------------------------------------------------------------------------------------ type menu
macro_rules! types {
    ($cb:ident) => {
        $cb! {
            u8, u16, u32, u64, u128, usize, Bool, (), String, Bytes,
            Option<u8>, Option<u64>, Option<Bytes>, Option<Option<Bool>>, Option<String>, Option<Vec<u8>>,
            Vec<u8>, Vec<u16>, Vec<u64>, Vec<usize>, Vec<Bool>, Vec<String>, Vec<Bytes>, Vec<Option<u16>>, Vec<()>,
            Vec<Vec<u32>>, Vec<(u8, u64)>,
            [u8; 0], [u64; 1], [u16; 3], [Option<u8>; 4], [u8; 32], [Vec<u8>; 2],
            (u8,), (u8, u16), (u8, u64, Bool), (usize, String, Option<u32>, Bytes), (u8, u16, u32, u64, u128),
            (Bool, u8, Vec<u16>, usize, String, ()),
            BTreeMap<u8, u8>, BTreeMap<u32, String>, BTreeMap<String, Vec<u16>>, BTreeMap<(u8, u8), Bool>,
            BTreeMap<usize, Option<u64>>, BTreeMap<Bytes, u8>,
            BTreeSet<u16>, BTreeSet<String>, BTreeSet<(u8, Bool)>, BTreeSet<Option<u8>>, Vec<BTreeMap<u8, u8>>, Option<BTreeSet<u64>>,
            B64, B62, B128, QuadExtension<B64>, CubeExtension<B64>, QuadExtension<B62>, CubeExtension<B62>, QuadExtension<B128>,
            Vec<B64>, Vec<QuadExtension<B128>>, [B62; 4], Option<CubeExtension<B64>>, (B64, B128),
            D32, D24, E64, E62, Vec<D32>, Option<E64>, [E62; 2], Vec<D24>,
            BTreeSet<u8>, BTreeSet<u32>, BTreeSet<usize>, BTreeSet<Bytes>, BTreeSet<(u8, u8)>, BTreeMap<u16, u16>,
            BTreeMap<Option<u8>, ()>,
            ((), [u8; 0]), Vec<[u16; 0]>, Vec<((),)>, Option<()>, BTreeMap<u8, ()>, [(); 3], Vec<Vec<()>>,
            SliceOf<u16>, SliceOf<String>, SliceOf<()>, StrRef, Vec<StrRef>,
            FieldExtension, ProofOptions, TraceInfo, Context, Commitments, Queries, OodFrame, FriProof, Proof,
            Vec<TraceInfo>, Option<ProofOptions>, (Context, Queries)
        }
    };
}

macro_rules! cb_names {
    ($($t:ty),* $(,)?) => {
        fn type_names() -> Vec<String> {
            vec![$(<$t as Val>::ty()),*]
        }
        fn dispatch_enc(name: &str, text: &str) -> Outcome {
            $( if name == <$t as Val>::ty() { return run_enc::<$t>(text); } )*
            Outcome::ok("bad-op")
        }
        fn dispatch_dec(name: &str, h: &str) -> Outcome {
            $( if name == <$t as Val>::ty() { return run_dec::<$t>(h); } )*
            Outcome::ok("bad-op")
        }
        /// decode one value of the named type from a reader that is shared with the steps before and after
        fn dispatch_step<R: ByteReader>(name: &str, r: &mut R) -> Option<Result<String, DeserializationError>> {
            $( if name == <$t as Val>::ty() { return Some(<$t as Deserializable>::read_from(r).map(|v| v.show())); } )*
            None
        }
        fn dispatch_text_bytes(name: &str, text: &str) -> Option<Vec<u8>> {
            $( if name == <$t as Val>::ty() {
                let t = text.to_string();
                return guarded(move || <$t as Val>::parse(&mut P::new(&t)).to_bytes()).ok();
            } )*
            None
        }
        fn dispatch_gen_text(name: &str, rng: &mut Rng, sz: usize) -> String {
            $( if name == <$t as Val>::ty() { return <$t as Val>::gen(rng, sz); } )*
            String::new()
        }
        fn dispatch_gen(name: &str, rng: &mut Rng, n: usize, sz: usize, emit: &mut dyn FnMut(String)) {
            $( if name == <$t as Val>::ty() { return gen_lines::<$t>(rng, n, sz, emit); } )*
        }
    };
}
types!(cb_names);

// ------------------------------------------------------------------------------------ guard boundaries
/// Deterministic boundary lines: for every numeric guard of the constructors and decoders in scope the value at
/// the largest / smallest accepted point and the one just beyond it (the latter must be refused by the
/// constructor: `reject`), alone and nested inside larger values. Element values are kept small so that the
/// lines stay short.
fn gen_boundaries(quick: bool, emit: &mut dyn FnMut(String)) {
    let opt_ok = "(28,8,0,1,8,31)";
    let ti_ok = "(3,0,0,8,x)";
    let small_q = "(f64,b32,3,[],[[1]])";
    let rep = |n: usize, v: &str| -> String { format!("[{}]", vec![v; n].join(",")) };

    // --- ProofOptions: every parameter at and beyond its limits, the others at a valid point
    let nq = [0u64, 1, 2, 254, 255, 256];
    let bl = [0u64, 1, 2, 3, 4, 64, 128, 129, 256];
    let gr = [0u64, 1, 31, 32, 33, 255, 256];
    let fe = [0u64, 1, 2, 3, 4];
    let ff = [0u64, 1, 2, 3, 4, 8, 16, 17, 32];
    let rd = [0u64, 1, 2, 3, 7, 15, 31, 63, 127, 254, 255, 256, 511];
    let mut options: Vec<String> = vec![];
    for v in nq {
        options.push(format!("({},8,0,1,8,31)", v));
    }
    for v in bl {
        options.push(format!("(28,{},0,1,8,31)", v));
    }
    for v in gr {
        options.push(format!("(28,8,{},1,8,31)", v));
    }
    for v in fe {
        options.push(format!("(28,8,0,{},8,31)", v));
    }
    // folding factor x remainder degree: the full product
    for f in ff {
        for r in rd {
            options.push(format!("(28,8,0,1,{},{})", f, r));
        }
    }
    // all extremes together
    for q in [1u64, 255] {
        for b in [2u64, 128] {
            for g in [0u64, 32] {
                for f in [2u64, 16] {
                    for r in [0u64, 255] {
                        options.push(format!("({},{},{},3,{},{})", q, b, g, f, r));
                    }
                }
            }
        }
    }
    for o in &options {
        emit(format!("enc options {}", o));
    }
    for o in options.iter().step_by(7) {
        emit(format!("enc opt(options) S{}", o));
        emit(format!("enc context (f64,{},{})", ti_ok, o));
    }

    // --- TraceInfo: widths, random elements, lengths, metadata
    let mut infos: Vec<String> = vec![];
    for (m, a) in [(0u64, 0u64), (1, 0), (2, 0), (254, 0), (255, 0), (256, 0), (1, 1), (1, 253), (1, 254), (1, 255), (254, 1), (254, 2), (255, 1), (127, 128), (128, 127), (128, 128), (0, 255)] {
        let rands: Vec<u64> = if a == 0 { vec![0, 1] } else { vec![0, 1, 254, 255, 256] };
        for r in rands {
            infos.push(format!("({},{},{},8,x)", m, a, r));
        }
    }
    let lens: [u128; 14] = [0, 1, 4, 7, 8, 9, 16, 1 << 31, (1 << 32) - 1, 1 << 32, 1 << 62, 1 << 63, (1 << 63) + 1, 1 << 64];
    for l in lens {
        infos.push(format!("(3,0,0,{},x)", l));
        infos.push(format!("(254,1,0,{},x01)", l));
    }
    for k in 3..=63u32 {
        infos.push(format!("(1,0,0,{},x)", 1u128 << k));
    }
    for o in &infos {
        emit(format!("enc traceinfo {}", o));
    }
    for n in [0usize, 1, 255, 256, 65534, 65535, 65536] {
        let meta = xhex(&vec![0x5au8; n]);
        emit(format!("enc traceinfo (255,0,0,8,{})", meta));
        emit(format!("enc traceinfo (1,254,255,{},{})", 1u64 << 63, meta));
        if n >= 65534 {
            emit(format!("enc context (f128,(1,254,0,8,{}),(255,128,32,3,16,255))", meta));
        }
    }
    emit(format!("enc vec(traceinfo) [{}]", ["(255,0,0,8,x)", "(1,254,0,9223372036854775808,x00)", "(254,1,255,8,x)", "(1,0,0,8,x)"].join(",")));

    // --- Context: trace length x blowup against u32::MAX (the largest accepted LDE domain is 2^31), every
    //     power of two on both sides of the limit, for the three fields
    let mut contexts: Vec<String> = vec![];
    for f in ["f64", "f62", "f128"] {
        for k in 3..=34u32 {
            for b in [2u64, 4, 8, 16, 32, 64, 128] {
                let lde = k + b.trailing_zeros();
                let near = (29..=34).contains(&lde) || k <= 4 || k >= 30;
                if (f == "f64" && (near || !quick)) || (f != "f64" && (30..=33).contains(&lde)) {
                    contexts.push(format!("({},(2,0,0,{},x),(28,{},0,1,8,31))", f, 1u64 << k, b));
                }
            }
        }
    }
    // with everything else at its limits too
    for (k, b) in [(30u32, 2u64), (28, 8), (24, 128), (31, 2), (29, 8), (25, 128), (3, 2), (3, 128)] {
        contexts.push(format!("(f128,(254,1,0,{},xff),(255,{},32,3,16,255))", 1u64 << k, b));
        contexts.push(format!("(f62,(1,254,255,{},x),(1,{},0,2,2,0))", 1u64 << k, b));
    }
    for c in &contexts {
        emit(format!("enc context {}", c));
    }
    // nested: inside tuples and whole proofs (one query set per trace segment)
    for c in &contexts {
        let lde_edge = c.contains("1073741824),(28,2,") || c.contains("268435456),(28,8,") || c.contains("16777216),(28,128,") || c.contains("(f128,(254,1") || c.contains("(f62,(1,254");
        if !lde_edge {
            continue;
        }
        let nseg = if c.contains(",(2,0,0,") { 1 } else { 2 };
        emit(format!("enc tup(context,queries) ({},{})", c, small_q));
        for (nuq, nonce, gkr) in [(0u64, 0u128, "N".to_string()), (255, (1u128 << 64) - 1, format!("S{}", xhex(&vec![7u8; 128])))] {
            emit(format!(
                "enc proof ({},{},D,{},{},D,D,{},{})",
                c,
                nuq,
                rep(nseg, small_q),
                small_q,
                nonce,
                gkr
            ));
        }
    }
    // a proof literal with too few / too many query sets is not decodable (documented exemption), boundary
    // values of the remaining scalar fields
    emit(format!("enc proof ((f64,{},{}),256,D,[{}],{},D,D,0,N)", ti_ok, opt_ok, small_q, small_q));
    emit(format!("enc proof ((f64,{},{}),1,D,[{}],{},D,D,18446744073709551616,N)", ti_ok, opt_ok, small_q, small_q));
    for n in [0usize, 1, 127, 128, 16383, 16384] {
        emit(format!("enc proof ((f64,{},{}),1,D,[{}],{},D,D,1,S{})", ti_ok, opt_ok, small_q, small_q, xhex(&vec![1u8; n])));
    }

    // --- Commitments: the 65535-byte limit of the writer, for every digest size
    let d32 = format!("x{}", "00".repeat(32));
    let d24 = format!("x{}", "11".repeat(24));
    for (k, d, maxok) in [("b32", d32.as_str(), 2047usize), ("b24", d24.as_str(), 2730), ("e62", "[1,2,3,4]", 2114), ("e64", "[1,2,3,4]", 2047)] {
        for total in [1usize, 2, maxok - 1, maxok, maxok + 1] {
            let nt = if total >= 3 { 2 } else { 0 };
            let nf = total - 1 - nt;
            emit(format!("enc commitments ({},{},{},{})", k, rep(nt, d), d, rep(nf, d)));
            if nf >= 1 {
                emit(format!("cparse ({},{},{},{})", k, rep(nt, d), d, rep(nf, d)));
            }
        }
    }

    // --- Queries / Table: 254, 255, 256 rows and columns, node vectors of 255 / 256 entries
    for (ek, v) in [("f64", "1"), ("q128", "(1,2)"), ("c64", "(1,2,3)")] {
        for (r, c) in [(1usize, 1usize), (254, 1), (255, 1), (256, 1), (1, 254), (1, 255), (1, 256), (255, 2), (2, 255)] {
            let vals = rep(r, &rep(c, v));
            emit(format!("qparse ({},b32,10,[],{})", ek, vals));
            emit(format!("enc queries ({},b32,10,[],{})", ek, vals));
        }
    }
    if !quick {
        emit(format!("qparse (f64,b24,12,[],{})", rep(255, &rep(255, "3"))));
        emit(format!("qparse (f128,b32,12,[],{})", rep(255, &rep(255, "3"))));
    }
    for nv in [0usize, 1, 254, 255, 256] {
        emit(format!("qparse (f64,b24,8,{},[[1,2]])", rep(nv, "[]")));
        emit(format!("qparse (f64,b24,8,[{}],[[1,2]])", rep(nv, &d24)));
        emit(format!("enc queries (f64,b24,8,[[],{}],[[1,2]])", rep(nv, &d24)));
    }
    for depth in [0u64, 1, 40, 255, 256] {
        emit(format!("enc queries (f64,b32,{},[],[[1]])", depth));
    }
    emit("enc queries (f64,b32,3,[],[])".to_string());
    emit("enc queries (f64,b32,3,[],[[]])".to_string());
    emit("enc queries (f64,b32,3,[],[[1],[1,2]])".to_string());

    // --- OodFrame: 65535 bytes of trace states / evaluations for every element size, Lagrange frames of
    //     254 / 255 rows, one column
    for (ek, v, el) in [("f64", "1", 8usize), ("f128", "2", 16), ("c64", "(1,2,3)", 24), ("q128", "(1,2)", 32)] {
        let wmax = (65535 - 1) / (2 * el);
        for w in [1usize, wmax - 1, wmax, wmax + 1] {
            emit(format!("enc oodframe ({},S({},{},{},N),S[{}])", ek, w.min(3), rep(w, v), rep(w, v), v));
            if w <= wmax {
                emit(format!("oparse ({},S({},{},{},N),S[{}])", ek, w.min(255), rep(w, v), rep(w, v), v));
            }
        }
        let emax = 65535 / el;
        for n in [1usize, emax - 1, emax, emax + 1] {
            emit(format!("enc oodframe ({},S(1,[{}],[{}],N),S{})", ek, v, v, rep(n, v)));
            if n <= emax {
                emit(format!("oparse ({},S(1,[{}],[{}],N),S{})", ek, v, v, rep(n, v)));
            }
        }
        for l in [0usize, 1, 64, 253, 254, 255, 256] {
            emit(format!("enc oodframe ({},S(1,[{},{}],[{},{}],S{}),S[{}])", ek, v, v, v, v, rep(l, v), v));
            emit(format!("oparse ({},S(1,[{},{}],[{},{}],S{}),S[{}])", ek, v, v, v, v, rep(l, v), v));
        }
    }
    emit("enc oodframe (f64,S(1,[1],[1,2],N),S[1])".to_string());
    emit("enc oodframe (f64,S(1,[1],[1],N),S[])".to_string());
    emit("enc oodframe (f64,N,N)".to_string());

    // --- the other public constructors: TraceInfo::new / with_meta, Commitments::add
    for w in [0u64, 1, 254, 255, 256] {
        for l in [4u128, 8, 1 << 63, 12] {
            emit(format!("enc traceinfo n({},{})", w, l));
            emit(format!("enc traceinfo m({},{},x0102)", w, l));
        }
    }
    emit(format!("enc traceinfo m(255,8,{})", xhex(&vec![1u8; 65535])));
    emit(format!("enc traceinfo m(255,8,{})", xhex(&vec![1u8; 65536])));
    emit(format!("enc context (f62,n(255,1073741824),(255,2,32,3,16,255))"));
    for (k, d, maxok) in [("b32", d32.as_str(), 2047usize), ("e62", "[1,2,3,4]", 2114)] {
        for added in [0usize, 1, 2] {
            for total in [3usize, maxok, maxok + 1] {
                let nf = total.saturating_sub(2 + added);
                emit(format!("enc commitments ({},[{}],{},{},{})", k, d, d, rep(nf, d), rep(added, d)));
            }
        }
    }
    // --- Queries: Merkle node bytes across the 16-bit boundary (the length prefix is 32 bits wide), the real
    //     Rescue hasher at the boundaries of its rate (rows of 1..17 elements)
    for (nv, per) in [(10usize, 255usize), (11, 255), (255, 11), (86, 32)] {
        emit(format!("enc queries (f64,b24,8,{},[[1,2]])", rep(nv, &rep(per, &d24))));
        emit(format!("qparse (f64,b24,8,{},[[1,2]])", rep(nv, &rep(per, &d24))));
    }
    for cols in [1usize, 3, 4, 7, 8, 9, 11, 12, 13, 16, 17] {
        emit(format!("qparse (f64,e64,6,[[[1,2,3,4]],[]],{})", rep(2, &rep(cols, "18446744069414584320"))));
        emit(format!("qparse (q64,e64,6,[],{})", rep(3, &rep(cols, "(1,18446744069414584320)"))));
    }

    // --- collections: length prefixes at the vint64 boundaries
    let mut lens = vec![0usize, 1, 127, 128, 129, 255, 256, 16383, 16384, 16385, 65535, 65536, 65537];
    lens.push(2097152);
    if !quick {
        lens.push(2097151);
    }
    for n in lens {
        emit(format!("enc bytes {}", xhex(&vec![0x61u8; n])));
        emit(format!("enc str {}", xhex(&vec![0x61u8; n])));
        emit(format!("enc opt(bytes) S{}", xhex(&vec![0x61u8; n])));
        emit(format!("enc strref {}", xhex(&vec![0x61u8; n])));
        if n <= 65537 {
            // element counts across 2^7, 2^14 and 2^16 for every sequence implementation
            emit(format!("enc vec(u16) {}", rep(n, "513")));
            emit(format!("enc slice(u16) {}", rep(n, "513")));
            emit(format!("enc vec(unit) {}", rep(n, "U")));
            emit(format!("enc slice(unit) {}", rep(n, "U")));
            emit(format!("enc vec(bool) {}", rep(n, "T")));
        }
        if n <= 16385 {
            let keys: Vec<String> = (0..n.min(70000)).map(|i| format!("{}", i)).collect();
            emit(format!("enc set(u16) [{}]", keys.join(",")));
        }
    }
}

// ------------------------------------------------------------------------------------ sequences on one reader
/// decode the listed types one after the other from the same reader. Returns the verdicts up to the first
/// failure (compared with the model) and a description of the reader afterwards (compared between readers):
/// whether it reports more bytes and how many it still hands out.
fn seq_with<R: ByteReader>(names: &[&str], r: &mut R, total: usize) -> (Vec<String>, String) {
    let mut out = vec![];
    for name in names {
        let res = guarded(|| dispatch_step(name, r));
        match res {
            Err(_) => {
                out.push("panic".to_string());
                break;
            },
            Ok(None) => {
                out.push("bad-op".to_string());
                break;
            },
            Ok(Some(Ok(s))) => out.push(format!("ok {}", s)),
            Ok(Some(Err(DeserializationError::UnexpectedEOF))) => {
                out.push("eof".to_string());
                break;
            },
            Ok(Some(Err(_))) => {
                out.push("err".to_string());
                break;
            },
        }
    }
    let state = guarded(|| {
        let more = r.has_more_bytes();
        let mut rest = 0usize;
        while rest <= total + 4 && r.read_u8().is_ok() {
            rest += 1;
        }
        format!("more={} rest={}", more, rest)
    })
    .unwrap_or_else(|_| "panic".to_string());
    (out, state)
}

/// `seq <ty1;ty2;...> <hex>`
fn run_seq(types: &str, h: &str) -> Outcome {
    let names: Vec<&str> = types.split(';').collect();
    let input = unhex(h);
    let total = input.len();
    let (reference, rstate) = seq_with(&names, &mut SliceReader::new(&input), total);
    let all_ok = reference.len() == names.len() && reference.iter().all(|v| v.starts_with("ok"));
    let mut o = Outcome::ok(if all_ok { format!("{}|{}", reference.join("|"), rstate) } else { reference.join("|") });
    let (v, st) = seq_with(&names, &mut Cursor::new(&input[..]), total);
    if v != reference || st != rstate {
        o = o.fail("cursor.seq", format!("Cursor: {} [{}] SliceReader: {} [{}]", short(&v.join("|")), st, short(&reference.join("|")), rstate));
    }
    let l = total;
    for (name, sizes) in [("chunk1", vec![1usize]), ("straddle", vec![3, 1, 2, 7, 5]), ("whole", vec![1 << 20]), ("mixed", vec![l % 5 + 1, 255, l % 11 + 1, 256, 257, 2])] {
        let mut src = Chunked { data: &input, pos: 0, sizes, k: 0 };
        let mut ad = ReadAdapter::new(&mut src);
        let (v, st) = seq_with(&names, &mut ad, total);
        if v != reference || st != rstate {
            o = o.fail(
                format!("readadapter.seq.{}", name),
                format!("ReadAdapter({}): {} [{}] SliceReader: {} [{}]", name, short(&v.join("|")), st, short(&reference.join("|")), rstate),
            );
        }
    }
    o
}

/// `rstr <n> <hex>`: the provided methods `read_string(n)` / `read_vec(n)` of every reader
fn run_rstr(n: &str, h: &str) -> Outcome {
    let n: usize = n.parse().unwrap();
    let input = unhex(h);
    fn go<R: ByteReader>(r: &mut R, n: usize, total: usize) -> String {
        let res = guarded(|| r.read_string(n));
        match res {
            Err(_) => "panic".into(),
            Ok(Err(DeserializationError::UnexpectedEOF)) => "eof".into(),
            Ok(Err(_)) => "err".into(),
            Ok(Ok(s)) => {
                let mut rest = 0usize;
                while rest <= total + 4 && r.read_u8().is_ok() {
                    rest += 1;
                }
                format!("ok {} {}", xhex(s.as_bytes()), rest)
            },
        }
    }
    let total = input.len();
    let reference = go(&mut SliceReader::new(&input), n, total);
    let mut o = Outcome::ok(reference.clone());
    // read_vec must hand out the same bytes
    let mut r2 = SliceReader::new(&input);
    match (r2.read_vec(n), &reference) {
        (Ok(v), r) if r.starts_with("ok") && !r.starts_with(&format!("ok {} ", xhex(&v))) => {
            o = o.fail("reader.read_vec", "read_vec and read_string disagree")
        },
        _ => {},
    }
    if go(&mut Cursor::new(&input[..]), n, total) != reference {
        o = o.fail("cursor.read_string", "Cursor and SliceReader disagree");
    }
    for (name, sizes) in [("chunk1", vec![1usize]), ("straddle", vec![3, 1, 2, 7, 5]), ("whole", vec![1 << 20])] {
        let mut src = Chunked { data: &input, pos: 0, sizes, k: 0 };
        let mut ad = ReadAdapter::new(&mut src);
        if go(&mut ad, n, total) != reference {
            o = o.fail(format!("readadapter.read_string.{}", name), "ReadAdapter and SliceReader disagree");
        }
    }
    o
}

// ------------------------------------------------------------------------------------ decoder guards, wire forms
fn le(v: u128, n: usize) -> Vec<u8> {
    (0..n).map(|i| (v >> (8 * i)) as u8).collect()
}
fn cat(parts: &[&[u8]]) -> Vec<u8> {
    parts.iter().flat_map(|p| p.iter().cloned()).collect()
}
fn blk(n: usize, len_bytes: usize, fill: u8) -> Vec<u8> {
    cat(&[&le(n as u128, len_bytes), &vec![fill; n]])
}

/// hand-assembled encodings around every guard of the decoders (each length / count / tag at, below and above
/// its limit, every enclosing prefix consistent with the component it describes), each also one byte short and
/// one byte long
fn gen_dec_boundaries(quick: bool, emit: &mut dyn FnMut(String)) {
    fn put(emit: &mut dyn FnMut(String), ty: &str, b: Vec<u8>) {
        emit(format!("dec {} {}", ty, hex(&b)));
        if !b.is_empty() {
            emit(format!("dec {} {}", ty, hex(&b[..b.len() - 1])));
        }
        let mut longer = b.clone();
        longer.push(0);
        emit(format!("dec {} {}", ty, hex(&longer)));
    }
    // tags
    for b in [0u8, 1, 2, 3, 4, 127, 128, 255] {
        put(emit, "bool", vec![b]);
        put(emit, "fext", vec![b]);
        put(emit, "opt(u8)", vec![b, 7]);
        put(emit, "opt(opt(bool))", vec![b, 1, 1]);
        put(emit, "opt(opt(bool))", vec![1, b, 1]);
        put(emit, "opt(opt(bool))", vec![1, 1, b]);
        put(emit, "opt(unit)", vec![b]);
    }
    // field elements: 0, 1, M-1, M, M+1, all ones
    for (ty, m, n) in [("f64", M64, 8usize), ("f62", M62, 8), ("f128", M128, 16)] {
        let max = if n == 16 { u128::MAX } else { (1u128 << 64) - 1 };
        let vals = [0u128, 1, m - 1, m, m + 1, max, m / 2];
        for v in vals {
            put(emit, ty, le(v, n));
        }
        for a in [m - 1, m] {
            for b in [0, m - 1, m] {
                put(emit, &format!("q({})", ty), cat(&[&le(a, n), &le(b, n)]));
                if ty != "f128" {
                    put(emit, &format!("c({})", ty), cat(&[&le(1, n), &le(a, n), &le(b, n)]));
                }
            }
        }
        put(emit, &format!("vec({})", if ty == "f64" { "f64" } else { "f64" }), cat(&[&[5u8][..], &le(M64 - 1, 8), &le(M64, 8)]));
    }
    // digests: words at and above the modulus, all ones
    for w in [0u128, M64 - 1, M64, M64 + 1, (1 << 64) - 1] {
        put(emit, "e64", cat(&[&le(w, 8), &le(1, 8), &le(w, 8), &le(M64 - 1, 8)]));
    }
    for fill in [0u8, 0xff, 0x55, 0xaa, 0x3f, 0xc0] {
        put(emit, "e62", vec![fill; 31]);
        put(emit, "b24", vec![fill; 24]);
        put(emit, "b32", vec![fill; 32]);
    }
    put(emit, "e62", cat(&[&le((M62 - 1) | (3 << 62), 8), &le(u64::MAX as u128, 8), &le(u64::MAX as u128, 8), &le((1 << 56) - 1, 7)]));
    // vint64: every length class with the smallest / largest payload, over-long zero encodings
    for k in 1..=8usize {
        let tag = 1u128 << (k - 1);
        for payload in [0u128, 1, (1u128 << (7 * k)) - 1, 1u128 << (7 * (k - 1))] {
            let v = ((payload << 1 | 1) << (k - 1)) & ((1u128 << (8 * k)) - 1);
            put(emit, "usize", le(v, k));
        }
        put(emit, "usize", le(tag, k));
    }
    for v in [0u128, 1, (1 << 56) - 1, 1 << 56, (1 << 64) - 1] {
        put(emit, "usize", cat(&[&[0u8][..], &le(v, 8)]));
    }
    // TraceInfo
    let ti = |m: u8, a: u8, r: u8, e: u8, ml: usize, have: usize| cat(&[&[m, a, r, e][..], &le(ml as u128, 2), &vec![0x11u8; have]]);
    for (m, a) in [(0u8, 0u8), (1, 0), (255, 0), (1, 254), (1, 255), (254, 1), (254, 2), (255, 1), (128, 127), (128, 128), (0, 255)] {
        for r in [0u8, 1, 255] {
            put(emit, "traceinfo", ti(m, a, r, 3, 0, 0));
        }
    }
    for e in [0u8, 1, 2, 3, 4, 31, 32, 33, 62, 63, 64, 65, 127, 128, 255] {
        put(emit, "traceinfo", ti(3, 0, 0, e, 1, 1));
        put(emit, "traceinfo", ti(3, 2, 0, e, 0, 0));
    }
    for ml in [0usize, 1, 2, 255, 256, 257, 65534, 65535] {
        put(emit, "traceinfo", ti(255, 0, 0, 3, ml, ml));
        if ml > 0 {
            emit(format!("dec traceinfo {}", hex(&ti(255, 0, 0, 3, ml, 0))));
        }
    }
    // ProofOptions: one parameter at a time
    let ok = [28u8, 8, 0, 1, 8, 31];
    let sweeps: [&[u8]; 6] = [
        &[0, 1, 2, 254, 255],
        &[0, 1, 2, 3, 4, 64, 127, 128, 129, 255],
        &[0, 1, 31, 32, 33, 255],
        &[0, 1, 2, 3, 4, 255],
        &[0, 1, 2, 3, 4, 8, 15, 16, 17, 32, 255],
        &[0, 1, 2, 3, 7, 127, 128, 254, 255],
    ];
    for (i, vals) in sweeps.iter().enumerate() {
        for v in vals.iter() {
            let mut o = ok;
            o[i] = *v;
            put(emit, "options", o.to_vec());
        }
    }
    // Context: modulus length byte, trace length x blowup around 2^31 / 2^32
    let m64 = le(M64, 8);
    for ml in [0usize, 1, 7, 8, 9, 16, 254, 255] {
        put(emit, "context", cat(&[&ti(3, 0, 0, 3, 0, 0), &[ml as u8][..], &vec![0xabu8; ml], &ok[..]]));
    }
    for e in 22..=34u8 {
        for b in [2u8, 4, 8, 16, 32, 64, 128] {
            let lde = e as u32 + b.trailing_zeros();
            if (29..=34).contains(&lde) {
                let mut o = ok;
                o[1] = b;
                emit(format!("dec context {}", hex(&cat(&[&ti(3, 0, 0, e, 0, 0), &[8u8][..], &m64, &o[..]]))));
            }
        }
    }
    // byte blocks with 16- and 32-bit length prefixes: Commitments, Queries, OodFrame, FriProof
    for n in [0usize, 1, 255, 256, 65534, 65535] {
        put(emit, "commitments", blk(n, 2, 0x22));
    }
    let sizes32 = [0usize, 1, 255, 256, 65535, 65536, 65537, 70001];
    for (i, vl) in sizes32.iter().enumerate() {
        for (j, pl) in sizes32.iter().enumerate() {
            // all pairs with a small side, the diagonal and its neighbours
            if *vl <= 256 || *pl <= 256 || i == j || i + 1 == j || j + 1 == i {
                put(emit, "queries", cat(&[&blk(*vl, 4, 0x33), &blk(*pl, 4, 0x44)]));
            }
        }
    }
    let sizes16 = [0usize, 1, 255, 256, 65535];
    for a in sizes16 {
        for b in sizes16 {
            for c in sizes16 {
                let big = [a, b, c].iter().filter(|x| **x > 256).count();
                if big <= 1 || (a == b && b == c) {
                    put(emit, "oodframe", cat(&[&blk(a, 2, 0x55), &blk(b, 2, 0x66), &blk(c, 2, 0x77)]));
                }
            }
        }
    }
    let layer = |vl: usize, pl: usize| cat(&[&blk(vl, 4, 0x88), &blk(pl, 4, 0x99)]);
    for vl in [0usize, 1, 255, 256, 65535, 65536, 65537, 70001] {
        for pl in [0usize, 1, 256, 65536] {
            if vl <= 256 || pl <= 256 || vl == pl {
                put(emit, "friproof", cat(&[&[1u8][..], &layer(vl, pl), &blk(16, 2, 1), &[0u8][..]]));
                put(emit, "friproof", cat(&[&[2u8][..], &layer(3, 1), &layer(vl, pl), &blk(0, 2, 1), &[1u8][..]]));
            }
        }
    }
    for rl in [0usize, 1, 255, 256, 65534, 65535] {
        for np in [0u8, 1, 62, 63, 64, 65, 255] {
            if rl <= 256 || np <= 1 {
                put(emit, "friproof", cat(&[&[0u8][..], &blk(rl, 2, 0xee), &[np][..]]));
            }
        }
    }
    for nl in [0usize, 1, 2, 254, 255] {
        let mut b = vec![nl as u8];
        for i in 0..nl {
            b.extend(layer(1 + i % 3, i % 2));
        }
        b.extend(blk(8, 2, 0xcd));
        b.push(3);
        put(emit, "friproof", b);
    }
    // a count byte that promises more layers than follow, and fewer
    put(emit, "friproof", cat(&[&[3u8][..], &layer(2, 2), &layer(2, 2), &blk(8, 2, 0xcd), &[0u8][..]]));
    put(emit, "friproof", cat(&[&[1u8][..], &layer(2, 2), &layer(2, 2), &blk(8, 2, 0xcd), &[0u8][..]]));
    // whole proofs assembled from consistent parts: 1 and 2 trace segments, each optional / variable part at
    // its limits
    let ctx = |aux: u8, e: u8, b: u8| {
        let mut o = ok;
        o[1] = b;
        cat(&[&ti(3, aux, 0, e, 2, 2), &[8u8][..], &m64, &o[..]])
    };
    let q = |vl: usize, pl: usize| cat(&[&blk(vl, 4, 0x33), &blk(pl, 4, 0x44)]);
    let ood = |a: usize, b: usize, c: usize| cat(&[&blk(a, 2, 0x55), &blk(b, 2, 0x66), &blk(c, 2, 0x77)]);
    let fri = cat(&[&[1u8][..], &layer(5, 2), &blk(16, 2, 1), &[0u8][..]]);
    let mut gkrs: Vec<Vec<u8>> = vec![vec![0], vec![2], vec![1, 1], cat(&[&[1u8, 0xff][..], &vec![9u8; 127]]), cat(&[&[1u8, 0x02, 0x02][..], &vec![9u8; 128]])];
    gkrs.push(cat(&[&[1u8][..], &le(((16383u128 << 1) | 1) << 1, 2), &vec![9u8; 16383]]));
    gkrs.push(cat(&[&[1u8][..], &le(((16384u128 << 1) | 1) << 2, 3), &vec![9u8; 16384]]));
    for (aux, nq) in [(0u8, 1usize), (2, 2), (0, 2), (2, 1), (0, 0), (2, 3)] {
        for (gi, g) in gkrs.iter().enumerate() {
            if gi > 2 && nq != (if aux == 0 { 1 } else { 2 }) {
                continue;
            }
            let mut b = cat(&[&ctx(aux, 28, 8), &[255u8][..], &blk(64, 2, 0x22)]);
            for i in 0..nq {
                b.extend(q(8 + i, 3));
            }
            b.extend(q(16, 0));
            b.extend(ood(33, 1, 16));
            b.extend(&fri);
            b.extend(le(u64::MAX as u128, 8));
            b.extend(g);
            put(emit, "proof", b);
        }
    }
    for (e, bl) in [(28u8, 8u8), (28, 16), (30, 2), (31, 2), (24, 128), (25, 128), (32, 2), (63, 2), (64, 2)] {
        let mut b = cat(&[&ctx(0, e, bl), &[0u8][..], &blk(0, 2, 0)]);
        b.extend(q(8, 1));
        b.extend(q(8, 1));
        b.extend(ood(0, 0, 0));
        b.extend(cat(&[&[0u8][..], &blk(0, 2, 0), &[0u8][..]]));
        b.extend(le(0, 8));
        b.push(0);
        put(emit, "proof", b);
    }
    // strings: every class of lead byte with boundary continuation bytes
    for lead in [0x00u8, 0x7f, 0x80, 0xbf, 0xc0, 0xc1, 0xc2, 0xdf, 0xe0, 0xe1, 0xec, 0xed, 0xee, 0xef, 0xf0, 0xf1, 0xf3, 0xf4, 0xf5, 0xff] {
        for second in [0x7fu8, 0x80, 0x8f, 0x90, 0x9f, 0xa0, 0xbf, 0xc0] {
            for tail in [&[][..], &[0x80u8][..], &[0x80, 0x80][..], &[0xbf, 0xbf, 0x41][..], &[0x80, 0x7f][..]] {
                let body = cat(&[&[lead, second][..], tail]);
                let mut b = vec![((body.len() as u8) << 1) | 1];
                b.extend(&body);
                emit(format!("dec str {}", hex(&b)));
                if quick && tail.len() == 3 {
                    continue;
                }
                emit(format!("rstr {} {}", body.len(), hex(&body)));
            }
        }
    }
    for (n, have) in [(0usize, 0usize), (0, 3), (1, 0), (1, 1), (3, 2), (3, 3), (3, 4), (300, 299), (300, 300), (300, 301), (usize::MAX, 4)] {
        emit(format!("rstr {} {}", n, hex(&vec![0x61u8; have])));
    }
}

/// the wire form of maps and sets with the keys in every order and with duplicate keys (the writer never
/// produces these: they are what another implementation or an adversary may send)
fn gen_map_wire<K: Val, V: Val>(rng: &mut Rng, n: usize, emit0: &mut dyn FnMut(String)) {
    // only types of the menu
    let names = type_names();
    let mut emit = |l: String| {
        let ty = l.split(' ').nth(1).unwrap_or("").to_string();
        if names.contains(&ty) {
            emit0(l)
        }
    };
    for i in 0..n {
        let cnt = match i % 5 {
            0 => 2,
            1 => 3,
            _ => rng.range(0, 9) as usize,
        };
        let mut entries: Vec<(String, String)> = (0..cnt).map(|_| (K::gen(rng, 6), V::gen(rng, 6))).collect();
        // duplicates with different values, at both ends and adjacent
        if cnt >= 2 {
            match i % 4 {
                0 => entries[cnt - 1].0 = entries[0].0.clone(),
                1 => entries[1].0 = entries[0].0.clone(),
                2 => entries.reverse(),
                _ => {},
            }
        }
        let mut ok = true;
        let mut pairs = vec![];
        for (k, v) in &entries {
            let (k2, v2) = (k.clone(), v.clone());
            match guarded(move || (K::parse(&mut P::new(&k2)), V::parse(&mut P::new(&v2)))) {
                Ok(p) => pairs.push(p),
                Err(_) => ok = false,
            }
        }
        if !ok {
            continue;
        }
        for order in 0..3 {
            let mut b = vec![];
            b.write_usize(pairs.len());
            let idx: Vec<usize> = match order {
                0 => (0..pairs.len()).collect(),
                1 => (0..pairs.len()).rev().collect(),
                _ => {
                    let mut v: Vec<usize> = (0..pairs.len()).collect();
                    for j in (1..v.len()).rev() {
                        v.swap(j, rng.below(j as u64 + 1) as usize);
                    }
                    v
                },
            };
            let mut keys_only = b.clone();
            for j in idx {
                pairs[j].0.write_into(&mut b);
                pairs[j].1.write_into(&mut b);
                pairs[j].0.write_into(&mut keys_only);
            }
            emit(format!("dec map({},{}) {}", K::ty(), V::ty(), hex(&b)));
            emit(format!("dec set({}) {}", K::ty(), hex(&keys_only)));
        }
        // the text form with unsorted and duplicate keys goes through BTreeMap::insert
        let text: Vec<String> = entries.iter().map(|(k, v)| format!("{}:{}", k, v)).collect();
        emit(format!("enc map({},{}) {{{}}}", K::ty(), V::ty(), text.join(",")));
        let keys: Vec<String> = entries.iter().map(|(k, _)| k.clone()).collect();
        emit(format!("enc set({}) [{}]", K::ty(), keys.join(",")));
    }
}

/// sequences of values of different types read from one reader, complete, cut short and with bytes left
fn gen_seq(rng: &mut Rng, n: usize, emit: &mut dyn FnMut(String)) {
    let names = type_names();
    let light: Vec<&String> = names
        .iter()
        .filter(|t| !["queries", "oodframe", "friproof", "proof", "commitments"].iter().any(|h| t.contains(h)))
        .collect();
    for i in 0..n {
        let k = rng.range(2, 6) as usize;
        let mut tys = vec![];
        let mut bytes = vec![];
        let mut ends = vec![];
        for _ in 0..k {
            let t = (*rng.pick(&light)).clone();
            let mut done = false;
            for _ in 0..5 {
                let text = dispatch_gen_text(&t, rng, if i % 7 == 0 { 400 } else { 12 });
                if let Some(b) = dispatch_text_bytes(&t, &text) {
                    bytes.extend(b);
                    done = true;
                    break;
                }
            }
            if done {
                ends.push(bytes.len());
                tys.push(t);
            }
        }
        if tys.is_empty() {
            continue;
        }
        let tl = tys.join(";");
        emit(format!("seq {} {}", tl, hex(&bytes)));
        // cut inside a value, exactly between two values, one byte before / after a boundary
        let e = *rng.pick(&ends);
        for cut in [e, e.saturating_sub(1), (e + 1).min(bytes.len()), rng.below(bytes.len() as u64 + 1) as usize] {
            emit(format!("seq {} {}", tl, hex(&bytes[..cut])));
        }
        let mut more = bytes.clone();
        let extra = rng.range(1, 4) as usize;
        more.extend(rng.bytes(extra));
        emit(format!("seq {} {}", tl, hex(&more)));
        if !bytes.is_empty() {
            let mut m = bytes.clone();
            let j = rng.below(m.len() as u64) as usize;
            m[j] = *rng.pick(&[0u8, 1, 2, 127, 128, 255]);
            if tys.iter().zip(0..).all(|_| true) && safe_seq(&tys, &m) {
                emit(format!("seq {} {}", tl, hex(&m)));
            }
        }
    }
}

/// no step of the sequence asks for a huge element count (see `Guard`)
fn safe_seq(tys: &[String], input: &[u8]) -> bool {
    let mut g = Guard { inner: SliceReader::new(input), huge: false };
    for t in tys {
        let r = guarded(|| dispatch_step(t, &mut g));
        match r {
            Ok(Some(Ok(_))) => {},
            _ => break,
        }
    }
    !g.huge
}

// ------------------------------------------------------------------------------------ Prop
pub struct C12;

impl Prop for C12 {
    fn id(&self) -> &'static str {
        "C12"
    }
    fn gen(&self, rng: &mut Rng, tier: Tier, n: usize, emit: &mut dyn FnMut(String)) {
        let quick = tier == Tier::Quick;
        let per = default_n(tier, 24, 240, n);
        gen_boundaries(quick, emit);
        gen_dec_boundaries(quick, emit);
        {
            let nm = if quick { 12 } else { 120 };
            gen_map_wire::<u8, u8>(rng, nm, emit);
            gen_map_wire::<u32, String>(rng, nm, emit);
            gen_map_wire::<String, Vec<u16>>(rng, nm, emit);
            gen_map_wire::<(u8, u8), Bool>(rng, nm, emit);
            gen_map_wire::<Option<u8>, ()>(rng, nm, emit);
            gen_map_wire::<Bytes, u8>(rng, nm, emit);
            gen_map_wire::<usize, Option<u64>>(rng, nm, emit);
            gen_map_wire::<u16, u16>(rng, nm, emit);
            gen_seq(rng, if quick { 150 } else { 1500 }, emit);
        }
        gen_huge_counts(rng, emit);
        // the size encoding: every boundary 2^(7k) +- 1, 2^(8k) +- 1
        for v in int_bounds(64) {
            emit(format!("vint {}", v));
            emit(format!("enc usize {}", v));
        }
        for bits in [8u32, 16, 32, 64, 128] {
            for v in int_bounds(bits) {
                emit(format!("enc u{} {}", bits, v));
            }
        }
        for _ in 0..per * 10 {
            emit(format!("vint {}", gen_int(rng, 64)));
        }
        let heavy = ["traceinfo", "context", "commitments", "queries", "oodframe", "friproof", "proof"];
        for name in type_names() {
            let base = base_of(&name);
            let is_heavy = heavy.contains(&base.as_str()) || name.contains("traceinfo") || name.contains("context");
            // small values
            dispatch_gen(&name, rng, if is_heavy { per } else { per / 2 + 4 }, 40, emit);
            // medium values (length prefixes of 2 and 3 bytes)
            dispatch_gen(&name, rng, if is_heavy { per / 2 } else { per / 6 + 1 }, 700, emit);
            // boundary-sized values (65535-byte metadata, 255 x 255 tables, 16384-element vectors, ...)
            let nbig = if is_heavy { if quick { 6 } else { 40 } } else if quick { 1 } else { 6 };
            dispatch_gen(&name, rng, nbig, 70000, emit);
        }
        // whole proofs from the real prover (random AIRs of the shared generator: auxiliary segments,
        // Lagrange kernel columns, all fields, hashers, extensions, folding factors)
        #[cfg(feature = "genair")]
        let nproofs = if quick { 10 } else { 80 };
        let mut made = 0;
        #[cfg(feature = "genair")]
        for i in 0..nproofs * 3 {
            if made >= nproofs {
                break;
            }
            let field = *rng.pick(&[FieldId::F64, FieldId::F62, FieldId::F128]);
            let hashers = HashId::for_field(field);
            let hasher = *rng.pick(&hashers);
            let exts: Vec<u8> = [1u8, 2, 3].iter().cloned().filter(|e| field.supports_ext(*e)).collect();
            let ext = *rng.pick(&exts);
            let opts = OptSpec::new(
                *rng.pick(&[1usize, 2, 7, 28, 60]),
                *rng.pick(&[8usize, 16, 32]),
                *rng.pick(&[0u32, 1, 4]),
                ext,
                *rng.pick(&[2usize, 4, 8, 16]),
                *rng.pick(&[0usize, 1, 3, 7, 31, 255]),
            );
            let bud = Budget { max_log_len: 6, ..Budget::default() };
            let desc = std::sync::Arc::new(random_desc(rng, &bud));
            let seed = rng.u64();
            let d2 = desc.clone();
            let r = guarded(move || {
                let trace = gen_trace(&d2, field, seed);
                prove(&d2, &trace, field, &opts, hasher).map(|p| p.to_bytes()).map_err(|_| ())
            });
            if let Ok(Ok(bytes)) = r {
                made += 1;
                emit(format!("enc proof {}", xhex(&bytes)));
                emit(format!("dec proof {}", hex(&bytes)));
                for _ in 0..3 {
                    let m = mutate(rng, &bytes);
                    if safe_to_decode::<Proof>(&m) {
                        emit(format!("dec proof {}", hex(&m)));
                    }
                }
            }
        }
        // the types' own parse steps
        for i in 0..per * 2 {
            let sz = if i % 4 == 0 { 70000 } else { 60 };
            let (t, rows, cols, _) = gen_queries(rng, sz);
            emit(format!("qparse {}", t));
            emit(format!("oparse {}", gen_oodframe(rng, sz).0));
            emit(format!("cparse {}", Commitments::gen(rng, sz.min(5000))));
            if i % 2 == 0 {
                emit(format!("rparse {}", gen_friproof(rng, sz)));
            }
        }
        // maximal FRI remainders around the 65535-byte limit of the u16 length prefix
        for (ek, logn, remdeg) in [("f128", 12, 2047), ("f128", 13, 4095), ("q128", 11, 1023), ("q128", 12, 2047), ("c64", 12, 2047), ("c64", 13, 4095), ("f64", 13, 4095), ("f64", 14, 8191), ("q128", 9, 255), ("c64", 9, 255)] {
            emit(format!("enc friproof ({},{},2,2,{},3,7)", ek, logn, remdeg));
            emit(format!("rparse ({},{},2,4,{},3,7)", ek, logn + 2, remdeg));
        }
        emit("enc proof D".to_string());
        emit("enc friproof D".to_string());
        emit("enc commitments D".to_string());
        emit("enc oodframe D".to_string());
        // fixed boundary tables for Queries::parse: 254 / 255 rows and columns
        for (r, c) in [(254usize, 1usize), (255, 1), (1, 254), (1, 255), (255, 255), (254, 254)] {
            let vals = gen_list(r, || gen_list(c, || gen_elem(rng, "f64")));
            emit(format!("qparse (f64,b32,10,[],{})", vals));
            emit(format!("enc queries (f64,b32,10,[],{})", vals));
        }
    }
    fn exec(&self, line: &str) -> Outcome {
        let mut it = line.splitn(3, ' ');
        let op = it.next().unwrap_or("");
        let a = it.next().unwrap_or("");
        let b = it.next().unwrap_or("");
        match op {
            "enc" => dispatch_enc(a, b),
            "dec" => dispatch_dec(a, b),
            "vint" => run_vint(a),
            "seq" => run_seq(a, b),
            "rstr" => run_rstr(a, b),
            "qparse" => run_qparse(a),
            "oparse" => run_oparse(a),
            "cparse" => run_cparse(a),
            "rparse" => run_rparse(a),
            _ => Outcome::ok("bad-op"),
        }
    }
    fn timeout_ms(&self) -> u64 {
        20_000
    }
    /// address-space cap of a worker: a decoder that reserves an untrusted element count aborts the worker (outcome
    /// `abort`), not the machine
    fn mem_cap(&self) -> u64 {
        4 << 30
    }
    fn panic_site(&self, _line: &str) -> Option<String> {
        Some("harness.unguarded-panic".into())
    }
    fn class(&self, line: &str, out: &str) -> String {
        let t: Vec<&str> = line.split(' ').take(2).collect();
        let ty = if t.len() > 1 && (t[0] == "enc" || t[0] == "dec") { base_of(t[1]) } else { String::new() };
        let o = if t[0] == "enc" {
            out.rsplit(' ').next().unwrap_or("").chars().filter(|c| c.is_ascii_alphabetic()).collect::<String>()
        } else {
            out.split(' ').next().unwrap_or("").to_string()
        };
        let o = if o.len() > 8 { "other".to_string() } else { o };
        format!("{}.{}:{}", t[0], ty, o)
    }
    fn rule(&self) -> &'static str {
        "a deterministic sweep of every numeric guard of the constructors and decoders (each value at the smallest / largest accepted point and \
         just beyond it: ProofOptions parameters and the folding x remainder product, TraceInfo widths / random elements / lengths 2^3..2^63 / \
         metadata 65535, Context trace length x blowup around the 2^31 LDE limit for all fields, alone and nested in tuples and whole proofs, \
         Commitments / OodFrame / FRI remainder byte limits, 254-256 rows, columns and node vectors, vint64 length prefixes and element \
         counts across 2^7 / 2^14 / 2^16 / 2^21 for every sequence implementation incl. zero-width elements), hand-assembled encodings around \
         every guard of the decoders with consistent enclosing prefixes (tags, field elements at M-1 / M / M+1, every vint64 length class, \
         TraceInfo / ProofOptions / Context bytes, 16- and 32-bit blocks below and above 255 / 65535 bytes, FRI layers > 65535 bytes, layer \
         counts, whole proofs from parts, every UTF-8 lead / continuation class), each also one byte short and one byte long, every proper \
         prefix of small encodings, maps / sets in wire form with keys in every order and duplicate keys, sequences of values on one reader \
         (state after success and after failure compared between the byte sources), read_string / read_vec, then \
         values built through the public constructors from boundary-heavy descriptions (0, 1, 2^(7k)±1, 2^(8k)±1, 255/256 widths and counts, \
         65535/65536-byte metadata and commitment blocks, 254/255/256 rows, columns, node vectors, maximal FRI remainders, empty and nested \
         collections), encoded, decoded through SliceReader, Cursor and ReadAdapter (1-byte, straddling, whole, mixed chunkings), plus truncated / \
         extended / byte-substituted encodings; a case is non-trivial when its op line is distinct"
    }
}

fn main() {
    wf_harness::core::main_for(&C12);
}
