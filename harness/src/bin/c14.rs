//! C14: multi-threaded execution produces the same results as single-threaded.
//!
//! This binary is built TWICE by ./check (checks/C14.json, `harness.alt`): without the cargo feature
//! `concurrent` (the primary: computes the reference results, generates the op lines, judges) and with
//! it (rayon enabled in winter-utils/math/crypto/fri/prover; path handed over in `WF_ALT_BIN`). For every
//! op line the primary computes the result in-process (serial code paths), then runs
//! `$WF_ALT_BIN compute <op line>` under `RAYON_NUM_THREADS=k` for every k of the line's `t=` list,
//! `r=` times each, and compares the named result sections BYTE-FOR-BYTE (sections longer than 4 KiB
//! are compared through their length and BLAKE3-256 digest).
//!
//! Op lines (`t=k,k,..` thread-pool sizes, `r=n` repetitions per size; both optional):
//!   fft <fld> <ext> eval|interp <n> <seed>               fft::evaluate_poly / interpolate_poly
//!   fft <fld> <ext> evalo <n> <blowup> <seed>             fft::evaluate_poly_with_offset (offset = generator)
//!   fft <fld> <ext> interpo <n> <seed>                    fft::interpolate_poly_with_offset
//!   tw <fld> <n>                                          fft::get_twiddles, get_inv_twiddles (power series + the concurrent permute)
//!   series <fld> <ext> <n> <seed>                         get_power_series, get_power_series_with_offset
//!   inv <fld> <ext> <n> <seed> <zeros>                    batch_inversion (zeros: 0 none, 1 sparse, 2 all, 3 at multiples of 16, 4 dense)
//!   vec <fld> <ext> <n> <seed>                            add_in_place, mul_acc
//!   merkle <fld> <hash> <leaves> <seed>                   MerkleTree::new: root, all nodes (from the openings of all leaves),
//!                                                         and build_merkle_nodes / concurrent::build_merkle_nodes called directly
//!   lde <fld> <ext> <cols> <n> <blowup> <seed> [N]        ColMatrix::interpolate_columns(_into), evaluate_columns_over, commit_to_rows,
//!                                                         get_evaluation_offsets; RowMatrix::evaluate_polys_over::<N>, evaluate_polys::<N>,
//!                                                         commit_to_rows (N = segment width, default 8)
//! Seeds >= 1_000_000 select structured data (all zero, constant, single non-zero, alternating, low degree, all p-1, runs);
//! domain offsets are the generator for seeds divisible by 3 and another element otherwise.
//!   fold <fld> <ext> <N> <n> <seed>                       transpose_slice, fri::folding::apply_drp, fri::utils::hash_values
//!   fri <fld> <ext> <hash> <lde> <blowup> <folding> <rem> <seed>   FriProver: layer commitments, proof bytes
//!   fill <fld> <width> <len> <fraglen> <seed>             TraceTable::fragments(..).for_each(fill)
//!   prove <fld> <hash> <q.b.g.x.f.r> <seed> <AirDesc>     end-to-end proof (wf_harness::genair): context, commitments
//!                                                         (trace, constraint, FRI layers), OOD frame: always identical;
//!                                                         whole proof identical whenever the nonce is; every proof verifies
//!   part batch <len> <min|-> <t>                          the (offset,length) batches utils::batch_iter_mut! hands to its closure
//!   part frag <len> <fraglen> <t>                         (index,offset,length) of TraceTable::fragments
//!   part merkle <leaves> <t>                              which tree nodes each spawned task of concurrent::build_merkle_nodes
//!                                                         writes and in which order the tip is finished (observed through a
//!                                                         hasher that records its calls)
//!   miri permute|merkle                                   (thorough tier, model validation) run the two raw-pointer routines
//!                                                         (concurrent fft permute through get_twiddles(2048); concurrent::build_merkle_nodes
//!                                                         on 64 leaves) under `cargo +nightly miri` (tree borrows, 3 rayon threads): output
//!                                                         `clean`, `ub:<kind>` or `unavailable`; a reported data race / aliasing violation is
//!                                                         the language-level side of the named gap "runtime scheduling" (site c14.miri.<kind>)
//! `part` lines are answered by the Lean model too (Winter/Model/Parallel.lean through drv_c14): the output of
//! the line is what the concurrent build was OBSERVED to do, the model prints what the theorems are about.
//!
//! The end-to-end family includes, by construction, AIRs whose per-fragment work depends on the GLOBAL row (periodic columns with
//! cycles of 2, n/2, n rows read by main / auxiliary / both kinds of transition constraints, sequence assertions, Lagrange kernel
//! column on/off) for constraint-evaluation domains of 4096 (one fragment) to 32768 rows.
//!
//! Output of the other lines: `ok <sections> <fnv of the reference sections>` (the Lean driver answers `-`).
//!
//! Sites: c14.<area>.mismatch (a section differs), c14.<area>.panic (only one of the builds panics),
//! c14.<area>.abort / .hang (the concurrent child died / did not finish), c14.proof.verify (a proof made by
//! the concurrent prover is rejected), c14.partition.* (observed batches overlap / do not cover / serial build
//! does not use one batch), c14.harness.* (the harness itself could not do its job).
#![allow(dead_code, unused_variables, unused_imports, unused_mut, clippy::type_complexity)]
use std::collections::BTreeMap;
use std::io::Write;
use std::process::{Command, Stdio};
use std::sync::{Arc, Mutex};
use std::time::{Duration, Instant};

use wf_harness::core::*;
use wf_harness::fields::*;
use wf_harness::genair::*;
use winter_air::proof::Proof;
use winter_crypto::{
    hashers::{Blake3_192, Blake3_256, Rp62_248, Rp64_256, RpJive64_256, Sha3_256},
    DefaultRandomCoin, Digest, ElementHasher, Hasher, MerkleTree,
};
use winter_fri::{DefaultProverChannel, FriOptions, FriProver};
use winter_math::{
    fft,
    fields::{f128, f62, f64, CubeExtension, QuadExtension},
    ExtensibleField, FieldElement, StarkField,
};
use winter_prover::{
    matrix::{ColMatrix, RowMatrix},
    StarkDomain, TraceTable,
};
#[cfg(feature = "concurrent")]
use winter_utils::iterators::*;
use winter_utils::{ByteReader, ByteWriter, Deserializable, DeserializationError, Serializable};
use winter_verifier::AcceptableOptions;

pub struct P;

const CONCURRENT: bool = cfg!(feature = "concurrent");

// ------------------------------------------------------------------------------------ sections
type Sections = Vec<(String, Vec<u8>)>;

/// text form of a section: hex up to 4 KiB, `#<len>:<blake3-256>` above; `proof` always in full
fn render(name: &str, bytes: &[u8]) -> String {
    if bytes.len() <= 4096 || name == "proof" {
        hex(bytes)
    } else {
        let d = Blake3_256::<f64::BaseElement>::hash(bytes);
        format!("#{}:{}", bytes.len(), hex(&d.as_bytes()))
    }
}

fn fnv64(h: u64, s: &[u8]) -> u64 {
    let mut h = h;
    for b in s {
        h ^= *b as u64;
        h = h.wrapping_mul(0x100000001b3);
    }
    h
}

struct Sm(u64);
impl Sm {
    fn next(&mut self) -> u64 {
        self.0 = self.0.wrapping_add(0x9E3779B97F4A7C15);
        let mut z = self.0;
        z = (z ^ (z >> 30)).wrapping_mul(0xBF58476D1CE4E5B9);
        z = (z ^ (z >> 27)).wrapping_mul(0x94D049BB133111EB);
        z ^ (z >> 31)
    }
}

fn rand_base<B: Fld>(g: &mut Sm) -> B {
    let w = if B::word_bits() == 128 { ((g.next() as u128) << 64) | g.next() as u128 } else { g.next() as u128 };
    B::from_word(w % B::MOD)
}

/// `n` elements from `seed`; seeds >= 1_000_000 select STRUCTURED data (pattern = seed / 1_000_000): 1 all zero, 2 constant,
/// 3 a single non-zero entry, 4 alternating two values, 5 zero beyond the first quarter (low degree), 6 all p-1, 7 runs of 3
fn rand_elems<B: Fld, E: FieldElement<BaseField = B>>(seed: u64, n: usize) -> Vec<E> {
    let mut g = Sm(seed);
    let d = E::EXTENSION_DEGREE;
    let mut base: Vec<B> = (0..n * d).map(|_| rand_base::<B>(&mut g)).collect();
    let el = |base: &Vec<B>, i: usize| -> Vec<B> { base[i * d..(i + 1) * d].to_vec() };
    if n > 1 {
        let (e0, e1) = (el(&base, 0), el(&base, 1));
        for i in 0..n {
            let v: Option<Vec<B>> = match seed / 1_000_000 {
                1 => Some(vec![B::ZERO; d]),
                2 => Some(e0.clone()),
                3 => Some(if i == n / 2 + 1 { e0.clone() } else { vec![B::ZERO; d] }),
                4 => Some(if i % 2 == 0 { e0.clone() } else { e1.clone() }),
                5 => if i >= (n / 4).max(1) { Some(vec![B::ZERO; d]) } else { None },
                6 => Some(vec![B::from_word(B::MOD - 1); d]),
                7 => Some(el(&base, (i / 3) * 3 % n)),
                _ => None,
            };
            if let Some(v) = v {
                base[i * d..(i + 1) * d].copy_from_slice(&v);
            }
        }
    }
    E::slice_from_base_elements(&base).to_vec()
}

/// the domain offset of an op: the field's generator for seeds divisible by 3, another non-zero element otherwise
fn offset_for<B: Fld>(seed: u64) -> B {
    if seed % 3 == 0 {
        return B::GENERATOR;
    }
    let mut g = Sm(seed ^ 0x0ff5e7);
    loop {
        let x = rand_base::<B>(&mut g);
        if x != B::ZERO {
            return x;
        }
    }
}

/// canonical serialisation (Serializable::write_into) of a slice — for the 62-bit field the raw words may
/// legitimately differ between two computations of the same value, the canonical bytes may not
fn ser<T: Serializable>(v: &[T]) -> Vec<u8> {
    let mut out = Vec::new();
    for x in v {
        x.write_into(&mut out);
    }
    out
}

fn pu(s: &str) -> Option<usize> {
    s.parse::<usize>().ok().filter(|v| *v <= 1 << 26)
}
fn p64(s: &str) -> Option<u64> {
    s.parse::<u64>().ok()
}

// ------------------------------------------------------------------------------------ math ops
fn math_op<B: Fld, E: FieldElement<BaseField = B>>(t: &[&str]) -> Option<Sections> {
    let mut s: Sections = vec![];
    match t {
        ["fft", _, _, "eval", n, seed] => {
            let (n, seed) = (pu(n)?, p64(seed)?);
            let mut p: Vec<E> = rand_elems::<B, E>(seed, n);
            let tw = fft::get_twiddles::<B>(n);
            fft::evaluate_poly(&mut p, &tw);
            s.push(("evaluations".into(), ser(&p)));
        },
        ["fft", _, _, "evalo", n, blowup, seed] => {
            let (n, blowup, seed) = (pu(n)?, pu(blowup)?, p64(seed)?);
            let p: Vec<E> = rand_elems::<B, E>(seed, n);
            let tw = fft::get_twiddles::<B>(n);
            let r = fft::evaluate_poly_with_offset(&p, &tw, offset_for::<B>(seed), blowup);
            s.push(("evaluations".into(), ser(&r)));
        },
        ["fft", _, _, "interp", n, seed] => {
            let (n, seed) = (pu(n)?, p64(seed)?);
            let mut v: Vec<E> = rand_elems::<B, E>(seed, n);
            let itw = fft::get_inv_twiddles::<B>(n);
            fft::interpolate_poly(&mut v, &itw);
            s.push(("coefficients".into(), ser(&v)));
        },
        ["fft", _, _, "interpo", n, seed] => {
            let (n, seed) = (pu(n)?, p64(seed)?);
            let mut v: Vec<E> = rand_elems::<B, E>(seed, n);
            let itw = fft::get_inv_twiddles::<B>(n);
            fft::interpolate_poly_with_offset(&mut v, &itw, offset_for::<B>(seed));
            s.push(("coefficients".into(), ser(&v)));
        },
        ["tw", _, n] => {
            let n = pu(n)?;
            s.push(("twiddles".into(), ser(&fft::get_twiddles::<B>(n))));
            s.push(("inv_twiddles".into(), ser(&fft::get_inv_twiddles::<B>(n))));
        },
        ["series", _, _, n, seed] => {
            let (n, seed) = (pu(n)?, p64(seed)?);
            let bs: Vec<E> = rand_elems::<B, E>(seed, 2);
            s.push(("power_series".into(), ser(&winter_math::get_power_series(bs[0], n))));
            s.push(("power_series_with_offset".into(), ser(&winter_math::get_power_series_with_offset(bs[0], bs[1], n))));
        },
        ["inv", _, _, n, seed, zeros] => {
            let (n, seed, zeros) = (pu(n)?, p64(seed)?, pu(zeros)?);
            let mut v: Vec<E> = rand_elems::<B, E>(seed, n);
            let mut g = Sm(seed ^ 0x5555);
            for (i, x) in v.iter_mut().enumerate() {
                let z = match zeros {
                    0 => false,
                    1 => g.next() % 97 == 0,
                    2 => true,
                    3 => i % 16 == 0 || i % 16 == 15,
                    _ => g.next() % 2 == 0,
                };
                if z {
                    *x = E::ZERO;
                }
            }
            s.push(("inverses".into(), ser(&winter_math::batch_inversion(&v))));
        },
        ["vec", _, _, n, seed] => {
            let (n, seed) = (pu(n)?, p64(seed)?);
            let mut a: Vec<E> = rand_elems::<B, E>(seed, n);
            let b: Vec<E> = rand_elems::<B, E>(seed ^ 1, n);
            let c: Vec<B> = rand_elems::<B, B>(seed ^ 2, n);
            let k: Vec<E> = rand_elems::<B, E>(seed ^ 3, 1);
            winter_math::add_in_place(&mut a, &b);
            s.push(("add_in_place".into(), ser(&a)));
            winter_math::mul_acc::<B, E>(&mut a, &c, k[0]);
            s.push(("mul_acc".into(), ser(&a)));
        },
        ["lde", _, _, cols, n, blowup, seed, ..] if t.len() <= 8 => {
            let (cols, n, blowup, seed) = (pu(cols)?, pu(n)?, pu(blowup)?, p64(seed)?);
            let width = match t.get(7) {
                None => 8,
                Some(w) => pu(w)?,
            };
            let off = offset_for::<B>(seed);
            let values = ColMatrix::new((0..cols).map(|c| rand_elems::<B, E>(seed.wrapping_add(c as u64), n)).collect::<Vec<Vec<E>>>());
            let polys = values.interpolate_columns();
            let flat = |m: &ColMatrix<E>| -> Vec<E> { (0..m.num_cols()).flat_map(|c| m.get_column(c).to_vec()).collect() };
            s.push(("polys".into(), ser(&flat(&polys))));
            s.push(("polys_into".into(), ser(&flat(&values.clone().interpolate_columns_into()))));
            let domain = StarkDomain::from_twiddles(fft::get_twiddles::<B>(n), blowup, off);
            let lde = polys.evaluate_columns_over(&domain);
            s.push(("col_lde".into(), ser(&flat(&lde))));
            s.push(("col_commitment".into(), ser(&[*lde.commit_to_rows::<Blake3_256<B>>().root()])));
            s.push(("offsets".into(), ser(&winter_prover::matrix::get_evaluation_offsets::<E>(n, blowup, off))));
            fn rows<B: Fld, E: FieldElement<BaseField = B>, const N: usize>(polys: &ColMatrix<E>, domain: &StarkDomain<B>, blowup: usize, s: &mut Sections) {
                let rm = RowMatrix::evaluate_polys_over::<N>(polys, domain);
                s.push(("row_lde".into(), ser(rm.data())));
                s.push(("row_commitment".into(), ser(&[*rm.commit_to_rows::<Blake3_256<B>>().root()])));
                let rg = RowMatrix::evaluate_polys::<N>(polys, blowup);
                s.push(("row_lde_generator_coset".into(), ser(rg.data())));
            }
            match width {
                1 => rows::<B, E, 1>(&polys, &domain, blowup, &mut s),
                2 => rows::<B, E, 2>(&polys, &domain, blowup, &mut s),
                4 => rows::<B, E, 4>(&polys, &domain, blowup, &mut s),
                8 => rows::<B, E, 8>(&polys, &domain, blowup, &mut s),
                16 => rows::<B, E, 16>(&polys, &domain, blowup, &mut s),
                _ => return None,
            }
            let at: Vec<E> = polys.evaluate_columns_at(rand_elems::<B, E>(seed ^ 77, 1)[0]);
            s.push(("columns_at_z".into(), ser(&at)));
        },
        ["fold", _, _, nn, n, seed] => {
            let (nn, n, seed) = (pu(nn)?, pu(n)?, p64(seed)?);
            let v: Vec<E> = rand_elems::<B, E>(seed, n);
            let alpha: E = rand_elems::<B, E>(seed ^ 9, 1)[0];
            fn go<B: Fld, E: FieldElement<BaseField = B>, const N: usize>(v: &[E], alpha: E, s: &mut Sections) {
                let tr: Vec<[E; N]> = winter_utils::transpose_slice::<E, N>(v);
                s.push(("transposed".into(), ser(&tr.iter().flat_map(|r| r.to_vec()).collect::<Vec<E>>())));
                let folded = winter_fri::folding::apply_drp(&tr, B::GENERATOR, alpha);
                s.push(("folded".into(), ser(&folded)));
                let hashes = winter_fri::utils::hash_values::<Blake3_256<B>, E, N>(&tr);
                s.push(("row_hashes".into(), ser(&hashes)));
            }
            match nn {
                2 => go::<B, E, 2>(&v, alpha, &mut s),
                4 => go::<B, E, 4>(&v, alpha, &mut s),
                8 => go::<B, E, 8>(&v, alpha, &mut s),
                16 => go::<B, E, 16>(&v, alpha, &mut s),
                _ => return None,
            }
        },
        _ => return None,
    }
    Some(s)
}

fn fill_op<B: Fld>(t: &[&str]) -> Option<Sections> {
    let ["fill", _, width, len, fraglen, seed] = t else { return None };
    let (width, len, fraglen, seed) = (pu(width)?, pu(len)?, pu(fraglen)?, p64(seed)?);
    let mut trace = TraceTable::<B>::new(width, len);
    let k: B = rand_base::<B>(&mut Sm(seed));
    trace.fragments(fraglen).for_each(|mut frag| {
        let off = frag.offset();
        frag.fill(
            |state| {
                for (j, x) in state.iter_mut().enumerate() {
                    *x = k.exp_u(off as u128 + 1) + B::from_word(j as u128);
                }
            },
            |step, state| {
                for (j, x) in state.iter_mut().enumerate() {
                    *x = *x * *x + k + B::from_word((off + step + j) as u128);
                }
            },
        );
    });
    let mut s: Sections = vec![];
    s.push(("trace".into(), ser(&(0..width).flat_map(|c| trace.get_column(c).to_vec()).collect::<Vec<B>>())));
    Some(s)
}

fn merkle_op<B: Fld, H: ElementHasher<BaseField = B>>(t: &[&str]) -> Option<Sections> {
    let ["merkle", _, _, leaves, seed] = t else { return None };
    let (n, seed) = (pu(leaves)?, p64(seed)?);
    let mut g = Sm(seed);
    let leaves: Vec<H::Digest> = (0..n).map(|_| H::hash(&g.next().to_le_bytes())).collect();
    let mut s: Sections = vec![];
    let tree = MerkleTree::<H>::new(leaves.clone()).ok()?;
    s.push(("root".into(), ser(&[*tree.root()])));
    // all nodes of the tree, recovered from the openings of all leaves: level by level below the root
    let depth = tree.depth();
    let mut levels: Vec<Vec<H::Digest>> = vec![vec![H::Digest::default(); 0]; depth + 1];
    for d in 0..=depth {
        levels[d] = vec![H::Digest::default(); 1 << d];
    }
    levels[0][0] = *tree.root();
    for i in 0..n {
        let path = tree.prove(i).ok()?;
        // path[0] = leaf i, path[1] = its sibling, path[k] = sibling of the ancestor k-1 levels up
        levels[depth][i] = path[0];
        let mut idx = i;
        for (k, node) in path.iter().enumerate().skip(1) {
            let d = depth + 1 - k;
            levels[d][idx ^ 1] = *node;
            idx >>= 1;
        }
    }
    s.push(("nodes_from_openings".into(), ser(&levels.concat())));
    // the node builders called directly (public API)
    #[cfg(not(feature = "concurrent"))]
    let nodes = winter_crypto::build_merkle_nodes::<H>(&leaves);
    #[cfg(feature = "concurrent")]
    let nodes = winter_crypto::concurrent::build_merkle_nodes::<H>(&leaves);
    s.push(("nodes_direct".into(), ser(&nodes[1..])));
    Some(s)
}

fn fri_op<B: Fld, E: FieldElement<BaseField = B>, H: ElementHasher<BaseField = B>>(t: &[&str]) -> Option<Sections> {
    let ["fri", _, _, _, lde, blowup, folding, rem, seed] = t else { return None };
    let (lde, blowup, folding, rem, seed) = (pu(lde)?, pu(blowup)?, pu(folding)?, pu(rem)?, p64(seed)?);
    if blowup == 0 || lde % blowup != 0 {
        return None;
    }
    let n = lde / blowup;
    let p: Vec<E> = rand_elems::<B, E>(seed, n);
    let tw = fft::get_twiddles::<B>(n);
    let evaluations = fft::evaluate_poly_with_offset(&p, &tw, B::GENERATOR, blowup);
    let options = FriOptions::new(blowup, folding, rem);
    let mut channel = DefaultProverChannel::<E, H, DefaultRandomCoin<H>>::new(lde, 12.min(lde / 2));
    let mut prover = FriProver::<B, E, DefaultProverChannel<E, H, DefaultRandomCoin<H>>, H>::new(options);
    prover.build_layers(&mut channel, evaluations);
    let mut s: Sections = vec![];
    s.push(("layer_commitments".into(), ser(channel.layer_commitments())));
    let mut positions = channel.draw_query_positions(0);
    positions.sort_unstable();
    positions.dedup();
    let proof = prover.build_proof(&positions);
    s.push(("fri_proof".into(), proof.to_bytes()));
    Some(s)
}

macro_rules! by_ext {
    ($B:ty, $ext:expr, $f:ident, $t:expr) => {
        match $ext {
            "1" => $f::<$B, $B>($t),
            "2" if QuadExtension::<$B>::is_supported() => $f::<$B, QuadExtension<$B>>($t),
            "3" if CubeExtension::<$B>::is_supported() => $f::<$B, CubeExtension<$B>>($t),
            _ => None,
        }
    };
}

macro_rules! by_fld_ext {
    ($fld:expr, $ext:expr, $f:ident, $t:expr) => {
        match $fld {
            "f62" => by_ext!(f62::BaseElement, $ext, $f, $t),
            "f64" => by_ext!(f64::BaseElement, $ext, $f, $t),
            "f128" => by_ext!(f128::BaseElement, $ext, $f, $t),
            _ => None,
        }
    };
}

fn merkle_dispatch(t: &[&str]) -> Option<Sections> {
    match (t.get(1).copied()?, t.get(2).copied()?) {
        ("f62", "blake3_256") => merkle_op::<f62::BaseElement, Blake3_256<f62::BaseElement>>(t),
        ("f62", "rp62_248") => merkle_op::<f62::BaseElement, Rp62_248>(t),
        ("f64", "blake3_256") => merkle_op::<f64::BaseElement, Blake3_256<f64::BaseElement>>(t),
        ("f64", "blake3_192") => merkle_op::<f64::BaseElement, Blake3_192<f64::BaseElement>>(t),
        ("f64", "sha3_256") => merkle_op::<f64::BaseElement, Sha3_256<f64::BaseElement>>(t),
        ("f64", "rp64_256") => merkle_op::<f64::BaseElement, Rp64_256>(t),
        ("f64", "rpjive64_256") => merkle_op::<f64::BaseElement, RpJive64_256>(t),
        ("f128", "blake3_256") => merkle_op::<f128::BaseElement, Blake3_256<f128::BaseElement>>(t),
        ("f128", "blake3_192") => merkle_op::<f128::BaseElement, Blake3_192<f128::BaseElement>>(t),
        ("f128", "sha3_256") => merkle_op::<f128::BaseElement, Sha3_256<f128::BaseElement>>(t),
        _ => None,
    }
}

fn fri_dispatch(t: &[&str]) -> Option<Sections> {
    type B62 = f62::BaseElement;
    type B64 = f64::BaseElement;
    type B128 = f128::BaseElement;
    match (t.get(1).copied()?, t.get(2).copied()?, t.get(3).copied()?) {
        ("f62", "1", "blake3_256") => fri_op::<B62, B62, Blake3_256<B62>>(t),
        ("f62", "2", "blake3_256") => fri_op::<B62, QuadExtension<B62>, Blake3_256<B62>>(t),
        ("f62", "1", "rp62_248") => fri_op::<B62, B62, Rp62_248>(t),
        ("f64", "1", "blake3_256") => fri_op::<B64, B64, Blake3_256<B64>>(t),
        ("f64", "2", "blake3_192") => fri_op::<B64, QuadExtension<B64>, Blake3_192<B64>>(t),
        ("f64", "3", "sha3_256") => fri_op::<B64, CubeExtension<B64>, Sha3_256<B64>>(t),
        ("f64", "1", "rp64_256") => fri_op::<B64, B64, Rp64_256>(t),
        ("f64", "2", "rpjive64_256") => fri_op::<B64, QuadExtension<B64>, RpJive64_256>(t),
        ("f128", "1", "blake3_256") => fri_op::<B128, B128, Blake3_256<B128>>(t),
        ("f128", "2", "sha3_256") => fri_op::<B128, QuadExtension<B128>, Sha3_256<B128>>(t),
        ("f128", "3", "blake3_192") => fri_op::<B128, CubeExtension<B128>, Blake3_192<B128>>(t),
        _ => None,
    }
}

// ------------------------------------------------------------------------------------ end-to-end proofs
struct ProveOp {
    field: FieldId,
    hash: HashId,
    opts: OptSpec,
    seed: u64,
    desc: Arc<AirDesc>,
}

fn parse_prove(t: &[&str]) -> Option<ProveOp> {
    let ["prove", fld, hash, opts, seed, desc] = t else { return None };
    let field = FieldId::parse(fld)?;
    let hash = HashId::parse(hash)?;
    let opts = OptSpec::parse(opts)?;
    let desc = AirDesc::parse(desc).ok()?;
    desc.validate().ok()?;
    if !hash.compatible(field) || !opts.accepted() || !field.supports_ext(opts.ext) {
        return None;
    }
    Some(ProveOp { field, hash, opts, seed: p64(seed)?, desc: Arc::new(desc) })
}

fn prove_op(t: &[&str]) -> Option<Sections> {
    let op = parse_prove(t)?;
    let trace = gen_trace(&op.desc, op.field, op.seed);
    let pubs = pub_inputs(&op.desc, op.field, &trace);
    let mut s: Sections = vec![];
    let proof = match prove(&op.desc, &trace, op.field, &op.opts, op.hash) {
        Ok(p) => p,
        Err(e) => {
            s.push(("prove_error".into(), prover_error_kind(&e).into_bytes()));
            return Some(s);
        },
    };
    s.push(("context".into(), proof.context.to_bytes()));
    s.push(("commitments".into(), proof.commitments.to_bytes()));
    s.push(("ood_frame".into(), proof.ood_frame.to_bytes()));
    s.push(("gkr_proof".into(), proof.gkr_proof.clone().unwrap_or_default()));
    s.push(("nonce".into(), proof.pow_nonce.to_string().into_bytes()));
    s.push(("proof".into(), proof.to_bytes()));
    let acceptable = AcceptableOptions::OptionSet(vec![op.opts.to_options()]);
    let v = match verify(&op.desc, op.field, op.hash, &pubs, proof, &acceptable) {
        Ok(()) => "ok".to_string(),
        Err(e) => format!("err:{}", verifier_error_kind(&e)),
    };
    s.push(("verify".into(), v.into_bytes()));
    Some(s)
}

// ------------------------------------------------------------------------------------ observed partitions
/// (offset, length) of the batches `utils::batch_iter_mut!` hands to its closure, in offset order
fn observe_batches(len: usize, min: Option<usize>) -> Vec<(usize, usize)> {
    let log: Mutex<Vec<(usize, usize)>> = Mutex::new(vec![]);
    let mut v: Vec<u32> = vec![0; len];
    let rec = |batch: &mut [u32], offset: usize| {
        for x in batch.iter_mut() {
            *x += 1;
        }
        log.lock().unwrap().push((offset, batch.len()));
    };
    match min {
        None => {
            winter_utils::batch_iter_mut!(&mut v, rec);
        },
        Some(m) => {
            winter_utils::batch_iter_mut!(&mut v, m, rec);
        },
    }
    let mut l = log.into_inner().unwrap();
    l.sort();
    // every element handed out exactly once (seen through the data itself)
    if v.iter().any(|x| *x != 1) {
        l.push((usize::MAX, usize::MAX));
    }
    l
}

fn observe_fragments(len: usize, fraglen: usize) -> Vec<(usize, usize, usize)> {
    let log: Mutex<Vec<(usize, usize, usize)>> = Mutex::new(vec![]);
    let mut trace = TraceTable::<f64::BaseElement>::new(2, len);
    trace.fragments(fraglen).for_each(|frag| {
        log.lock().unwrap().push((frag.index(), frag.offset(), frag.length()));
    });
    let mut l = log.into_inner().unwrap();
    l.sort();
    l
}

/// digest that carries a tree-node index (or poison)
#[derive(Debug, Default, Copy, Clone, Eq, PartialEq)]
struct IdxDigest([u8; 32]);
impl IdxDigest {
    fn of(idx: u64) -> Self {
        let mut b = [0u8; 32];
        b[..8].copy_from_slice(&idx.to_le_bytes());
        b[8] = 1;
        IdxDigest(b)
    }
    fn idx(&self) -> Option<u64> {
        if self.0[8] == 1 {
            Some(u64::from_le_bytes(self.0[..8].try_into().unwrap()))
        } else {
            None
        }
    }
}
impl Digest for IdxDigest {
    fn as_bytes(&self) -> [u8; 32] {
        self.0
    }
}
impl Serializable for IdxDigest {
    fn write_into<W: ByteWriter>(&self, target: &mut W) {
        target.write_bytes(&self.0);
    }
}
impl Deserializable for IdxDigest {
    fn read_from<R: ByteReader>(source: &mut R) -> Result<Self, DeserializationError> {
        Ok(IdxDigest(source.read_array()?))
    }
}

static MERGE_LOG: Mutex<Vec<(usize, u64)>> = Mutex::new(vec![]);

fn thread_tag() -> usize {
    #[cfg(feature = "concurrent")]
    {
        winter_utils::rayon::current_thread_index().map(|i| i + 1).unwrap_or(0)
    }
    #[cfg(not(feature = "concurrent"))]
    {
        0
    }
}

/// "hash function" on node indexes: merge(2k, 2k+1) = k, anything else is poison; every call is logged
struct IdxHasher;
impl Hasher for IdxHasher {
    type Digest = IdxDigest;
    const COLLISION_RESISTANCE: u32 = 0;
    fn hash(bytes: &[u8]) -> IdxDigest {
        IdxDigest::default()
    }
    fn merge(values: &[IdxDigest; 2]) -> IdxDigest {
        let r = match (values[0].idx(), values[1].idx()) {
            (Some(a), Some(b)) if a % 2 == 0 && b == a + 1 => a / 2,
            _ => u64::MAX,
        };
        MERGE_LOG.lock().unwrap().push((thread_tag(), r));
        if r == u64::MAX {
            IdxDigest::default()
        } else {
            IdxDigest::of(r)
        }
    }
    fn merge_with_int(seed: IdxDigest, value: u64) -> IdxDigest {
        IdxDigest::default()
    }
}

/// observed schedule of the node construction for `leaves` leaves: text form (see the header) + defects
fn observe_merkle(leaves: usize, threads: usize) -> (String, Vec<String>) {
    let mut bad = vec![];
    let n = leaves / 2;
    let lv: Vec<IdxDigest> = (0..leaves).map(|i| IdxDigest::of((2 * n + i) as u64)).collect();
    MERGE_LOG.lock().unwrap().clear();
    #[cfg(feature = "concurrent")]
    let nodes = winter_crypto::concurrent::build_merkle_nodes::<IdxHasher>(&lv);
    #[cfg(not(feature = "concurrent"))]
    let nodes = winter_crypto::build_merkle_nodes::<IdxHasher>(&lv);
    let log = MERGE_LOG.lock().unwrap().clone();
    // every node written exactly once, from its two children (no poison), children before parents
    let mut seen = vec![0usize; 2 * n.max(1)];
    for (_, k) in &log {
        if *k == u64::MAX {
            bad.push("a node was computed from something else than its two finished children".to_string());
            break;
        }
        if (*k as usize) < seen.len() {
            seen[*k as usize] += 1;
        }
    }
    for k in 1..2 * n {
        if seen[k] != 1 {
            bad.push(format!("node {} was computed {} times", k, seen[k]));
            break;
        }
        if nodes[k] != IdxDigest::of(k as u64) {
            bad.push(format!("node {} holds the wrong value", k));
            break;
        }
    }
    let s_pow = threads.next_power_of_two().min(n.max(1));
    if !CONCURRENT {
        return (format!("serial merges={}", log.len()), bad);
    }
    // first phase: the n parents of the leaves; then the spawned tasks; then the tip S-1, …, 1 on the caller
    let rest: Vec<(usize, u64)> = log.iter().skip(n).cloned().collect();
    if log.iter().take(n).any(|(_, k)| (*k as usize) < n) {
        bad.push("an inner node was computed before all parents of leaves were".to_string());
    }
    let tip_len = (s_pow - 1).min(rest.len());
    let tip: Vec<String> = rest[rest.len() - tip_len..].iter().map(|(_, k)| k.to_string()).collect();
    let body = &rest[..rest.len() - tip_len];
    let tasks_txt = if n >= 4 * s_pow {
        // per worker thread: maximal strictly decreasing runs are tasks; maximal runs k, k-1, … are levels
        let mut per: BTreeMap<usize, Vec<u64>> = BTreeMap::new();
        for (th, k) in body {
            per.entry(*th).or_default().push(*k);
        }
        let mut tasks: Vec<Vec<(u64, u64)>> = vec![];
        for (_, seq) in per {
            let mut cur: Vec<(u64, u64)> = vec![];
            let mut prev: Option<u64> = None;
            for k in seq {
                match prev {
                    Some(p) if k + 1 == p => {
                        let l = cur.last_mut().unwrap();
                        l.0 = k;
                        l.1 += 1;
                    },
                    Some(p) if k < p => cur.push((k, 1)),
                    Some(_) => {
                        tasks.push(std::mem::take(&mut cur));
                        cur.push((k, 1));
                    },
                    None => cur.push((k, 1)),
                }
                prev = Some(k);
            }
            if !cur.is_empty() {
                tasks.push(cur);
            }
        }
        tasks.sort();
        tasks
            .iter()
            .map(|t| t.iter().map(|(a, l)| format!("{}+{}", a, l)).collect::<Vec<_>>().join(","))
            .collect::<Vec<_>>()
            .join(";")
    } else {
        "-".to_string()
    };
    (format!("S={} merges={} tasks={} tip={}", s_pow, log.len(), tasks_txt, if tip.is_empty() { "-".to_string() } else { tip.join(",") }), bad)
}

fn part_text_batches(l: &[(usize, usize)]) -> String {
    l.iter().map(|(o, n)| format!("{}:{}", o, n)).collect::<Vec<_>>().join(" ")
}

/// the `part` lines, evaluated in THIS build: (text, defects seen by the observation itself)
fn part_op(t: &[&str]) -> Option<(String, Vec<String>)> {
    match t {
        ["part", "batch", len, min, _t] => {
            let len = pu(len)?;
            let min = if *min == "-" { None } else { Some(pu(min)?) };
            let l = observe_batches(len, min);
            let mut bad = vec![];
            // independent judgement: the batches tile [0, len) in order
            let mut pos = 0usize;
            for (o, n) in &l {
                if *o != pos {
                    bad.push(format!("batch at offset {} does not start where the previous one ended ({})", o, pos));
                    break;
                }
                pos = o.wrapping_add(*n);
            }
            if bad.is_empty() && pos != len {
                bad.push(format!("batches cover {} of {} elements", pos, len));
            }
            Some((part_text_batches(&l), bad))
        },
        ["part", "frag", len, fraglen, _t] => {
            let (len, fraglen) = (pu(len)?, pu(fraglen)?);
            let l = observe_fragments(len, fraglen);
            let mut bad = vec![];
            let mut pos = 0usize;
            for (k, (i, o, n)) in l.iter().enumerate() {
                if *i != k || *o != pos {
                    bad.push(format!("fragment {} has index {} offset {} (expected offset {})", k, i, o, pos));
                    break;
                }
                pos = o + n;
            }
            if bad.is_empty() && pos != len {
                bad.push(format!("fragments cover {} of {} rows", pos, len));
            }
            Some((l.iter().map(|(i, o, n)| format!("{}:{}:{}", i, o, n)).collect::<Vec<_>>().join(" "), bad))
        },
        ["part", "merkle", leaves, th] => {
            let (leaves, th) = (pu(leaves)?, pu(th)?);
            if leaves < 2 || !leaves.is_power_of_two() {
                return None;
            }
            Some(observe_merkle(leaves, th))
        },
        _ => None,
    }
}


// ------------------------------------------------------------------------------------ Miri (model validation)
const MIRI_MAIN: &str = r#"
use winter_crypto::{hashers::Blake3_256, Hasher};
use winter_math::{fft, fields::f64::BaseElement};

fn main() {
    let which = std::env::args().nth(1).unwrap_or_default();
    if which == "permute" {
        // power series of 1024 elements + the concurrent permute (tasks share the slice through aliased `&mut`)
        let tw = fft::get_twiddles::<BaseElement>(2048);
        println!("twiddles {} {}", tw.len(), tw[1]);
    } else {
        let leaves: Vec<_> = (0..64u64).map(|i| Blake3_256::<BaseElement>::hash(&i.to_le_bytes())).collect();
        let nodes = winter_crypto::concurrent::build_merkle_nodes::<Blake3_256<BaseElement>>(&leaves);
        let serial = winter_crypto::build_merkle_nodes::<Blake3_256<BaseElement>>(&leaves);
        println!("merkle {} {}", nodes.len(), nodes[1..] == serial[1..]);
    }
}
"#;

/// run one of the raw-pointer routines under Miri in a scratch crate (path dependencies as in the harness's own
/// Cargo.toml); returns (canonical output, detail)
fn miri_op(which: &str) -> (String, String) {
    let manifest = std::fs::read_to_string("Cargo.toml").unwrap_or_default();
    let path_of = |krate: &str| -> Option<String> {
        let l = manifest.lines().find(|l| l.starts_with(krate))?;
        let i = l.find("path = \"")? + 8;
        let j = l[i..].find('"')? + i;
        Some(l[i..j].to_string())
    };
    let (Some(math), Some(crypto)) = (path_of("winter-math"), path_of("winter-crypto")) else {
        return ("unavailable".into(), "cannot read the repository paths from harness/Cargo.toml".into());
    };
    let dir = std::env::temp_dir().join("c14-miri");
    let _ = std::fs::create_dir_all(dir.join("src"));
    let toml = format!(
        "[package]\nname = \"c14-miri\"\nversion = \"0.1.0\"\nedition = \"2021\"\n\n[workspace]\n\n[dependencies]\nwinter-math = {{ path = \"{}\", package = \"winter-math\", features = [\"concurrent\"] }}\nwinter-crypto = {{ path = \"{}\", package = \"winter-crypto\", features = [\"concurrent\"] }}\n",
        math, crypto
    );
    if std::fs::write(dir.join("Cargo.toml"), toml).is_err() || std::fs::write(dir.join("src/main.rs"), MIRI_MAIN).is_err() {
        return ("unavailable".into(), "cannot write the scratch crate".into());
    }
    let _ = std::fs::copy("Cargo.lock", dir.join("Cargo.lock"));
    let out = Command::new("cargo")
        .args(["+nightly", "miri", "run", "--offline", "--", which])
        .current_dir(&dir)
        .env("RAYON_NUM_THREADS", "3")
        .env("MIRIFLAGS", "-Zmiri-disable-isolation -Zmiri-tree-borrows -Zmiri-permissive-provenance")
        .env_remove("RUSTFLAGS")
        .stdin(Stdio::null())
        .output();
    let Ok(out) = out else { return ("unavailable".into(), "cargo +nightly miri could not be started".into()) };
    let text = format!("{}{}", String::from_utf8_lossy(&out.stdout), String::from_utf8_lossy(&out.stderr));
    if let Some(l) = text.lines().find(|l| l.contains("Undefined Behavior")) {
        let kind = if l.contains("Data race") { "data-race" } else if l.contains("borrow") || l.contains("retag") { "aliasing" } else { "other" };
        let at = text.lines().filter(|l| l.contains("/repo/") || l.contains("/src/")).find(|l| l.contains("concurrent.rs")).unwrap_or("").trim().to_string();
        return (format!("ub:{}", kind), format!("{} {}", l.trim(), at));
    }
    if out.status.success() && (text.contains("twiddles 1024") || text.contains("merkle 64 true")) {
        return ("clean".into(), String::new());
    }
    if text.contains("merkle 64 false") {
        return ("wrong-result".into(), "the concurrent node builder differs from the serial one under Miri".into());
    }
    ("unavailable".into(), text.lines().rev().find(|l| !l.trim().is_empty()).unwrap_or("").chars().take(200).collect())
}

// ------------------------------------------------------------------------------------ compute
fn area(t: &[&str]) -> &'static str {
    match t.first().copied().unwrap_or("") {
        "fft" | "tw" => "fft",
        "series" => "series",
        "inv" => "inversion",
        "vec" => "vector",
        "merkle" => "merkle",
        "lde" => "lde",
        "fold" | "fri" => "fri",
        "fill" => "trace",
        "prove" => "proof",
        "part" => "partition",
        _ => "op",
    }
}

/// the result sections of an op line in THIS build; None = the line is not an op
fn compute(t: &[&str]) -> Option<Sections> {
    match t.first().copied()? {
        "fft" | "series" | "inv" | "vec" | "lde" | "fold" => by_fld_ext!(*t.get(1)?, *t.get(2)?, math_op, t),
        "tw" => by_fld_ext!(*t.get(1)?, "1", math_op, t),
        "fill" => match *t.get(1)? {
            "f62" => fill_op::<f62::BaseElement>(t),
            "f64" => fill_op::<f64::BaseElement>(t),
            "f128" => fill_op::<f128::BaseElement>(t),
            _ => None,
        },
        "merkle" => merkle_dispatch(t),
        "fri" => fri_dispatch(t),
        "prove" => prove_op(t),
        "part" => {
            let (text, bad) = part_op(t)?;
            let mut s: Sections = vec![("observed".into(), text.into_bytes())];
            if !bad.is_empty() {
                s.push(("defects".into(), bad.join("; ").into_bytes()));
            }
            Some(s)
        },
        _ => None,
    }
}

/// `c14 compute <op tokens>`: print the sections of the op line as computed by this build
fn cmd_compute(args: &[String]) {
    install_quiet_panic_hook();
    // `compute @<file>`: the op line is read from a file (descriptions with long periodic columns exceed the size of an argument)
    let from_file: Option<String> = args.first().and_then(|a| a.strip_prefix('@')).and_then(|f| std::fs::read_to_string(f).ok());
    let t: Vec<&str> = match &from_file {
        Some(text) => text.split(' ').filter(|x| !x.trim().is_empty()).map(|x| x.trim()).collect(),
        None => args.iter().map(|s| s.as_str()).collect(),
    };
    let out = std::io::stdout();
    let mut w = out.lock();
    match guarded(|| compute(&t)) {
        Ok(Some(s)) => {
            for (name, bytes) in &s {
                if name == "observed" || name == "defects" || name == "nonce" || name == "verify" || name == "prove_error" {
                    writeln!(w, "{}=@{}", name, String::from_utf8_lossy(bytes)).unwrap();
                } else {
                    writeln!(w, "{}={}", name, render(name, bytes)).unwrap();
                }
            }
        },
        Ok(None) => writeln!(w, "bad-op=@").unwrap(),
        Err(info) => writeln!(w, "panic=@{}", info).unwrap(),
    }
    writeln!(w, "done=@{}", if CONCURRENT { "concurrent" } else { "serial" }).unwrap();
}

fn render_all(s: &Sections) -> Vec<(String, String)> {
    s.iter()
        .map(|(name, bytes)| {
            let v = if name == "observed" || name == "defects" || name == "nonce" || name == "verify" || name == "prove_error" {
                format!("@{}", String::from_utf8_lossy(bytes))
            } else {
                render(name, bytes)
            };
            (name.clone(), v)
        })
        .collect()
}

// ------------------------------------------------------------------------------------ running the other build
enum Child {
    Done(Vec<(String, String)>),
    Died(String),
    Hang,
}

static CHILD_SEQ: std::sync::atomic::AtomicUsize = std::sync::atomic::AtomicUsize::new(0);

fn run_alt(alt: &str, t: &[&str], threads: usize, timeout: Duration) -> Child {
    let seq = CHILD_SEQ.fetch_add(1, std::sync::atomic::Ordering::SeqCst);
    let path = std::env::temp_dir().join(format!("c14-{}-{}.out", std::process::id(), seq));
    let file = match std::fs::File::create(&path) {
        Ok(f) => f,
        Err(e) => return Child::Died(format!("cannot create {}: {}", path.display(), e)),
    };
    let op_path = std::env::temp_dir().join(format!("c14-{}-{}.op", std::process::id(), seq));
    if let Err(e) = std::fs::write(&op_path, t.join(" ")) {
        return Child::Died(format!("cannot create {}: {}", op_path.display(), e));
    }
    let spawned = Command::new(alt)
        .arg("compute")
        .arg(format!("@{}", op_path.display()))
        .env("RAYON_NUM_THREADS", threads.to_string())
        .stdin(Stdio::null())
        .stdout(Stdio::from(file))
        .stderr(Stdio::null())
        .spawn();
    let mut child = match spawned {
        Ok(c) => c,
        Err(e) => {
            let _ = std::fs::remove_file(&path);
            let _ = std::fs::remove_file(&op_path);
            return Child::Died(format!("cannot run {}: {}", alt, e));
        },
    };
    let t0 = Instant::now();
    let status = loop {
        match child.try_wait() {
            Ok(Some(st)) => break Some(st),
            Ok(None) => {
                if t0.elapsed() > timeout {
                    let _ = child.kill();
                    let _ = child.wait();
                    break None;
                }
                std::thread::sleep(Duration::from_millis(if t0.elapsed() < Duration::from_millis(200) { 2 } else { 20 }));
            },
            Err(_) => break None,
        }
    };
    let text = std::fs::read_to_string(&path).unwrap_or_default();
    let _ = std::fs::remove_file(&path);
    let _ = std::fs::remove_file(&op_path);
    let Some(status) = status else { return Child::Hang };
    let mut v = vec![];
    for l in text.lines() {
        if let Some((k, val)) = l.split_once('=') {
            v.push((k.to_string(), val.to_string()));
        }
    }
    if !status.success() || v.last().map(|x| x.0.as_str()) != Some("done") {
        return Child::Died(format!("exit status {:?}, {} output lines", status.code(), v.len()));
    }
    Child::Done(v)
}

fn get<'a>(v: &'a [(String, String)], k: &str) -> Option<&'a str> {
    v.iter().find(|x| x.0 == k).map(|x| x.1.as_str())
}

fn short(s: &str) -> String {
    if s.len() > 48 {
        format!("{}…({} chars)", &s[..48], s.len())
    } else {
        s.to_string()
    }
}

/// split the trailing `t=` / `r=` tokens off an op line
fn split_sched<'a>(t: &'a [&'a str]) -> (Vec<&'a str>, Vec<usize>, usize) {
    let mut op = vec![];
    let mut threads = vec![];
    let mut reps = 1usize;
    for x in t {
        if let Some(l) = x.strip_prefix("t=") {
            threads = l.split(',').filter_map(|k| k.parse::<usize>().ok()).filter(|k| *k >= 1 && *k <= 4096).collect();
        } else if let Some(r) = x.strip_prefix("r=") {
            reps = r.parse::<usize>().unwrap_or(1).clamp(1, 64);
        } else {
            op.push(*x);
        }
    }
    (op, threads, reps)
}

fn exec_line(line: &str) -> Outcome {
    let toks: Vec<&str> = line.split(' ').filter(|x| !x.is_empty()).collect();
    let (op, mut threads, reps) = split_sched(&toks);
    let ar = area(&op);
    let is_part = op.first() == Some(&"part");
    if is_part {
        // the thread count is part of the op (the model needs it)
        threads = op.last().and_then(|x| x.parse::<usize>().ok()).filter(|k| *k >= 1 && *k <= 4096).into_iter().collect();
    }
    let mut o = Outcome::default();
    if op.first() == Some(&"miri") {
        let which = match op.get(1).copied() {
            Some("permute") => "permute",
            Some("merkle") => "merkle",
            _ => return Outcome::ok("bad-op"),
        };
        let (out, detail) = miri_op(which);
        let mut o = Outcome::ok(out.clone());
        if let Some(kind) = out.strip_prefix("ub:") {
            o = o.fail(format!("c14.miri.{}", kind), format!("{}: {}", which, detail));
        } else if out == "wrong-result" {
            o = o.fail("c14.merkle.mismatch", detail);
        }
        return o;
    }
    // 1. reference: this (serial) build
    let reference = guarded(|| compute(&op));
    let reference: Result<Vec<(String, String)>, String> = match reference {
        Ok(None) => return Outcome::ok("bad-op"),
        Ok(Some(s)) => Ok(render_all(&s)),
        Err(info) => Err(info),
    };
    if CONCURRENT {
        return Outcome::ok("bad-build").fail("c14.harness.primary-is-concurrent", "the primary binary must be built without the `concurrent` feature");
    }
    let alt = match std::env::var("WF_ALT_BIN") {
        Ok(a) if std::path::Path::new(&a).exists() => a,
        _ => return Outcome::ok("no-alt").fail("c14.harness.no-alt", "WF_ALT_BIN does not name the binary built with `concurrent`"),
    };
    if threads.is_empty() {
        return Outcome::ok("bad-op");
    }
    if let Ok(r) = &reference {
        if let Some(d) = get(r, "defects") {
            o = o.fail("c14.partition.serial", format!("serial build: {}", &d[1..]));
        }
        if let Some(v) = get(r, "verify") {
            if v != "@ok" {
                o = o.fail("c14.harness.serial-proof-rejected", format!("the proof of the serial build does not verify: {}", v));
            }
        }
    }
    let timeout = Duration::from_millis(if ar == "proof" { 150_000 } else { 60_000 });
    let mut runs = 0usize;
    let mut observed: Option<String> = None;
    let mut nonce_same = 0usize;
    let mut nonce_diff = 0usize;
    'outer: for &k in &threads {
        for rep in 0..reps {
            runs += 1;
            let tag = format!("threads={} run={}", k, rep);
            let res = match run_alt(&alt, &op, k, timeout) {
                Child::Hang => {
                    o = o.fail(format!("c14.{}.hang", ar), format!("{}: the concurrent build did not finish within {:?}", tag, timeout));
                    break 'outer;
                },
                Child::Died(why) => {
                    o = o.fail(format!("c14.{}.abort", ar), format!("{}: the concurrent build died: {}", tag, why));
                    continue;
                },
                Child::Done(v) => v,
            };
            if get(&res, "done") != Some("@concurrent") {
                o = o.fail("c14.harness.alt-not-concurrent", "WF_ALT_BIN was not built with the `concurrent` feature");
                break 'outer;
            }
            let cpanic = get(&res, "panic");
            match (&reference, cpanic) {
                (Err(_), Some(_)) => continue, // both refuse the input the same way
                (Err(info), None) => {
                    o = o.fail(format!("c14.{}.panic", ar), format!("{}: only the serial build panics: {}", tag, info));
                    continue;
                },
                (Ok(_), Some(info)) => {
                    o = o.fail(format!("c14.{}.panic", ar), format!("{}: only the concurrent build panics: {}", tag, &info[1..]));
                    if is_part && observed.is_none() {
                        observed = Some("panic".to_string());
                    }
                    continue;
                },
                (Ok(_), None) => {},
            }
            let r = reference.as_ref().unwrap();
            if is_part {
                let obs = get(&res, "observed").unwrap_or("@?")[1..].to_string();
                if let Some(d) = get(&res, "defects") {
                    o = o.fail(format!("c14.partition.{}", op.get(1).unwrap_or(&"")), format!("{}: {}", tag, &d[1..]));
                }
                match &observed {
                    None => observed = Some(obs),
                    Some(prev) if *prev != obs => {
                        o = o.fail("c14.partition.unstable", format!("{}: observed `{}` after `{}`", tag, short(&obs), short(prev)));
                    },
                    _ => {},
                }
                continue;
            }
            // which sections must agree
            let same_nonce = get(r, "nonce") == get(&res, "nonce");
            if get(r, "nonce").is_some() {
                if same_nonce {
                    nonce_same += 1;
                } else {
                    nonce_diff += 1;
                }
            }
            for (name, val) in r {
                if (name == "proof" || name == "nonce") && !same_nonce {
                    continue; // the nonce and the query data selected through it may differ
                }
                let other = get(&res, name);
                if other != Some(val.as_str()) {
                    let site = if name == "verify" { "c14.proof.verify".to_string() } else { format!("c14.{}.mismatch", ar) };
                    o = o.fail(
                        site,
                        format!("{}: section `{}` differs: serial={} concurrent={}", tag, name, short(val), short(other.unwrap_or("(missing)"))),
                    );
                }
            }
            if res.len() != r.len() + 1 {
                o = o.fail(format!("c14.{}.mismatch", ar), format!("{}: {} sections instead of {}", tag, res.len() - 1, r.len()));
            }
            // the proof made by the concurrent prover must verify in THIS (serial) build as well
            if let (Some(p), Some(pop)) = (get(&res, "proof"), parse_prove(&op)) {
                let bytes = unhex(p);
                let verdict = guarded(|| match Proof::from_bytes(&bytes) {
                    Err(e) => format!("parse-err:{:?}", e),
                    Ok(proof) => {
                        let trace = gen_trace(&pop.desc, pop.field, pop.seed);
                        let pubs = pub_inputs(&pop.desc, pop.field, &trace);
                        let acceptable = AcceptableOptions::OptionSet(vec![pop.opts.to_options()]);
                        match verify(&pop.desc, pop.field, pop.hash, &pubs, proof, &acceptable) {
                            Ok(()) => "ok".to_string(),
                            Err(e) => format!("err:{}", verifier_error_kind(&e)),
                        }
                    },
                });
                match verdict {
                    Ok(v) if v == "ok" => {},
                    Ok(v) => o = o.fail("c14.proof.verify", format!("{}: the serial verifier rejects the concurrent prover's proof: {}", tag, v)),
                    Err(info) => o = o.fail("c14.proof.verify", format!("{}: the serial verifier panics on the concurrent prover's proof: {}", tag, info)),
                }
            }
        }
    }
    o.out = match &reference {
        Err(_) => "panic".to_string(),
        Ok(r) if is_part => observed.unwrap_or_else(|| "unobserved".to_string()),
        Ok(r) => {
            let mut h = 0xcbf29ce484222325u64;
            for (k, v) in r {
                h = fnv64(h, k.as_bytes());
                h = fnv64(h, v.as_bytes());
            }
            // (how often the nonce coincided — nonce_same / nonce_diff — depends on the scheduler and is
            // deliberately not part of the canonical output)
            format!("ok {} {:016x} runs={}", r.len(), h, runs)
        },
    };
    o
}

// ------------------------------------------------------------------------------------ generators
/// every folded FRI layer keeps at least two rows, at least one layer is built and the remainder has at
/// least one coefficient (the configurations the FRI prover is documented to accept)
fn fri_well_formed(lde: usize, blowup: usize, folding: usize, remainder: usize) -> bool {
    let max_rem = (remainder + 1) * blowup;
    let mut d = lde;
    let mut layers = 0;
    while d > max_rem {
        d /= folding;
        layers += 1;
        if d < 2 {
            return false;
        }
    }
    d / blowup >= 1 && layers >= 1
}

fn tl(ts: &[usize]) -> String {
    format!("t={}", ts.iter().map(|k| k.to_string()).collect::<Vec<_>>().join(","))
}

/// x^d as a product of powers of at most 64 (the text form of a description limits a single exponent to 64)
fn high_power(d: u32) -> Expr {
    if d <= 64 {
        Expr::pow(Expr::Cur(0), d)
    } else {
        Expr::mul(Expr::pow(Expr::Cur(0), 64), high_power(d - 64))
    }
}

/// x' = x^d + k on one column (as in c01.rs)
fn power_desc(n: usize, d: u32) -> AirDesc {
    let rule = Expr::add(high_power(d), Expr::Const(5));
    let c = Expr::sub(Expr::Nxt(0), rule.clone());
    AirDesc {
        width: 1,
        trace_len: n,
        exemptions: 1,
        tail_junk: false,
        periodic: vec![],
        cols: vec![ColGen::Step { init: None, expr: rule }],
        constraints: vec![Constraint { degree: Degree::new(d as usize), expr: c }],
        assertions: vec![AssertDesc::single(0, 0)],
        aux: None,
    }
}

/// `ruled` columns follow step rules, the others are free; optional auxiliary segment (as in c01.rs)
fn wide_desc(width: usize, n: usize, ruled: usize, aux: usize, lagrange: bool) -> AirDesc {
    let mut cols = vec![];
    let mut constraints = vec![];
    for j in 0..width {
        if j < ruled {
            let e = if j % 2 == 0 {
                Expr::add(Expr::mul(Expr::Cur(j), Expr::Cur((j + 1) % width)), Expr::Const(3))
            } else {
                Expr::add(Expr::Cur(j), Expr::Cur(j - 1))
            };
            let c = Expr::sub(Expr::Nxt(j), e.clone());
            constraints.push(Constraint { degree: c.degree(&[], n), expr: c });
            cols.push(ColGen::Step { init: None, expr: e });
        } else {
            cols.push(ColGen::Rand);
        }
    }
    let mut d = AirDesc {
        width,
        trace_len: n,
        exemptions: 1,
        tail_junk: false,
        periodic: vec![],
        cols,
        constraints,
        assertions: vec![AssertDesc::single(0, 0), AssertDesc::single(width - 1, n - 1)],
        aux: None,
    };
    if aux > 0 {
        let regular = aux - lagrange as usize;
        let mut acols = vec![];
        let mut acons = vec![];
        for j in 0..regular {
            let step = Expr::mul(Expr::AuxCur(j), Expr::add(Expr::Cur(j % width), Expr::Rand(0)));
            let c = Expr::sub(Expr::AuxNxt(j), step.clone());
            acons.push(Constraint { degree: c.degree(&[], n), expr: c });
            acols.push(AuxGen::Acc { init: Expr::Const(1), step });
        }
        d.aux = Some(AuxDesc {
            width: aux,
            num_rands: 1,
            lagrange,
            cols: acols,
            constraints: acons,
            assertions: vec![AuxAssertDesc { a: AssertDesc::single(0, 0), value: Expr::Const(1) }],
        });
    }
    d
}

/// two main columns and (optionally) an auxiliary segment around ONE periodic column of the given cycle length, read by the
/// main transition constraints (`main_reads`), by the auxiliary ones (`aux_reads`) or by both — so that what a fragment of the
/// constraint evaluation table computes depends on the GLOBAL row it starts at; `seq`: a sequence assertion of 8 values
/// (boundary values depending on the row) on the second column
fn periodic_desc(n: usize, cycle: usize, main_reads: bool, aux: bool, aux_reads: bool, lagrange: bool, seq: bool) -> AirDesc {
    let periodic: Vec<Vec<u128>> = vec![(0..cycle).map(|i| (i as u128 * 2654435761 + 12345) % (1 << 40) + 1).collect()];
    let cycles = vec![cycle];
    let e0 = if main_reads {
        Expr::add(Expr::mul(Expr::Cur(0), Expr::Cur(1)), Expr::mul(Expr::Per(0), Expr::Cur(1)))
    } else {
        Expr::add(Expr::mul(Expr::Cur(0), Expr::Cur(1)), Expr::Const(3))
    };
    let e1 = Expr::add(Expr::Cur(1), Expr::Cur(0));
    let c0 = Expr::sub(Expr::Nxt(0), e0.clone());
    let c1 = Expr::sub(Expr::Nxt(1), e1.clone());
    let mut assertions = vec![AssertDesc::single(0, 0), AssertDesc::single(1, n - 1)];
    if seq {
        assertions.push(AssertDesc::sequence(1, 1, n / 8));
    }
    let mut d = AirDesc {
        width: 2,
        trace_len: n,
        exemptions: 1,
        tail_junk: false,
        periodic,
        cols: vec![ColGen::Step { init: None, expr: e0 }, ColGen::Step { init: None, expr: e1 }],
        constraints: vec![Constraint { degree: c0.degree(&cycles, n), expr: c0 }, Constraint { degree: c1.degree(&cycles, n), expr: c1 }],
        assertions,
        aux: None,
    };
    if aux {
        let (r0, r1) = (Expr::Rand(0), Expr::Rand(1));
        let (init, step) = if aux_reads {
            // running sum with a periodic selector: s' = s + p * c0 * r0, s_0 = r1
            (r1.clone(), Expr::add(Expr::AuxCur(0), Expr::mul(Expr::mul(Expr::Per(0), Expr::Cur(0)), r0.clone())))
        } else {
            // running product z' = z * (c0 + r0), z_0 = 1
            (Expr::Const(1), Expr::mul(Expr::AuxCur(0), Expr::add(Expr::Cur(0), r0.clone())))
        };
        let c = Expr::sub(Expr::AuxNxt(0), step.clone());
        d.aux = Some(AuxDesc {
            width: 1 + lagrange as usize,
            num_rands: 2,
            lagrange,
            cols: vec![AuxGen::Acc { init: init.clone(), step }],
            constraints: vec![Constraint { degree: c.degree(&cycles, n), expr: c }],
            assertions: vec![AuxAssertDesc { a: AssertDesc::single(0, 0), value: init }],
        });
    }
    d
}

fn prove_line(field: FieldId, hash: HashId, o: &OptSpec, seed: u64, d: &AirDesc) -> String {
    format!("prove {} {} {} {} {}", field.name(), hash.name(), o.to_text(), seed, d.to_line())
}

const FLDS: [&str; 3] = ["f62", "f64", "f128"];

fn exts_of(f: &str) -> Vec<&'static str> {
    match f {
        "f62" => {
            let mut v = vec!["1"];
            if QuadExtension::<f62::BaseElement>::is_supported() {
                v.push("2");
            }
            if CubeExtension::<f62::BaseElement>::is_supported() {
                v.push("3");
            }
            v
        },
        "f64" => vec!["1", "2", "3"],
        _ => {
            let mut v = vec!["1"];
            if QuadExtension::<f128::BaseElement>::is_supported() {
                v.push("2");
            }
            if CubeExtension::<f128::BaseElement>::is_supported() {
                v.push("3");
            }
            v
        },
    }
}

impl Prop for P {
    fn id(&self) -> &'static str {
        "C14"
    }

    fn gen(&self, rng: &mut Rng, tier: Tier, n: usize, emit: &mut dyn FnMut(String)) {
        let quick = tier == Tier::Quick;
        let scale = if n != 0 { n } else if quick { 1 } else { 4 };
        // thread-pool sizes: the property's 1..64 including non-powers of two
        let all: Vec<usize> = vec![1, 2, 3, 5, 8, 16, 33, 64];
        let base: Vec<usize> = if quick { vec![1, 3, 8] } else { all.clone() };
        let wide: Vec<usize> = if quick { vec![2, 5, 16, 33, 64] } else { all.clone() };
        let reps = if quick { 2 } else { 4 };
        // every line additionally runs on two pool sizes of its own: one in 2..31 and one NON-power of two in 33..63 (where
        // len mod threads, len / threads and next_power_of_two(threads) all differ from the power-of-two cases)
        let extras: Vec<(usize, usize)> = (0..8192)
            .map(|_| {
                let a = rng.range(2, 31) as usize;
                let mut b = rng.range(33, 63) as usize;
                if b.is_power_of_two() {
                    b += 1;
                }
                (a, b)
            })
            .collect();
        let sched = |i: usize| -> String {
            // most lines run on the tier's base set; every fourth one on the other sizes as well
            let mut ts = if i % 4 == 3 { wide.clone() } else { base.clone() };
            let (a, b) = extras[i % extras.len()];
            ts.push(a);
            ts.push(b);
            format!("{} r={}", tl(&ts), reps)
        };
        let mut i = 0usize;
        let mut line = |s: String, emit: &mut dyn FnMut(String)| {
            i += 1;
            emit(format!("{} {}", s, sched(i)));
        };
        // seeds: mostly random data, one in six structured (see rand_elems)
        fn sd(rng: &mut Rng) -> u64 {
            let r = rng.u64() % 1000;
            if rng.chance(1, 6) {
                rng.range(1, 7) * 1_000_000 + r
            } else {
                r
            }
        }

        // ---- partitions (modelled): lengths around the thresholds and ragged lengths x thread counts
        let lens: Vec<usize> = vec![0, 1, 2, 3, 7, 63, 64, 65, 127, 128, 129, 255, 1000, 1023, 1024, 1025, 2047, 2048, 2049, 3000, 4095, 4096, 5000, 8191, 8192, 65536, 65537, 100003];
        let tcs: Vec<usize> = if quick { vec![1, 2, 3, 5, 8, 16, 33, 64] } else { (1..=64).collect() };
        for &len in &lens {
            for &k in &tcs {
                if quick && rng.chance(1, 2) {
                    continue;
                }
                let min = *rng.pick(&["-", "1", "128", "1024", "2", "77"]);
                emit(format!("part batch {} {} {}", len, min, k));
            }
        }
        for _ in 0..(60 * scale) {
            let len = if rng.chance(1, 2) { rng.range(0, 5000) } else { rng.range(0, 300000) } as usize;
            let k = rng.range(1, 64) as usize;
            let min = *rng.pick(&["-", "1", "128", "1024", "3", "500"]);
            emit(format!("part batch {} {} {}", len, min, k));
        }
        for &len in &[8usize, 16, 64, 1024, 4096] {
            for &fl in &[2usize, 4, 8, 64, 1024, 4096] {
                if fl <= len {
                    emit(format!("part frag {} {} {}", len, fl, rng.pick(&tcs)));
                }
            }
        }
        for &leaves in &[2usize, 4, 8, 16, 64, 128, 256, 512, 1024, 2048, 4096, 8192] {
            for &k in &tcs {
                if quick && leaves > 2048 && k % 2 == 0 && k != 64 {
                    continue;
                }
                emit(format!("part merkle {} {}", leaves, k));
            }
        }

        // ---- Miri on the two raw-pointer routines (model validation; thorough tier only: it compiles a scratch crate)
        if !quick {
            emit("miri permute".to_string());
            emit("miri merkle".to_string());
        }

        // ---- sweeps over EVERY pool size 1..64 for the cheap operations that sit exactly on a concurrency threshold
        {
            let every: String = format!("t={} r=1", (1..=64).map(|k| k.to_string()).collect::<Vec<_>>().join(","));
            let mut ops: Vec<String> = vec![
                "tw f64 2048".into(),
                "tw f62 4096".into(),
                "tw f128 2048".into(),
                format!("fft f64 1 eval 1024 {}", rng.u64() % 1000),
                format!("fft f128 1 eval 2048 {}", rng.u64() % 1000),
                format!("fft f64 2 interp 1024 {}", rng.u64() % 1000),
                format!("fft f62 1 interpo 1024 {}", rng.u64() % 1000),
                format!("fft f64 1 interpo 2048 {}", rng.u64() % 1000),
                format!("fft f64 1 evalo 1024 2 {}", rng.u64() % 1000),
                format!("fft f128 1 evalo 1024 16 {}", rng.u64() % 1000),
                format!("series f64 1 65553 {}", rng.u64() % 1000),
                format!("inv f64 1 65553 {} 1", rng.u64() % 1000),
                format!("merkle f64 blake3_256 2048 {}", rng.u64() % 1000),
                format!("lde f64 1 3 128 8 {} 8", rng.u64() % 1000),
                format!("lde f64 1 17 64 16 {} 8", rng.u64() % 1000),
                format!("fold f64 1 4 4096 {}", rng.u64() % 1000),
                format!("fill f64 2 1024 8 {}", rng.u64() % 1000),
            ];
            if !quick {
                ops.push(format!("fft f64 1 eval 4096 {}", rng.u64() % 1000));
                ops.push(format!("fft f64 3 evalo 2048 4 {}", rng.u64() % 1000));
                ops.push(format!("merkle f64 rp64_256 2048 {}", rng.u64() % 1000));
                ops.push(format!("lde f128 1 130 8 8 {} 8", rng.u64() % 1000));
            }
            for o in ops {
                emit(format!("{} {}", o, every));
            }
            // one case of each offset-indexed loop beyond 2^16 elements (index arithmetic wider than 16 bits)
            emit(format!("fft f64 1 interpo 131072 {} t=3,8,33 r=1", rng.u64() % 1000));
            emit(format!("fft f64 1 evalo 131072 2 {} t=3,8,33 r=1", rng.u64() % 1000));
            emit(format!("series f64 1 262147 {} t=2,3,64 r=1", rng.u64() % 1000));
            emit(format!("inv f64 1 262147 {} 1 t=2,3,64 r=1", rng.u64() % 1000));
        }
        // ---- batch sizes exactly on, just below and just above the minimum batch sizes: len / P around 1024 (power series,
        //      batch inversion) for every P = next_power_of_two(threads), threads a power of two and not
        for pw in [1usize, 2, 4, 8, 16, 32, 64] {
            let np = if pw <= 2 { pw } else { pw / 2 + 1 }; // rounds up to pw
            let np2 = if pw <= 2 { pw } else { pw - 1 };
            for len in [1024 * pw - 1, 1024 * pw, 1024 * pw + 1, 1024 * pw + pw - 1, 1024 * pw + pw, 2048 * pw - 1] {
                if quick && pw >= 16 && rng.chance(1, 2) {
                    continue;
                }
                let f = *rng.pick(&FLDS);
                emit(format!("series {} 1 {} {} t={},{},{} r=1", f, len, rng.u64() % 1000, pw, np, np2));
                emit(format!("inv {} 1 {} {} {} t={},{},{} r=1", f, len, rng.u64() % 1000, rng.below(5), pw, np, np2));
            }
        }
        // ---- rows / P around 128 (row hashing of both matrix types) and around the 1024 of the transposition
        for pw in [2usize, 4, 16, 64] {
            for rows in [64 * pw, 128 * pw, 256 * pw] {
                let b = *rng.pick(&[2usize, 4, 8]);
                let cols = *rng.pick(&[1usize, 2, 9]);
                emit(format!("lde f64 1 {} {} {} {} 8 t={},{},{} r=1", cols, rows / b, b, rng.u64() % 1000, pw, pw - 1, (pw / 2).max(1)));
            }
        }

        // the sections below are generated once in the quick tier, three times (fresh seeds and choices) in the thorough one
        for _pass in 0..(if quick { 1 } else { 3 }) {
            // ---- transforms on both sides of 1024
            let fft_sizes: Vec<usize> = if quick { vec![256, 512, 1024, 2048, 4096, 8192] } else { vec![8, 256, 512, 1024, 2048, 4096, 8192, 16384] };
            for f in FLDS {
                for e in exts_of(f) {
                    for &nn in &fft_sizes {
                        if quick && (e != "1" && nn > 2048 || nn > 4096 && f != "f64") {
                            continue;
                        }
                        line(format!("fft {} {} eval {} {}", f, e, nn, sd(rng)), emit);
                        line(format!("fft {} {} interp {} {}", f, e, nn, sd(rng)), emit);
                        line(format!("fft {} {} interpo {} {}", f, e, nn, sd(rng)), emit);
                        // blowup factors up to the largest one (the coset index is the bit-reversed chunk index)
                        let bs: Vec<usize> = if nn <= 1024 { vec![2, 4, 8, 16, 32, 64, 128] } else { vec![2, 4, 8, 16] };
                        let b = *rng.pick(&bs);
                        line(format!("fft {} {} evalo {} {} {}", f, e, nn, b, sd(rng)), emit);
                    }
                }
                for &nn in &fft_sizes {
                    line(format!("tw {} {}", f, nn), emit);
                    line(format!("tw {} {}", f, 2 * nn), emit);
                }
            }
            // ---- series, inversion, vectors: ragged lengths around the thresholds
            let vlens: Vec<usize> = vec![0, 1, 5, 1023, 1024, 1025, 2047, 2048, 2049, 3000, 4096, 8191, 8192, 10000, 16385, 65536 + 17];
            for f in FLDS {
                for e in exts_of(f) {
                    for &nn in &vlens {
                        if quick && e != "1" && rng.chance(2, 3) {
                            continue;
                        }
                        line(format!("series {} {} {} {}", f, e, nn, rng.u64() % 1000), emit);
                        line(format!("inv {} {} {} {} {}", f, e, nn, sd(rng), rng.below(5)), emit);
                        if rng.chance(1, 3) {
                            line(format!("vec {} {} {} {}", f, e, nn, sd(rng)), emit);
                        }
                    }
                }
            }
            // ---- Merkle trees, leaves on both sides of 1024, every hasher
            let leaf_counts: Vec<usize> = if quick { vec![2, 8, 512, 1024, 2048, 4096] } else { vec![2, 4, 8, 64, 512, 1024, 2048, 4096, 8192, 16384] };
            for (f, h) in [
                ("f62", "blake3_256"),
                ("f62", "rp62_248"),
                ("f64", "blake3_256"),
                ("f64", "blake3_192"),
                ("f64", "sha3_256"),
                ("f64", "rp64_256"),
                ("f64", "rpjive64_256"),
                ("f128", "blake3_256"),
                ("f128", "blake3_192"),
                ("f128", "sha3_256"),
            ] {
                for &lc in &leaf_counts {
                    if quick && h.starts_with("rp") && lc > 2048 {
                        continue;
                    }
                    line(format!("merkle {} {} {} {}", f, h, lc, rng.u64() % 1000), emit);
                }
            }
            // ---- low-degree extension of matrices: narrow and wide, short and long
            for f in FLDS {
                for e in exts_of(f) {
                    let shapes: Vec<(usize, usize, usize)> = vec![
                        (1, 8, 2),
                        (3, 8, 8),
                        (9, 16, 4),
                        (17, 64, 16),
                        (130, 8, 8),
                        (255, 8, 4),
                        (255, 8, 2),
                        (40, 16, 8),
                        (2, 512, 2),
                        (7, 256, 4),
                        (9, 1024, 2),
                        (3, 2048, 4),
                        // row counts at which rows / next_pow2(threads) crosses the literal 128 of commit_to_rows
                        (2, 128, 8),
                        (2, 512, 4),
                        (2, 1024, 8),
                        // large blowup factors (many cosets of a short polynomial)
                        (3, 8, 128),
                        (5, 16, 64),
                        (2, 32, 32),
                        (9, 64, 128),
                        // rows x segments exactly 1024 and just below (the transposition's single-batch limit)
                        (9, 128, 4),
                        (9, 64, 4),
                        (16, 64, 8),
                    ];
                    for (c, nn, b) in shapes {
                        if quick && e != "1" && c * nn > 3000 {
                            continue;
                        }
                        if e != "1" && c > 100 {
                            continue;
                        }
                        let w = *rng.pick(&[8usize, 8, 8, 4, 16, 2, 1]);
                        line(format!("lde {} {} {} {} {} {} {}", f, e, c, nn, b, sd(rng), w), emit);
                    }
                }
            }
            // ---- FRI: folding, layer commitments, proofs
            for f in FLDS {
                for e in exts_of(f) {
                    for nn in [2usize, 4, 8, 16] {
                        for &len in &[1024usize, 4096, 32768] {
                            if quick && (len > 4096 || rng.chance(1, 2)) {
                                continue;
                            }
                            line(format!("fold {} {} {} {} {}", f, e, nn, len, sd(rng)), emit);
                        }
                    }
                }
            }
            for (f, e, h) in [
                ("f62", "1", "blake3_256"),
                ("f62", "2", "blake3_256"),
                ("f62", "1", "rp62_248"),
                ("f64", "1", "blake3_256"),
                ("f64", "2", "blake3_192"),
                ("f64", "3", "sha3_256"),
                ("f64", "1", "rp64_256"),
                ("f64", "2", "rpjive64_256"),
                ("f128", "1", "blake3_256"),
                ("f128", "2", "sha3_256"),
                ("f128", "3", "blake3_192"),
            ] {
                if f == "f62" && e == "2" && !QuadExtension::<f62::BaseElement>::is_supported() {
                    continue;
                }
                if f == "f128" && e == "3" && !CubeExtension::<f128::BaseElement>::is_supported() {
                    continue;
                }
                if f == "f128" && e == "2" && !QuadExtension::<f128::BaseElement>::is_supported() {
                    continue;
                }
                let ldes: Vec<usize> = if quick { vec![512, 2048, 8192] } else { vec![64, 512, 1024, 2048, 8192, 32768] };
                for &lde in &ldes {
                    if quick && h.starts_with("rp") && lde > 2048 {
                        continue;
                    }
                    let (mut b, mut fo, mut rem) = (2usize, 2usize, 0usize);
                    for _ in 0..100 {
                        b = *rng.pick(&[2usize, 4, 8]);
                        fo = *rng.pick(&[2usize, 4, 8, 16]);
                        rem = *rng.pick(&[0usize, 1, 3, 7, 31]);
                        if fri_well_formed(lde, b, fo, rem) {
                            break;
                        }
                    }
                    line(format!("fri {} {} {} {} {} {} {} {}", f, e, h, lde, b, fo, rem, rng.u64() % 1000), emit);
                }
            }
            // ---- traces filled through fragments
            for f in FLDS {
                for &(w, len, fl) in &[(1usize, 8usize, 2usize), (3, 64, 8), (2, 1024, 64), (5, 4096, 4096), (2, 8192, 2)] {
                    line(format!("fill {} {} {} {} {}", f, w, len, fl, rng.u64() % 1000), emit);
                }
            }
        }
        // ---- end-to-end proofs: constraint-evaluation domains on both sides of 8192 rows
        let mut e2e: Vec<(FieldId, HashId, OptSpec, AirDesc)> = vec![];
        // ce domain = trace length x 2 for degree-2 rules: 4096 / 8192 / (thorough) 16384 rows
        let big: Vec<usize> = if quick { vec![2048, 4096] } else { vec![1024, 2048, 4096, 8192] };
        for &nn in &big {
            e2e.push((FieldId::F64, HashId::Blake3_256, OptSpec::new(8, 2, 0, 1, 4, 31), power_desc(nn, 2)));
            e2e.push((FieldId::F128, HashId::Sha3_256, OptSpec::new(5, 4, 3, 1, 8, 15), wide_desc(3, nn, 3, 0, false)));
            e2e.push((FieldId::F64, HashId::Rp64_256, OptSpec::new(6, 2, 2, 2, 2, 7), wide_desc(3, nn, 2, 2, false)));
            if !quick {
                e2e.push((FieldId::F62, HashId::Blake3_192, OptSpec::new(6, 4, 0, 2, 4, 7), wide_desc(4, nn, 3, 1, false)));
                e2e.push((FieldId::F64, HashId::RpJive64_256, OptSpec::new(4, 2, 5, 3, 16, 63), wide_desc(2, nn, 2, 2, true)));
            }
        }
        // short and wide traces (many row-matrix segments), small everything
        e2e.push((FieldId::F64, HashId::Blake3_256, OptSpec::new(4, 8, 0, 1, 2, 3), wide_desc(130, 8, 2, 0, false)));
        e2e.push((FieldId::F128, HashId::Blake3_192, OptSpec::new(4, 4, 0, 1, 4, 1), wide_desc(250, 8, 2, 0, false)));
        e2e.push((FieldId::F62, HashId::Rp62_248, OptSpec::new(3, 4, 1, 1, 2, 0), wide_desc(5, 16, 4, 0, false)));
        e2e.push((FieldId::F64, HashId::Sha3_256, OptSpec::new(3, 8, 0, 3, 2, 1), wide_desc(20, 16, 4, 45, true)));
        e2e.push((FieldId::F64, HashId::Blake3_256, OptSpec::new(7, 16, 4, 2, 4, 7), power_desc(64, 9)));
        e2e.push((FieldId::F128, HashId::Blake3_256, OptSpec::new(9, 8, 8, 1, 4, 15), power_desc(512, 3)));
        // HIGH-DEGREE transition constraints on TINY traces: the constraint-evaluation blowup (the period of the inverse
        // divisor table acc_column indexes) is 32/64/128 while the batches of batch_iter_mut! (ce_domain / next_pow2(threads))
        // land below, at and above 16, the blowup and 128 — thread counts on both sides of every power of two up to 64
        {
            let tiny: Vec<usize> = vec![8, 16, 32];
            // (the library requires the declared degrees to need the whole constraint-evaluation domain: (d-1)(n-1) > n*blowup/2)
            let degs: Vec<u32> = if quick { vec![20, 33, 65, 129] } else { vec![3, 5, 9, 17, 20, 33, 40, 65, 80, 129] };
            let flds = [(FieldId::F64, HashId::Blake3_256), (FieldId::F128, HashId::Sha3_256), (FieldId::F62, HashId::Blake3_192), (FieldId::F64, HashId::Rp64_256)];
            let mut k = 0usize;
            for &nn in &tiny {
                for &d in &degs {
                    let desc = power_desc(nn, d);
                    let cb = desc.min_blowup();
                    let blowups: Vec<usize> = if quick { vec![if (nn + d as usize) % 3 == 0 && cb < 128 { 128 } else { cb }] } else { [cb, 128].into_iter().filter(|b| *b >= cb && *b <= 128).collect() };
                    for &b in &blowups {
                        let lde = nn * b;
                        let mut opt = None;
                        'search: for fo in [2usize, 4, 8, 16] {
                            for rem in [0usize, 1, 3, 7] {
                                if fri_well_formed(lde, b, fo, rem) {
                                    opt = Some((fo, rem));
                                    if (fo + rem + k) % 3 == 0 {
                                        break 'search;
                                    }
                                }
                            }
                        }
                        let Some((fo, rem)) = opt else { continue };
                        let (field, hash) = flds[k % flds.len()];
                        k += 1;
                        let x = if field.supports_ext(2) && k % 2 == 0 { 2 } else { 1 };
                        let o = OptSpec::new(4, b, 0, x, fo, rem);
                        let ts = if quick { "t=8,9,16,17,32,33,64 r=1" } else { "t=1,7,8,9,15,16,17,31,32,33,63,64 r=2" };
                        emit(format!("{} {}", prove_line(field, hash, &o, rng.u64() % 1000, &desc), ts));
                    }
                }
            }
        }
        // constraint-evaluation domains 128..4096 rows (x' = x^3 + 5: ce blowup 4, LDE blowup 8 or 16: the two differ) on pools
        // for which ce / P is 64, 128 and 256 — the minimum batch size of the inverse-divisor and accumulation loops
        for nn in [32usize, 64, 128, 256, 512, 1024] {
            let desc = power_desc(nn, 3);
            let ce = nn * desc.min_blowup();
            let b = *rng.pick(&[8usize, 16]);
            let mut ts: Vec<usize> = [ce / 256, ce / 128, ce / 64].into_iter().filter(|k| *k >= 1 && *k <= 64).collect();
            if let Some(&m) = ts.last() {
                if m > 2 {
                    ts.push(m - 1);
                }
            }
            if ts.is_empty() {
                continue;
            }
            let (mut fo, mut rem) = (2usize, 0usize);
            for _ in 0..100 {
                fo = *rng.pick(&[2usize, 4, 8]);
                rem = *rng.pick(&[0usize, 1, 3, 7]);
                if fri_well_formed(nn * b, b, fo, rem) {
                    break;
                }
            }
            let field = *rng.pick(&FieldId::ALL);
            let hash = *rng.pick(&HashId::for_field(field));
            let o = OptSpec::new(5, b, 0, 1, fo, rem);
            emit(format!("{} {} r=1", prove_line(field, hash, &o, rng.u64() % 1000, &desc), tl(&ts)));
        }
        // ---- per-fragment code paths on data that depends on the GLOBAL row: periodic columns with cycles of 2, n/2 and n rows
        //      (longer than a fragment of the evaluation table) read by the main constraints, by the auxiliary ones and by
        //      both; main-only and main+aux segments, Lagrange kernel column on/off, sequence assertions; constraint-evaluation
        //      domains of 4096 (one fragment), 8192, 16384 and 32768 rows; pools of 2, 3, 4 and 16 threads
        {
            // (trace length, cycle, main reads, aux segment, aux reads, lagrange, sequence assertion)
            let mut cases: Vec<(usize, usize, bool, bool, bool, bool, bool)> = vec![
                (2048, 2048, true, true, true, false, false),
                (4096, 4096, false, true, true, false, false),
                (4096, 2048, true, true, true, true, true),
                (4096, 2, false, true, true, false, true),
                (4096, 4096, true, false, false, false, true),
                (4096, 4096, true, true, false, true, false),
                (8192, 8192, false, true, true, false, false),
                (8192, 4096, true, false, false, false, false),
                (16384, 16384, true, true, true, false, false),
            ];
            if !quick {
                cases.push((8192, 8192, true, true, true, true, true));
                cases.push((16384, 8192, false, true, true, true, false));
                cases.push((16384, 2, true, false, false, false, true));
                cases.push((2048, 1024, false, true, true, true, true));
            }
            let combos = [
                (FieldId::F64, HashId::Blake3_256, 1u8),
                (FieldId::F128, HashId::Blake3_192, 1),
                (FieldId::F64, HashId::Rp64_256, 2),
                (FieldId::F62, HashId::Sha3_256, 1),
                (FieldId::F64, HashId::Sha3_256, 3),
            ];
            for (k, (nn, cy, mr, ax, ar, lg, sq)) in cases.into_iter().enumerate() {
                let desc = periodic_desc(nn, cy, mr, ax, ar, lg, sq);
                let (field, hash, x) = combos[k % combos.len()];
                let x = if field.supports_ext(x) { x } else { 1 };
                let b = if k % 3 == 2 { 4 } else { 2 };
                let o = OptSpec::new(4, b, 0, x, 8, 31);
                let ts = if quick { "t=2,3,4,16 r=1" } else { "t=2,3,4,5,16,33,64 r=1" };
                emit(format!("{} {}", prove_line(field, hash, &o, rng.u64() % 1000, &desc), ts));
            }
        }
        for (field, hash, o, d) in &e2e {
            line(prove_line(*field, *hash, o, rng.u64() % 1000, d), emit);
        }
        // random descriptions
        for k in 0..(if quick { 24 } else { 160 }) {
            let field = *rng.pick(&FieldId::ALL);
            let hash = *rng.pick(&HashId::for_field(field));
            let bud = Budget {
                min_log_len: 3,
                max_log_len: if k % 6 == 0 { 10 } else { 6 },
                max_width: if k % 8 == 0 { 40 } else { 6 },
                max_degree: *rng.pick(&[1usize, 2, 2, 3, 4]),
                aux_pct: 35,
                lagrange_pct: 35,
                exemptions: true,
                degenerate: false,
                sequences: true,
            };
            let d = random_desc(rng, &bud);
            let minb = d.min_blowup();
            let blowups: Vec<usize> = [2usize, 4, 8, 16, 32].into_iter().filter(|b| *b >= minb && d.trace_len * b <= 1 << 14).collect();
            let b = if blowups.is_empty() { minb } else { *rng.pick(&blowups) };
            let lde = d.trace_len * b;
            // folding/remainder combinations the FRI prover accepts for this domain: remainder domain >= folding
            let (mut fo, mut rem) = (2usize, 0usize);
            for _ in 0..100 {
                fo = *rng.pick(&[2usize, 4, 8]);
                rem = *rng.pick(&[0usize, 1, 3, 7]);
                if fri_well_formed(lde, b, fo, rem) {
                    break;
                }
            }
            let exts: Vec<u8> = (1..=3u8).filter(|x| field.supports_ext(*x)).collect();
            let x = *rng.pick(&exts);
            let g = if rng.chance(1, 3) { rng.range(1, 8) as u32 } else { 0 };
            let q = rng.range(1, 10.min(lde as u64 - 1)) as usize;
            let o = OptSpec::new(q, b, g, x, fo, rem);
            line(prove_line(field, hash, &o, rng.u64() % 1000, &d), emit);
        }
    }

    fn exec(&self, line: &str) -> Outcome {
        exec_line(line)
    }

    fn timeout_ms(&self) -> u64 {
        1_500_000
    }

    fn nontrivial(&self, line: &str, out: &str) -> bool {
        !out.starts_with("bad-op") && !out.starts_with("no-alt") && out != "unavailable"
    }

    fn class(&self, line: &str, out: &str) -> String {
        let t: Vec<&str> = line.split(' ').collect();
        let head = match t.first().copied().unwrap_or("") {
            "fft" => format!("fft.{}.{}", t.get(1).unwrap_or(&""), t.get(3).unwrap_or(&"")),
            "part" => format!("part.{}", t.get(1).unwrap_or(&"")),
            "prove" => format!("prove.{}.{}", t.get(1).unwrap_or(&""), t.get(2).unwrap_or(&"")),
            x => format!("{}.{}", x, t.get(1).unwrap_or(&"")),
        };
        let o = if out.starts_with("ok") || t.first() == Some(&"part") && out != "panic" && out != "bad-op" { "ok" } else { out.split(' ').next().unwrap_or("") };
        format!("{}:{}", head, o)
    }

    fn rule(&self) -> &'static str {
        "distinct op lines that are not bad-op; one line = one input computed once by the serial build and once per (thread-pool size, repetition) by the concurrent build, all result sections compared byte-for-byte"
    }

    fn panic_site(&self, _line: &str) -> Option<String> {
        Some("c14.harness.panic".into())
    }

    fn workers(&self) -> usize {
        6
    }
}

fn main() {
    let args: Vec<String> = std::env::args().collect();
    if args.len() >= 2 && args[1] == "compute" {
        cmd_compute(&args[2..]);
        return;
    }
    main_for(&P);
}
